//go:build verif

// Package ev is the shared run/evidence/verdict machinery of the checks:
// seeded case derivation, parallel workers, violation bookkeeping with stable
// keys, known-findings matching, replay files and the evidence writer.
package ev

import (
	"crypto/sha256"
	"encoding/binary"
	"encoding/hex"
	"encoding/json"
	"fmt"
	"math/rand"
	"os"
	"path/filepath"
	"regexp"
	"runtime"
	"runtime/debug"
	"sort"
	"strconv"
	"strings"
	"sync"
	"sync/atomic"
	"time"
)

// Root is the /verif directory (evidence/, replays/, known_findings.json live there).
var Root = func() string {
	if r := os.Getenv("VERIF_ROOT"); r != "" {
		return r
	}
	return "/verif"
}()

// Violation is one refuting observation.
type Violation struct {
	Key      string `json:"key"`  // stable, narrow: names the failing input class / history / call site
	What     string `json:"what"` // human readable
	Case     any    `json:"case"` // the full case spec (replayable)
	Observed any    `json:"observed,omitempty"`
}

type finding struct {
	Property string `json:"property"`
	Key      string `json:"key"`
	Status   string `json:"status"` // known | fixed
	Commit   string `json:"commit,omitempty"`
	What     string `json:"what"`
	Witness  any    `json:"witness,omitempty"`
}

// Run collects everything one check invocation observes.
type Run struct {
	Prop  string
	Tier  string
	Seed  int64
	Level string

	start time.Time
	mu    sync.Mutex

	evals        int64
	distinct     map[[12]byte]struct{}
	counters     map[string]int64
	sets         map[string]map[string]struct{}
	samples      []any
	sampleEvery  int64
	violations   []Violation
	inconclusive []string
	maxSamples   int
	replayMode   bool
	harnessErr   []string
}

// New creates the run from the command line convention: tier from arg, seed from VERIF_SEED.
func New(prop, level, tier string) *Run {
	seed := int64(1)
	if s := os.Getenv("VERIF_SEED"); s != "" {
		if v, err := strconv.ParseInt(s, 10, 64); err == nil {
			seed = v
		}
	}
	if tier != "quick" && tier != "thorough" {
		tier = "quick"
	}
	return &Run{
		Prop: prop, Tier: tier, Seed: seed, Level: level, start: time.Now(),
		distinct: map[[12]byte]struct{}{}, counters: map[string]int64{},
		sets: map[string]map[string]struct{}{}, maxSamples: 6,
	}
}

func (r *Run) Thorough() bool { return r.Tier == "thorough" }

// Pick returns q in the quick tier and t in the thorough tier.
func (r *Run) Pick(q, t int) int {
	if r.Thorough() {
		return t
	}
	return q
}

// Rng derives an independent PRNG for case idx of stream name: a case is a pure
// function of (VERIF_SEED, stream, idx).
func (r *Run) Rng(stream string, idx int) *rand.Rand {
	return RngFor(r.Seed, stream, idx)
}

func RngFor(seed int64, stream string, idx int) *rand.Rand {
	h := sha256.New()
	var b [16]byte
	binary.LittleEndian.PutUint64(b[:8], uint64(seed))
	binary.LittleEndian.PutUint64(b[8:], uint64(idx))
	h.Write(b[:])
	h.Write([]byte(stream))
	s := h.Sum(nil)
	return rand.New(rand.NewSource(int64(binary.LittleEndian.Uint64(s[:8]))))
}

// Eval records one evaluated case. sig identifies the case for the distinct count
// (only counted when nontrivial).
func (r *Run) Eval(sig string, nontrivial bool) {
	atomic.AddInt64(&r.evals, 1)
	if !nontrivial {
		return
	}
	s := sha256.Sum256([]byte(sig))
	var k [12]byte
	copy(k[:], s[:12])
	r.mu.Lock()
	r.distinct[k] = struct{}{}
	r.mu.Unlock()
}

// Count adds n to a named counter of observed events.
func (r *Run) Count(name string, n int64) {
	r.mu.Lock()
	r.counters[name] += n
	r.mu.Unlock()
}

// Max keeps the maximum of a named gauge.
func (r *Run) Max(name string, v int64) {
	r.mu.Lock()
	if v > r.counters[name] {
		r.counters[name] = v
	}
	r.mu.Unlock()
}

// Seen adds a member to a named set (reported as distinct count, e.g. transcripts).
func (r *Run) Seen(set, member string) {
	r.mu.Lock()
	m := r.sets[set]
	if m == nil {
		m = map[string]struct{}{}
		r.sets[set] = m
	}
	if len(m) < 2_000_000 {
		m[member] = struct{}{}
	}
	r.mu.Unlock()
}

func (r *Run) SetSize(set string) int {
	r.mu.Lock()
	defer r.mu.Unlock()
	return len(r.sets[set])
}

// Sample keeps a few written-out cases for the evidence file.
func (r *Run) Sample(v any) {
	r.mu.Lock()
	if len(r.samples) < r.maxSamples {
		r.samples = append(r.samples, v)
	}
	r.mu.Unlock()
}

func (r *Run) Violate(v Violation) {
	r.mu.Lock()
	if len(r.violations) < 5000 {
		r.violations = append(r.violations, v)
	}
	r.counters["violating_observations"]++
	r.mu.Unlock()
}

func (r *Run) Violations() int {
	r.mu.Lock()
	defer r.mu.Unlock()
	return len(r.violations)
}

// Inconclusive records a case without a verdict (watchdog fired, checker timeout).
func (r *Run) Inconclusive(what string) {
	r.mu.Lock()
	r.inconclusive = append(r.inconclusive, what)
	r.mu.Unlock()
}

// HarnessError: the harness itself is broken (self-test failed): exit 2, no verdict.
func (r *Run) HarnessError(what string) {
	r.mu.Lock()
	r.harnessErr = append(r.harnessErr, what)
	r.mu.Unlock()
}

// Parallel runs fn(i) for i in [0,n) on all cores; a panic in fn is a harness error
// (checkers must recover panics of the code under test themselves).
func (r *Run) Parallel(n int, fn func(i int)) {
	r.ParallelN(runtime.GOMAXPROCS(0), n, fn)
}

func (r *Run) ParallelN(workers, n int, fn func(i int)) {
	if workers < 1 {
		workers = 1
	}
	var next int64 = -1
	var wg sync.WaitGroup
	for w := 0; w < workers; w++ {
		wg.Add(1)
		go func() {
			defer wg.Done()
			for {
				i := int(atomic.AddInt64(&next, 1))
				if i >= n {
					return
				}
				func() {
					defer func() {
						if p := recover(); p != nil {
							r.HarnessError(fmt.Sprintf("panic in harness at case %d: %v\n%s", i, p, debug.Stack()))
						}
					}()
					fn(i)
				}()
			}
		}()
	}
	wg.Wait()
}

// Floor describes a minimum number of observed events below which the run
// "observed nothing" and must not pass.
type Floor struct {
	Counter string
	Min     int64
}

type Summary struct {
	Rule        string
	Assumptions []string
	Floors      []Floor
	Exhaustive  bool
	Extra       map[string]any
}

var keySan = regexp.MustCompile(`[^A-Za-z0-9._-]+`)

func loadFindings() []finding {
	var fs []finding
	b, err := os.ReadFile(filepath.Join(Root, "known_findings.json"))
	if err != nil {
		return nil
	}
	var doc struct {
		Findings []finding `json:"findings"`
	}
	if json.Unmarshal(b, &doc) == nil {
		fs = doc.Findings
	}
	return fs
}

// Finish writes the evidence file and replay files, prints the verdict lines and
// returns the process exit code.
func (r *Run) Finish(s Summary) int {
	wall := time.Since(r.start).Seconds()
	r.mu.Lock()
	defer r.mu.Unlock()

	known := map[string]finding{}
	for _, f := range loadFindings() {
		if f.Property == r.Prop && f.Status == "known" {
			known[f.Key] = f
		}
	}

	// group violations by key
	byKey := map[string][]Violation{}
	var keys []string
	for _, v := range r.violations {
		if _, ok := byKey[v.Key]; !ok {
			keys = append(keys, v.Key)
		}
		byKey[v.Key] = append(byKey[v.Key], v)
	}
	sort.Strings(keys)

	exit := 0
	unknownViol := 0
	knownSeen := 0
	_ = os.MkdirAll(filepath.Join(Root, "replays"), 0o755)
	var lines []string
	for _, k := range keys {
		vs := byKey[k]
		if f, ok := known[k]; ok {
			knownSeen++
			lines = append(lines, fmt.Sprintf("KNOWN-FINDING: property=%s key=%s %s (seen %d times this run)", r.Prop, k, f.What, len(vs)))
			continue
		}
		unknownViol += len(vs)
		exit = 1
		name := fmt.Sprintf("%s-%s.json", r.Prop, strings.Trim(keySan.ReplaceAllString(k, "_"), "_"))
		if len(name) > 150 {
			h := sha256.Sum256([]byte(k))
			name = name[:120] + "-" + hex.EncodeToString(h[:6]) + ".json"
		}
		path := filepath.Join(Root, "replays", name)
		doc := map[string]any{
			"property": r.Prop, "key": k, "seed": r.Seed, "tier": r.Tier,
			"what": vs[0].What, "case": vs[0].Case, "observed": vs[0].Observed,
			"occurrences_this_run": len(vs),
		}
		b, _ := json.MarshalIndent(doc, "", " ")
		_ = os.WriteFile(path, b, 0o644)
		lines = append(lines, fmt.Sprintf("VIOLATION property=%s replay=%s", r.Prop, path))
		lines = append(lines, fmt.Sprintf("  key=%s occurrences=%d what=%s", k, len(vs), oneLine(vs[0].What, 300)))
	}

	// floors: observed nothing -> not a pass
	var floorFail []string
	if !r.replayMode {
		for _, f := range s.Floors {
			v := r.counters[f.Counter]
			if f.Counter == "evaluations" {
				v = r.evals
			}
			if sz, ok := r.sets[f.Counter]; ok {
				v = int64(len(sz))
			}
			if v < f.Min {
				floorFail = append(floorFail, fmt.Sprintf("%s=%d < %d", f.Counter, v, f.Min))
			}
		}
	}

	cov := map[string]any{
		"evaluations":         r.evals,
		"distinct_nontrivial": len(r.distinct),
		"rule":                s.Rule,
		"samples":             r.samples,
		"exhaustive":          s.Exhaustive,
		"inconclusive":        len(r.inconclusive),
		"known_findings_seen": knownSeen,
	}
	if len(r.samples) == 0 {
		cov["samples"] = []any{"(no case was run)"}
	}
	obs := map[string]any{}
	for k, v := range r.counters {
		obs[k] = v
	}
	for k, v := range r.sets {
		obs["distinct_"+k] = len(v)
	}
	cov["observed"] = obs
	small := map[string][]string{}
	for k, v := range r.sets {
		if len(v) <= 60 {
			var ms []string
			for m := range v {
				ms = append(ms, m)
			}
			sort.Strings(ms)
			small[k] = ms
		}
	}
	if len(small) > 0 {
		cov["observed_sets"] = small
	}
	for k, v := range s.Extra {
		cov[k] = v
	}
	if len(r.inconclusive) > 0 {
		n := len(r.inconclusive)
		if n > 5 {
			n = 5
		}
		cov["inconclusive_examples"] = r.inconclusive[:n]
	}
	evd := map[string]any{
		"property_id": r.Prop, "tier": r.Tier, "seed": r.Seed, "level": r.Level,
		"coverage": cov, "assumptions": s.Assumptions, "wall_s": wall,
		"violations": unknownViol,
	}
	if !r.replayMode {
		_ = os.MkdirAll(filepath.Join(Root, "evidence"), 0o755)
		path := filepath.Join(Root, "evidence", r.Prop+".json")
		if RaceSlice() {
			// merge into the evidence of the main (non-race) run of this invocation
			var prev map[string]any
			if pb, err := os.ReadFile(path); err == nil && json.Unmarshal(pb, &prev) == nil {
				if pc, ok := prev["coverage"].(map[string]any); ok {
					pc["race_slice"] = map[string]any{"evaluations": r.evals, "observed": obs, "wall_s": wall, "violations": unknownViol}
					if pv, ok := prev["violations"].(float64); ok {
						prev["violations"] = int(pv) + unknownViol
					}
					if pw, ok := prev["wall_s"].(float64); ok {
						prev["wall_s"] = pw + wall
					}
					evd = prev
				}
			}
		}
		b, _ := json.MarshalIndent(evd, "", " ")
		_ = os.WriteFile(path, b, 0o644)
	}

	for _, l := range lines {
		fmt.Println(l)
	}
	var ckeys []string
	for k := range obs {
		ckeys = append(ckeys, k)
	}
	sort.Strings(ckeys)
	var ob []string
	for _, k := range ckeys {
		ob = append(ob, fmt.Sprintf("%s=%v", k, obs[k]))
	}
	fmt.Printf("SUMMARY property=%s tier=%s seed=%d evaluations=%d distinct_nontrivial=%d violations=%d known=%d inconclusive=%d wall=%.1fs\n  observed: %s\n",
		r.Prop, r.Tier, r.Seed, r.evals, len(r.distinct), unknownViol, knownSeen, len(r.inconclusive), wall, strings.Join(ob, " "))

	if len(r.harnessErr) > 0 {
		for _, h := range r.harnessErr {
			fmt.Printf("HARNESS-ERROR property=%s %s\n", r.Prop, oneLine(h, 2000))
		}
		return 2
	}
	if len(floorFail) > 0 && exit == 0 {
		fmt.Printf("OBSERVED-NOTHING property=%s %s\n", r.Prop, strings.Join(floorFail, "; "))
		return 3
	}
	// inconclusive cases fail the run only beyond a small budget
	if exit == 0 && int64(len(r.inconclusive)) > 2+r.evals/200 {
		fmt.Printf("INCONCLUSIVE property=%s %d cases without verdict, e.g. %s\n", r.Prop, len(r.inconclusive), oneLine(r.inconclusive[0], 300))
		return 4
	}
	return exit
}

func oneLine(s string, max int) string {
	s = strings.ReplaceAll(strings.ReplaceAll(s, "\r", "\\r"), "\n", "\\n")
	if len(s) > max {
		s = s[:max] + "..."
	}
	return s
}

// ReplayDoc is what a replay file carries.
type ReplayDoc struct {
	Property string          `json:"property"`
	Key      string          `json:"key"`
	Seed     int64           `json:"seed"`
	Tier     string          `json:"tier"`
	Case     json.RawMessage `json:"case"`
}

func LoadReplay(path string) (ReplayDoc, error) {
	var d ReplayDoc
	b, err := os.ReadFile(path)
	if err != nil {
		return d, err
	}
	err = json.Unmarshal(b, &d)
	return d, err
}

// SetReplayMode: no evidence is written, floors are not applied.
func (r *Run) SetReplayMode() { r.replayMode = true }

// Trunc shortens strings for witnesses.
func Trunc(s string, n int) string {
	if len(s) > n {
		return s[:n] + fmt.Sprintf("...(%d bytes)", len(s))
	}
	return s
}

// Q quotes bytes for witnesses, bounded.
func Q(b []byte, n int) string {
	if len(b) > n {
		return strconv.Quote(string(b[:n])) + fmt.Sprintf("...(%d bytes)", len(b))
	}
	return strconv.Quote(string(b))
}

// CollectRaceLogs scans the race detector log files of this check (GORACE log_path
// set by ./check) and turns every "WARNING: DATA RACE" block into a violation, keyed
// by the pair of top-most go-mail functions of the two conflicting stacks.
func (r *Run) CollectRaceLogs() (blocks int) {
	if os.Getenv("VERIF_RACE_BUILD") != "1" {
		return 0
	}
	files, _ := filepath.Glob(filepath.Join(Root, ".bin", "race-"+r.Prop+".*"))
	for _, f := range files {
		b, err := os.ReadFile(f)
		if err != nil {
			continue
		}
		for _, blk := range strings.Split(string(b), "WARNING: DATA RACE")[1:] {
			blocks++
			var fns []string
			for _, st := range strings.Split(blk, "\n\n") {
				for _, ln := range strings.Split(st, "\n") {
					ln = strings.TrimSpace(ln)
					if strings.HasPrefix(ln, "github.com/wneessen/go-mail") {
						ln = strings.TrimSuffix(ln, "()")
						fns = append(fns, ln)
						break
					}
				}
				if len(fns) == 2 {
					break
				}
			}
			sort.Strings(fns)
			r.Violate(Violation{
				Key:      "data-race:" + strings.Join(fns, "|"),
				What:     "Go race detector reported a data race",
				Case:     map[string]any{"race_log": f},
				Observed: Trunc(blk, 4000),
			})
		}
	}
	r.Count("race_report_blocks", int64(blocks))
	r.Count("race_detector_active", 1)
	return blocks
}

// RaceBuild reports whether this binary was built with -race by ./check.
func RaceBuild() bool { return os.Getenv("VERIF_RACE_BUILD") == "1" }

// RaceSlice: the thorough tier re-runs a slice of a network workload under -race;
// that run must not overwrite the evidence of the main run.
func RaceSlice() bool { return os.Getenv("VERIF_RACE_SLICE") == "1" }

// AddEvals adds n evaluated cases that were run (and counted) in child processes.
func (r *Run) AddEvals(n int64) { atomic.AddInt64(&r.evals, n) }
