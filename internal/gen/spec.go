//go:build verif

// Package gen holds the seeded generators shared by the checks: message specs (and
// the code that builds a real mail.Msg from a spec through the public builder
// API), content byte-string classes, names, header strings and addresses.
package gen

import (
	"bytes"
	"crypto/ecdsa"
	"crypto/ed25519"
	"crypto/elliptic"
	"crypto/rand"
	"crypto/rsa"
	"crypto/tls"
	"crypto/x509"
	"crypto/x509/pkix"
	"encoding/asn1"
	"errors"
	"fmt"
	ht "html/template"
	"io"
	"io/fs"
	"math/big"
	mrand "math/rand"
	"os"
	"strings"
	"sync"
	"sync/atomic"
	"testing/fstest"
	tt "text/template"
	"time"

	mail "github.com/wneessen/go-mail"
)

// PartSpec describes a body part (Parts[0] is the body, the rest are alternatives).
type PartSpec struct {
	Type    string `json:"type"`              // text/plain | text/html
	Enc     string `json:"enc,omitempty"`     // "" = inherit the message encoding
	Charset string `json:"charset,omitempty"` // "" = inherit
	Content []byte `json:"content"`
	Desc    string `json:"desc,omitempty"`
	Via     string `json:"via,omitempty"`   // string (default) | writer | tpl
	Chunk   int    `json:"chunk,omitempty"` // writer: write in chunks of this many bytes (0 = one write)
}

// FileSpec describes an embed or attachment.
type FileSpec struct {
	Name    string `json:"name"`
	Enc     string `json:"enc,omitempty"`   // "" unset | base64 | 8bit | quoted-printable (documented no-op) | 7bit
	CType   string `json:"ctype,omitempty"` // "" = derived from the extension
	Desc    string `json:"desc,omitempty"`
	CID     string `json:"cid,omitempty"`
	Content []byte `json:"content"`
	Source  string `json:"source,omitempty"` // reader (default) | readseeker | osfile | osfile-rs | iofs | texttpl | htmltpl | writer
	Chunk   int    `json:"chunk,omitempty"`
	// OrigName: the file is attached under this name and renamed to Name afterwards - with the WithFileName option
	// (RenameVia "" / "option") or by assigning File.Name through GetAttachments / GetEmbeds (RenameVia "field")
	OrigName  string `json:"orig_name,omitempty"`
	RenameVia string `json:"rename_via,omitempty"`
}

type AddrSpec struct {
	Name string `json:"name,omitempty"`
	Addr string `json:"addr"`
}

// MsgSpec describes a whole message.
type MsgSpec struct {
	ID       string      `json:"id"` // value of X-Verif-Id
	Enc      string      `json:"enc"`
	Charset  string      `json:"charset,omitempty"`
	Boundary string      `json:"boundary,omitempty"`
	Subject  string      `json:"subject"`
	From     AddrSpec    `json:"from"`
	To       []AddrSpec  `json:"to"`
	Cc       []AddrSpec  `json:"cc,omitempty"`
	Bcc      []AddrSpec  `json:"bcc,omitempty"`
	ReplyTo  *AddrSpec   `json:"reply_to,omitempty"`
	Parts    []PartSpec  `json:"parts"`
	Embeds   []FileSpec  `json:"embeds,omitempty"`
	Attach   []FileSpec  `json:"attach,omitempty"`
	SMIME    string      `json:"smime,omitempty"`     // "" | rsa | ecdsa
	SignVia  string      `json:"sign_via,omitempty"`  // "" SignWithKeypair | tlscert: SignWithTLSCertificate with the process-wide certificate value
	SignLate bool        `json:"sign_late,omitempty"` // Build does not configure signing; the caller calls Sign later
	WithInt  bool        `json:"with_intermediate,omitempty"`
	Extra    [][2]string `json:"extra_headers,omitempty"` // generic headers set through SetGenHeader
	NoUA     bool        `json:"no_ua,omitempty"`
	// Preformatted: generic headers set through SetGenHeaderPreformatted (the caller folds them itself)
	Preformatted [][2]string `json:"preformatted_headers,omitempty"`
	// Middleware: message middlewares installed with WithMiddleware: footer (appends a footer to every text part, once),
	// header (sets a generic header), copy-body (returns a modified copy of the Msg), encoding (switches every part to base64), attach (adds an attachment, once)
	Middleware []string `json:"middleware,omitempty"`
	// PGP: "" | encrypt | signature - the message is declared PGP/MIME (WithPGPType); the parts are the caller's business
	PGP string `json:"pgp,omitempty"`
}

// specMiddleware is a mail.Middleware of one of the kinds above.
type specMiddleware struct{ kind string }

const mwFooter = "\r\n-- \r\nfooter added by a middleware\r\n"

func (w specMiddleware) Type() mail.MiddlewareType { return mail.MiddlewareType("verif-" + w.kind) }

func (w specMiddleware) Handle(m *mail.Msg) *mail.Msg {
	switch w.kind {
	case "footer":
		for _, p := range m.GetParts() {
			c, err := p.GetContent()
			if err != nil || strings.HasSuffix(string(c), mwFooter) {
				continue
			}
			p.SetContent(string(c) + mwFooter)
		}
	case "copy-body":
		// works on a copy and hands that back, the caller's Msg is left as it is
		cp := *m
		cp.SetBodyString(mail.TypeTextPlain, "body set by a middleware on a copy of the message\r\n")
		return &cp
	case "header":
		m.SetGenHeader("X-Verif-Middleware", "seen")
	case "encoding":
		for _, p := range m.GetParts() {
			p.SetEncoding(mail.EncodingB64)
		}
	case "attach":
		for _, f := range m.GetAttachments() {
			if f.Name == "from-middleware.txt" {
				return m
			}
		}
		_ = m.AttachReader("from-middleware.txt", strings.NewReader("attached by a middleware\r\n"))
	}
	return m
}

// Fault makes a content producer fail: after emitting After bytes (After<0: after
// everything was emitted) it returns an error.
type Fault struct {
	After int `json:"after"`
	// Gate, when set, arms the fault only while *Gate != 0 (lets a check fail one
	// render of a message and let the next one succeed).
	Gate *int32 `json:"-"`
	// ErrKind selects the error value the producer fails with: "" (ErrInjected), eof (io.EOF),
	// unexpected-eof, wrapped-eof (fmt.Errorf("...: %w", io.EOF)), closed-pipe, timeout-like.
	ErrKind string `json:"err_kind,omitempty"`
}

// Err returns the error value of the fault.
func (f *Fault) Err() error {
	switch f.ErrKind {
	case "eof":
		return io.EOF
	case "unexpected-eof":
		return io.ErrUnexpectedEOF
	case "wrapped-eof":
		return fmt.Errorf("reading attachment source: %w", io.EOF)
	case "closed-pipe":
		return io.ErrClosedPipe
	case "no-progress":
		return io.ErrNoProgress
	}
	return ErrInjected
}

var ErrInjected = errors.New("verif: injected producer failure")

// Env carries what Build needs besides the spec.
type Env struct {
	Dir    string           // scratch directory for os files (created lazily)
	Faults map[string]Fault // "part0", "embed1", "attach0" -> fault
	Yield  func()           // called by writer/faulted producers between chunks (may be nil)
	mu     sync.Mutex
}

func (e *Env) tmpFile(content []byte) (string, error) {
	e.mu.Lock()
	if e.Dir == "" {
		d, err := os.MkdirTemp("", "verif-gen-")
		if err != nil {
			e.mu.Unlock()
			return "", err
		}
		e.Dir = d
	}
	dir := e.Dir
	e.mu.Unlock()
	f, err := os.CreateTemp(dir, "f*.bin")
	if err != nil {
		return "", err
	}
	_, err = f.Write(content)
	if cerr := f.Close(); err == nil {
		err = cerr
	}
	return f.Name(), err
}

// Cleanup removes the scratch directory.
func (e *Env) Cleanup() {
	if e != nil && e.Dir != "" {
		_ = os.RemoveAll(e.Dir)
	}
}

func enc(s string) mail.Encoding { return mail.Encoding(s) }

// chunkWriter returns a producer that writes content in chunks and honours a fault.
func chunkWriter(content []byte, chunk int, cfgFault *Fault, yield func()) func(io.Writer) (int64, error) {
	return func(w io.Writer) (int64, error) {
		var total int64
		limit := len(content)
		fault := cfgFault // per call: a fault that is not armed now may be armed for the next render
		if fault != nil && fault.Gate != nil && atomic.LoadInt32(fault.Gate) == 0 {
			fault = nil
		}
		if fault != nil && fault.After >= 0 && fault.After < limit {
			limit = fault.After
		}
		data := content[:limit]
		step := chunk
		if step <= 0 {
			step = len(data)
			if step == 0 {
				step = 1
			}
		}
		for off := 0; off < len(data); off += step {
			end := off + step
			if end > len(data) {
				end = len(data)
			}
			n, err := w.Write(data[off:end])
			total += int64(n)
			if err != nil {
				return total, err
			}
			if yield != nil {
				yield()
			}
		}
		if fault != nil {
			return total, fault.Err()
		}
		return total, nil
	}
}

func wrapFault(orig func(io.Writer) (int64, error), content []byte, fault *Fault, yield func()) func(io.Writer) (int64, error) {
	if fault == nil {
		return orig
	}
	faulty := chunkWriter(content, 0, fault, yield)
	return func(w io.Writer) (int64, error) {
		if fault.Gate != nil && atomic.LoadInt32(fault.Gate) == 0 {
			return orig(w) // the library's own producer when the fault is not armed
		}
		return faulty(w)
	}
}

// faultyFS refuses Open while its fault is armed (after the first, attach-time Open).
type faultyFS struct {
	inner fs.FS
	f     *Fault
	opens int32
}

func (q *faultyFS) Open(name string) (fs.File, error) {
	n := atomic.AddInt32(&q.opens, 1)
	if n > 1 && (q.f.Gate == nil || atomic.LoadInt32(q.f.Gate) != 0) {
		return nil, &fs.PathError{Op: "open", Path: name, Err: fs.ErrNotExist}
	}
	return q.inner.Open(name)
}

// faultySeeker is a caller-supplied io.ReadSeeker that misbehaves while its fault is armed.
type faultySeeker struct {
	r    *bytes.Reader
	f    *Fault
	read int
}

func (q *faultySeeker) armed() bool { return q.f.Gate == nil || atomic.LoadInt32(q.f.Gate) != 0 }

func (q *faultySeeker) Read(p []byte) (int, error) {
	if q.armed() && q.f.ErrKind == "source-read" && q.f.After >= 0 {
		if q.read >= q.f.After {
			return 0, ErrInjected
		}
		if len(p) > q.f.After-q.read {
			p = p[:q.f.After-q.read]
		}
	}
	n, err := q.r.Read(p)
	q.read += n
	return n, err
}

func (q *faultySeeker) Seek(off int64, whence int) (int64, error) {
	if q.armed() && q.f.ErrKind == "source-seek" {
		return 0, fmt.Errorf("verif: this stream cannot be rewound: %w", ErrInjected)
	}
	q.read = 0
	return q.r.Seek(off, whence)
}

var tplText = tt.Must(tt.New("t").Parse("{{.}}"))

// Build assembles a real mail.Msg through the public builder API.
func (s *MsgSpec) Build(env *Env) (*mail.Msg, error) {
	if env == nil {
		env = &Env{}
	}
	opts := []mail.MsgOption{}
	if s.Enc != "" {
		opts = append(opts, mail.WithEncoding(enc(s.Enc)))
	}
	if s.Charset != "" {
		opts = append(opts, mail.WithCharset(mail.Charset(s.Charset)))
	}
	if s.Boundary != "" {
		opts = append(opts, mail.WithBoundary(s.Boundary))
	}
	if s.NoUA {
		opts = append(opts, mail.WithNoDefaultUserAgent())
	}
	switch s.PGP {
	case "encrypt":
		opts = append(opts, mail.WithPGPType(mail.PGPEncrypt))
	case "signature":
		opts = append(opts, mail.WithPGPType(mail.PGPSignature))
	}
	for _, k := range s.Middleware {
		opts = append(opts, mail.WithMiddleware(specMiddleware{k}))
	}
	m := mail.NewMsg(opts...)
	if s.ID != "" {
		m.SetGenHeader("X-Verif-Id", s.ID)
	}
	if s.Subject != "" {
		m.Subject(s.Subject)
	}
	for _, h := range s.Extra {
		m.SetGenHeader(mail.Header(h[0]), h[1])
	}
	for _, h := range s.Preformatted {
		m.SetGenHeaderPreformatted(mail.Header(h[0]), h[1])
	}
	if s.From.Addr != "" {
		var err error
		if s.From.Name != "" {
			err = m.FromFormat(s.From.Name, s.From.Addr)
		} else {
			err = m.From(s.From.Addr)
		}
		if err != nil {
			return nil, fmt.Errorf("from: %w", err)
		}
	}
	add := func(list []AddrSpec, plain func(string) error, format func(string, string) error) error {
		for _, a := range list {
			var err error
			if a.Name != "" {
				err = format(a.Name, a.Addr)
			} else {
				err = plain(a.Addr)
			}
			if err != nil {
				return err
			}
		}
		return nil
	}
	if err := add(s.To, m.AddTo, m.AddToFormat); err != nil {
		return nil, fmt.Errorf("to: %w", err)
	}
	if err := add(s.Cc, m.AddCc, m.AddCcFormat); err != nil {
		return nil, fmt.Errorf("cc: %w", err)
	}
	if s.ReplyTo != nil {
		var err error
		if s.ReplyTo.Name != "" {
			err = m.ReplyToFormat(s.ReplyTo.Name, s.ReplyTo.Addr)
		} else {
			err = m.ReplyTo(s.ReplyTo.Addr)
		}
		if err != nil {
			return nil, fmt.Errorf("reply-to: %w", err)
		}
	}
	if err := add(s.Bcc, m.AddBcc, m.AddBccFormat); err != nil {
		return nil, fmt.Errorf("bcc: %w", err)
	}

	for i, p := range s.Parts {
		var po []mail.PartOption
		if p.Enc != "" {
			po = append(po, mail.WithPartEncoding(enc(p.Enc)))
		}
		if p.Charset != "" {
			po = append(po, mail.WithPartCharset(mail.Charset(p.Charset)))
		}
		if p.Desc != "" {
			po = append(po, mail.WithPartContentDescription(p.Desc))
		}
		var fault *Fault
		if f, ok := env.Faults[fmt.Sprintf("part%d", i)]; ok {
			fault = &f
		}
		ct := mail.ContentType(p.Type)
		via := p.Via
		if fault != nil || p.Chunk > 0 {
			via = "writer"
		}
		switch via {
		case "writer":
			wf := chunkWriter(p.Content, p.Chunk, fault, env.Yield)
			if i == 0 {
				m.SetBodyWriter(ct, wf, po...)
			} else {
				m.AddAlternativeWriter(ct, wf, po...)
			}
		case "tpl":
			var err error
			if p.Type == "text/html" {
				// html/template escapes; hand the content over as trusted HTML
				tpl := ht.Must(ht.New("h").Parse("{{.}}"))
				if i == 0 {
					err = m.SetBodyHTMLTemplate(tpl, ht.HTML(p.Content), po...)
				} else {
					err = m.AddAlternativeHTMLTemplate(tpl, ht.HTML(p.Content), po...)
				}
			} else if p.Type == "text/plain" {
				if i == 0 {
					err = m.SetBodyTextTemplate(tplText, string(p.Content), po...)
				} else {
					err = m.AddAlternativeTextTemplate(tplText, string(p.Content), po...)
				}
			} else {
				err = fmt.Errorf("tpl with type %s", p.Type)
			}
			if err != nil {
				return nil, err
			}
		default:
			if i == 0 {
				m.SetBodyString(ct, string(p.Content), po...)
			} else {
				m.AddAlternativeString(ct, string(p.Content), po...)
			}
		}
	}

	scratch := &bytes.Buffer{}
	sharedRS := map[string]io.ReadSeeker{}
	addFile := func(kind string, i int, f FileSpec) error {
		var fo []mail.FileOption
		// the name the file is handed over with; OrigName: it is renamed afterwards (WithFileName, or the exported field)
		name := f.Name
		if f.OrigName != "" {
			name = f.OrigName
		}
		if f.Enc != "" && f.Enc != "qp-direct" {
			fo = append(fo, mail.WithFileEncoding(enc(f.Enc)))
		}
		if f.CType != "" {
			fo = append(fo, mail.WithFileContentType(mail.ContentType(f.CType)))
		}
		if f.Desc != "" {
			fo = append(fo, mail.WithFileDescription(f.Desc))
		}
		if f.CID != "" {
			fo = append(fo, mail.WithFileContentID(f.CID))
		}
		if f.OrigName != "" && f.RenameVia != "field" {
			fo = append(fo, mail.WithFileName(f.Name))
		}
		isAtt := kind == "attach"
		var err error
		src := f.Source
		switch src {
		case "", "reader":
			if isAtt {
				err = m.AttachReader(name, bytes.NewReader(f.Content), fo...)
			} else {
				err = m.EmbedReader(name, bytes.NewReader(f.Content), fo...)
			}
		case "reader-consumed", "sreader-consumed":
			// a reader the caller has read the first bytes of already (sniffing a magic number): the file is what is left
			prefix := []byte("%PDF-1.7 bytes the caller has consumed\n")
			var rd io.Reader
			if src == "reader-consumed" {
				br := bytes.NewReader(append(append([]byte{}, prefix...), f.Content...))
				_, _ = io.CopyN(io.Discard, br, int64(len(prefix)))
				rd = br
			} else {
				sr := strings.NewReader(string(prefix) + string(f.Content))
				_, _ = io.CopyN(io.Discard, sr, int64(len(prefix)))
				rd = sr
			}
			if isAtt {
				err = m.AttachReader(name, rd, fo...)
			} else {
				err = m.EmbedReader(name, rd, fo...)
			}
		case "readseeker-shared":
			// ONE io.ReadSeeker of the caller's behind every file of the message that has this source and the same
			// content (the same image embedded inline and attached as download)
			rs, ok := sharedRS[string(f.Content)]
			if !ok {
				rs = bytes.NewReader(f.Content)
				sharedRS[string(f.Content)] = rs
			}
			if isAtt {
				m.AttachReadSeeker(name, rs, fo...)
			} else {
				m.EmbedReadSeeker(name, rs, fo...)
			}
		case "readseeker":
			var rs io.ReadSeeker = bytes.NewReader(f.Content)
			if ft, ok := env.Faults[fmt.Sprintf("%s%d", kind, i)]; ok && strings.HasPrefix(ft.ErrKind, "source-") {
				// the fault sits in the caller's ReadSeeker itself (the library's own producer reads it): it delivers its
				// data and cannot be rewound (source-seek), or fails in Read after After bytes (source-read)
				ftc := ft
				rs = &faultySeeker{r: bytes.NewReader(f.Content), f: &ftc}
			}
			if isAtt {
				m.AttachReadSeeker(name, rs, fo...)
			} else {
				m.EmbedReadSeeker(name, rs, fo...)
			}
		case "osfile":
			p, e := env.tmpFile(f.Content)
			if e != nil {
				return e
			}
			fo = append(fo, mail.WithFileName(f.Name))
			if isAtt {
				m.AttachFile(p, fo...)
			} else {
				m.EmbedFile(p, fo...)
			}
		case "osfile-rs":
			p, e := env.tmpFile(f.Content)
			if e != nil {
				return e
			}
			fh, e := os.Open(p)
			if e != nil {
				return e
			}
			// the handle stays open for the life of the process slice; closed by Cleanup's RemoveAll + GC
			if isAtt {
				m.AttachReadSeeker(name, fh, fo...)
			} else {
				m.EmbedReadSeeker(name, fh, fo...)
			}
		case "iofs":
			var fsys fs.FS = fstest.MapFS{"dir/file.dat": &fstest.MapFile{Data: f.Content}}
			if ft, ok := env.Faults[fmt.Sprintf("%s%d", kind, i)]; ok && ft.ErrKind == "source-open" {
				// the file system answers Open when the file is attached and refuses it while the fault is armed
				// (file removed, archive closed): the library's own producer has to report that
				ftc := ft
				fsys = &faultyFS{inner: fsys, f: &ftc}
			}
			fo = append(fo, mail.WithFileName(f.Name))
			if isAtt {
				err = m.AttachFromIOFS("dir/file.dat", fsys, fo...)
			} else {
				err = m.EmbedFromIOFS("dir/file.dat", fsys, fo...)
			}
		case "texttpl":
			if isAtt {
				err = m.AttachTextTemplate(name, tplText, string(f.Content), fo...)
			} else {
				err = m.EmbedTextTemplate(name, tplText, string(f.Content), fo...)
			}
		case "htmltpl":
			tpl := ht.Must(ht.New("h").Parse("{{.}}"))
			if isAtt {
				err = m.AttachHTMLTemplate(name, tpl, ht.HTML(f.Content), fo...)
			} else {
				err = m.EmbedHTMLTemplate(name, tpl, ht.HTML(f.Content), fo...)
			}
		case "bbuf":
			// one scratch bytes.Buffer re-used for every file of the message (and overwritten afterwards):
			// the library must capture the content at the time of the call
			scratch.Reset()
			scratch.Write(f.Content)
			if isAtt {
				err = m.AttachReader(name, scratch, fo...)
			} else {
				err = m.EmbedReader(name, scratch, fo...)
			}
			scratch.Reset()
			scratch.WriteString("scratch buffer re-used by the caller after the call -- ")
		case "writer":
			if isAtt {
				err = m.AttachReader(name, bytes.NewReader(nil), fo...)
			} else {
				err = m.EmbedReader(name, bytes.NewReader(nil), fo...)
			}
		default:
			return fmt.Errorf("unknown file source %q", src)
		}
		if err != nil {
			return err
		}
		var files []*mail.File
		if isAtt {
			files = m.GetAttachments()
		} else {
			files = m.GetEmbeds()
		}
		if len(files) != i+1 {
			return fmt.Errorf("%s %d: builder did not add the file (have %d)", kind, i, len(files))
		}
		var fault *Fault
		if ft, ok := env.Faults[fmt.Sprintf("%s%d", kind, i)]; ok && !((src == "readseeker" || src == "iofs") && strings.HasPrefix(ft.ErrKind, "source-")) {
			fault = &ft
		}
		if f.OrigName != "" && f.RenameVia == "field" {
			files[i].Name = f.Name
		}
		if f.Enc == "qp-direct" {
			// the exported field assigned by the caller (WithFileEncoding refuses quoted-printable, the field does not)
			files[i].Enc = mail.EncodingQP
		}
		if src == "writer" || f.Chunk > 0 {
			files[i].Writer = chunkWriter(f.Content, f.Chunk, fault, env.Yield)
		} else if fault != nil {
			files[i].Writer = wrapFault(files[i].Writer, f.Content, fault, env.Yield)
		}
		return nil
	}
	for i, f := range s.Embeds {
		if err := addFile("embed", i, f); err != nil {
			return nil, fmt.Errorf("embed %d: %w", i, err)
		}
	}
	for i, f := range s.Attach {
		if err := addFile("attach", i, f); err != nil {
			return nil, fmt.Errorf("attach %d: %w", i, err)
		}
	}
	scratch.Reset()
	scratch.WriteString(strings.Repeat("OVERWRITTEN-BY-CALLER ", 64))
	if s.SMIME != "" && !s.SignLate {
		if err := s.Sign(m); err != nil {
			return nil, err
		}
	}
	return m, nil
}

// Sign configures S/MIME signing on m as the spec says (Build does it unless SignLate is set).
func (s *MsgSpec) Sign(m *mail.Msg) error {
	k := Keys()
	if s.SignVia == "tlscert" {
		// SignWithTLSCertificate with one shared *tls.Certificate per (key type, chain) for the whole process
		c := k.TLSCert(s.SMIME, s.WithInt)
		if c == nil {
			return fmt.Errorf("no tls.Certificate for smime key type %q", s.SMIME)
		}
		return m.SignWithTLSCertificate(c)
	}
	var inter *x509.Certificate
	if s.WithInt {
		inter = k.InterCert
	}
	switch s.SMIME {
	case "rsa":
		if s.WithInt {
			return m.SignWithKeypair(k.RSAKeyI, k.RSACertI, inter)
		}
		return m.SignWithKeypair(k.RSAKey, k.RSACert, nil)
	case "ecdsa":
		if s.WithInt {
			return m.SignWithKeypair(k.ECKeyI, k.ECCertI, inter)
		}
		return m.SignWithKeypair(k.ECKey, k.ECCert, nil)
	case "rsa-ca384", "ecdsa-ca384":
		// leaves whose own certificate is signed with SHA-384 (issued by a P-384 CA); the CMS signature stays SHA-256
		var i384 *x509.Certificate
		if s.WithInt {
			i384 = k.Inter384Cert
		}
		if s.SMIME == "rsa-ca384" {
			return m.SignWithKeypair(k.RSAKey384, k.RSACert384, i384)
		}
		return m.SignWithKeypair(k.ECKey384, k.ECCert384, i384)
	case "ecdsa-p384", "ecdsa-p521":
		// ECDSA keys on the larger NIST curves (the digest the library signs with and announces stays SHA-256)
		key, certR, certI := k.ECKeyP384, k.ECCertP384, k.ECCertP384I
		if s.SMIME == "ecdsa-p521" {
			key, certR, certI = k.ECKeyP521, k.ECCertP521, k.ECCertP521I
		}
		if s.WithInt {
			return m.SignWithKeypair(key, certI, inter)
		}
		return m.SignWithKeypair(key, certR, nil)
	case "rsa-sameserial":
		// the intermediate is always given: it has the same serial number as the leaf it issued
		return m.SignWithKeypair(k.RSAKeySame, k.RSACertSame, k.InterSameCert)
	case "rsa-utf8issuer":
		// the intermediate is always given: the leaf names it as issuer in another string encoding than the
		// intermediate's own subject uses (same name, different octets)
		return m.SignWithKeypair(k.RSAKeyU, k.RSACertU, k.InterCert)
	case "ecdsa-rootgiven":
		// the caller hands over the root of the chain root <- intermediate <- leaf in place of the direct issuer
		return m.SignWithKeypair(k.ECKeyI, k.ECCertI, k.RootCert)
	case "ed25519-unsupported":
		// accepted by SignWithKeypair, but the signer supports RSA and ECDSA only: rendering fails before the first byte
		return m.SignWithKeypair(k.EdKey, k.EdCert, nil)
	}
	return fmt.Errorf("unknown smime key type %q", s.SMIME)
}

// TLSCert returns the process-wide *tls.Certificate (always the same pointer) for a signer.
func (k *KeySet) TLSCert(kind string, withInt bool) *tls.Certificate {
	k.tlsMu.Lock()
	defer k.tlsMu.Unlock()
	if k.tlsCerts == nil {
		k.tlsCerts = map[string]*tls.Certificate{}
	}
	id := fmt.Sprintf("%s/%t", kind, withInt)
	if c, ok := k.tlsCerts[id]; ok {
		return c
	}
	var c *tls.Certificate
	switch {
	case kind == "rsa" && withInt:
		c = &tls.Certificate{Certificate: [][]byte{k.RSACertI.Raw, k.InterCert.Raw}, PrivateKey: k.RSAKeyI, Leaf: k.RSACertI}
	case kind == "rsa":
		c = &tls.Certificate{Certificate: [][]byte{k.RSACert.Raw}, PrivateKey: k.RSAKey, Leaf: k.RSACert}
	case kind == "ecdsa" && withInt:
		c = &tls.Certificate{Certificate: [][]byte{k.ECCertI.Raw, k.InterCert.Raw}, PrivateKey: k.ECKeyI, Leaf: k.ECCertI}
	case kind == "ecdsa":
		c = &tls.Certificate{Certificate: [][]byte{k.ECCert.Raw}, PrivateKey: k.ECKey, Leaf: k.ECCert}
	case kind == "rsa-ca384" && withInt:
		c = &tls.Certificate{Certificate: [][]byte{k.RSACert384.Raw, k.Inter384Cert.Raw}, PrivateKey: k.RSAKey384, Leaf: k.RSACert384}
	case kind == "rsa-ca384":
		c = &tls.Certificate{Certificate: [][]byte{k.RSACert384.Raw}, PrivateKey: k.RSAKey384, Leaf: k.RSACert384}
	case kind == "ecdsa-ca384" && withInt:
		c = &tls.Certificate{Certificate: [][]byte{k.ECCert384.Raw, k.Inter384Cert.Raw}, PrivateKey: k.ECKey384, Leaf: k.ECCert384}
	case kind == "ecdsa-ca384":
		c = &tls.Certificate{Certificate: [][]byte{k.ECCert384.Raw}, PrivateKey: k.ECKey384, Leaf: k.ECCert384}
	case kind == "ecdsa-p384" && withInt:
		c = &tls.Certificate{Certificate: [][]byte{k.ECCertP384I.Raw, k.InterCert.Raw}, PrivateKey: k.ECKeyP384, Leaf: k.ECCertP384I}
	case kind == "ecdsa-p384":
		c = &tls.Certificate{Certificate: [][]byte{k.ECCertP384.Raw}, PrivateKey: k.ECKeyP384, Leaf: k.ECCertP384}
	case kind == "ecdsa-p521" && withInt:
		c = &tls.Certificate{Certificate: [][]byte{k.ECCertP521I.Raw, k.InterCert.Raw}, PrivateKey: k.ECKeyP521, Leaf: k.ECCertP521I}
	case kind == "ecdsa-p521":
		c = &tls.Certificate{Certificate: [][]byte{k.ECCertP521.Raw}, PrivateKey: k.ECKeyP521, Leaf: k.ECCertP521}
	case kind == "rsa-sameserial":
		c = &tls.Certificate{Certificate: [][]byte{k.RSACertSame.Raw, k.InterSameCert.Raw}, PrivateKey: k.RSAKeySame, Leaf: k.RSACertSame}
	case kind == "rsa-utf8issuer":
		c = &tls.Certificate{Certificate: [][]byte{k.RSACertU.Raw, k.InterCert.Raw}, PrivateKey: k.RSAKeyU, Leaf: k.RSACertU}
	case kind == "ecdsa-rootgiven":
		c = &tls.Certificate{Certificate: [][]byte{k.ECCertI.Raw, k.RootCert.Raw}, PrivateKey: k.ECKeyI, Leaf: k.ECCertI}
	}
	k.tlsCerts[id] = c
	return c
}

// Shape is a compact description of the message shape used for distinct counting.
func (s *MsgSpec) Shape() string {
	var sb strings.Builder
	fmt.Fprintf(&sb, "enc=%s;", s.Enc)
	for _, p := range s.Parts {
		fmt.Fprintf(&sb, "P(%s,%s,%s,d=%t);", p.Type, p.Enc, ContentClass(p.Content), p.Desc != "")
	}
	for _, f := range s.Embeds {
		fmt.Fprintf(&sb, "E(%s,%s,%s);", f.Enc, f.Source, ContentClass(f.Content))
	}
	for _, f := range s.Attach {
		fmt.Fprintf(&sb, "A(%s,%s,%s);", f.Enc, f.Source, ContentClass(f.Content))
	}
	if s.SMIME != "" {
		fmt.Fprintf(&sb, "S(%s,%t)", s.SMIME, s.WithInt)
	}
	if s.PGP != "" {
		fmt.Fprintf(&sb, "PGP(%s)", s.PGP)
	}
	return sb.String()
}

// KeySet holds the S/MIME signer material: a root CA, an intermediate CA, leaf
// certificates issued directly by the root and leaves issued by the intermediate.
type KeySet struct {
	RootCert, InterCert *x509.Certificate
	RootKey, InterKey   *ecdsa.PrivateKey
	RSAKey, RSAKeyI     *rsa.PrivateKey
	RSACert, RSACertI   *x509.Certificate
	ECKey, ECKeyI       *ecdsa.PrivateKey
	ECCert, ECCertI     *x509.Certificate
	EdKey               ed25519.PrivateKey
	EdCert              *x509.Certificate
	// a second intermediate CA with a P-384 key: the leaves it issues are signed ecdsa-with-SHA384
	Inter384Cert *x509.Certificate
	Inter384Key  *ecdsa.PrivateKey
	RSAKey384    *rsa.PrivateKey
	RSACert384   *x509.Certificate
	ECKey384     *ecdsa.PrivateKey
	// leaf keys on P-384 / P-521, each with a certificate issued by the root and one issued by the intermediate
	ECKeyP384, ECKeyP521                               *ecdsa.PrivateKey
	ECCertP384, ECCertP384I, ECCertP521, ECCertP521I *x509.Certificate
	ECCert384    *x509.Certificate
	// a CA and a leaf that carry the same serial number (serial numbers are unique per issuer only)
	InterSameCert *x509.Certificate
	InterSameKey  *ecdsa.PrivateKey
	RSAKeySame    *rsa.PrivateKey
	RSACertSame   *x509.Certificate
	// a leaf issued by the intermediate whose issuer field spells the intermediate's name with UTF8String values
	// (the intermediate's own subject uses PrintableString): the same name under RFC 5280, other octets
	RSAKeyU  *rsa.PrivateKey
	RSACertU *x509.Certificate

	tlsMu    sync.Mutex
	tlsCerts map[string]*tls.Certificate
}

var (
	keysOnce sync.Once
	keys     *KeySet
)

// Keys generates the key material once per process.
func Keys() *KeySet {
	keysOnce.Do(func() {
		k := &KeySet{}
		mk := func(cn string, isCA bool, pub, parentKey any, parent *x509.Certificate, serial int64) *x509.Certificate {
			tpl := &x509.Certificate{
				SerialNumber: big.NewInt(serial), Subject: pkix.Name{CommonName: cn, Organization: []string{"verif"}},
				NotBefore: time.Now().Add(-time.Hour), NotAfter: time.Now().Add(24 * 365 * time.Hour),
				KeyUsage: x509.KeyUsageDigitalSignature, BasicConstraintsValid: true, IsCA: isCA,
				ExtKeyUsage:    []x509.ExtKeyUsage{x509.ExtKeyUsageEmailProtection},
				EmailAddresses: []string{"signer@example.com"},
			}
			if isCA {
				tpl.KeyUsage |= x509.KeyUsageCertSign
			}
			if parent == nil {
				parent = tpl
			}
			der, err := x509.CreateCertificate(rand.Reader, tpl, parent, pub, parentKey)
			if err != nil {
				panic(err)
			}
			c, err := x509.ParseCertificate(der)
			if err != nil {
				panic(err)
			}
			return c
		}
		k.RootKey, _ = ecdsa.GenerateKey(elliptic.P256(), rand.Reader)
		k.RootCert = mk("verif root", true, &k.RootKey.PublicKey, k.RootKey, nil, 1)
		k.InterKey, _ = ecdsa.GenerateKey(elliptic.P256(), rand.Reader)
		k.InterCert = mk("verif intermediate", true, &k.InterKey.PublicKey, k.RootKey, k.RootCert, 2)
		k.RSAKey, _ = rsa.GenerateKey(rand.Reader, 2048)
		k.RSACert = mk("rsa leaf", false, &k.RSAKey.PublicKey, k.RootKey, k.RootCert, 3)
		k.RSAKeyI, _ = rsa.GenerateKey(rand.Reader, 2048)
		k.RSACertI = mk("rsa leaf via intermediate", false, &k.RSAKeyI.PublicKey, k.InterKey, k.InterCert, 4)
		k.ECKey, _ = ecdsa.GenerateKey(elliptic.P256(), rand.Reader)
		k.ECCert = mk("ec leaf", false, &k.ECKey.PublicKey, k.RootKey, k.RootCert, 5)
		k.ECKeyI, _ = ecdsa.GenerateKey(elliptic.P256(), rand.Reader)
		k.ECCertI = mk("ec leaf via intermediate", false, &k.ECKeyI.PublicKey, k.InterKey, k.InterCert, 6)
		var edPub ed25519.PublicKey
		edPub, k.EdKey, _ = ed25519.GenerateKey(rand.Reader)
		k.EdCert = mk("ed25519 leaf", false, edPub, k.RootKey, k.RootCert, 7)
		k.Inter384Key, _ = ecdsa.GenerateKey(elliptic.P384(), rand.Reader)
		k.Inter384Cert = mk("verif intermediate p384", true, &k.Inter384Key.PublicKey, k.RootKey, k.RootCert, 8)
		k.RSAKey384, _ = rsa.GenerateKey(rand.Reader, 2048)
		k.RSACert384 = mk("rsa leaf via p384 intermediate", false, &k.RSAKey384.PublicKey, k.Inter384Key, k.Inter384Cert, 9)
		k.ECKey384, _ = ecdsa.GenerateKey(elliptic.P256(), rand.Reader)
		k.ECCert384 = mk("ec leaf via p384 intermediate", false, &k.ECKey384.PublicKey, k.Inter384Key, k.Inter384Cert, 10)
		k.ECKeyP384, _ = ecdsa.GenerateKey(elliptic.P384(), rand.Reader)
		k.ECCertP384 = mk("ec p384 leaf", false, &k.ECKeyP384.PublicKey, k.RootKey, k.RootCert, 21)
		k.ECCertP384I = mk("ec p384 leaf via intermediate", false, &k.ECKeyP384.PublicKey, k.InterKey, k.InterCert, 22)
		k.ECKeyP521, _ = ecdsa.GenerateKey(elliptic.P521(), rand.Reader)
		k.ECCertP521 = mk("ec p521 leaf", false, &k.ECKeyP521.PublicKey, k.RootKey, k.RootCert, 23)
		k.ECCertP521I = mk("ec p521 leaf via intermediate", false, &k.ECKeyP521.PublicKey, k.InterKey, k.InterCert, 24)
		k.InterSameKey, _ = ecdsa.GenerateKey(elliptic.P256(), rand.Reader)
		k.InterSameCert = mk("verif intermediate, serial 1", true, &k.InterSameKey.PublicKey, k.RootKey, k.RootCert, 50)
		k.RSAKeySame, _ = rsa.GenerateKey(rand.Reader, 2048)
		k.RSACertSame = mk("rsa leaf, serial 1 of its issuer", false, &k.RSAKeySame.PublicKey, k.InterSameKey, k.InterSameCert, 50)
		k.RSAKeyU, _ = rsa.GenerateKey(rand.Reader, 2048)
		type atv struct {
			Type  asn1.ObjectIdentifier
			Value asn1.RawValue
		}
		var rdns []asn1.RawValue
		for _, rdn := range k.InterCert.Subject.ToRDNSequence() {
			var set []byte
			for _, a := range rdn {
				b, err := asn1.Marshal(atv{Type: a.Type, Value: asn1.RawValue{Class: asn1.ClassUniversal, Tag: asn1.TagUTF8String, Bytes: []byte(fmt.Sprint(a.Value))}})
				if err != nil {
					panic(err)
				}
				set = append(set, b...)
			}
			rdns = append(rdns, asn1.RawValue{Class: asn1.ClassUniversal, Tag: asn1.TagSet, IsCompound: true, Bytes: set})
		}
		rawName, err := asn1.Marshal(rdns)
		if err != nil {
			panic(err)
		}
		parentU := *k.InterCert
		parentU.RawSubject = rawName
		k.RSACertU = mk("rsa leaf, issuer name in another encoding", false, &k.RSAKeyU.PublicKey, k.InterKey, &parentU, 11)
		if bytes.Equal(k.RSACertU.RawIssuer, k.InterCert.RawSubject) || k.RSACertU.CheckSignatureFrom(k.InterCert) != nil {
			panic("gen: the re-encoded issuer name did not come out as intended")
		}
		keys = k
	})
	return keys
}

// Pick returns a random element.
func Pick[T any](r *mrand.Rand, xs []T) T { return xs[r.Intn(len(xs))] }
