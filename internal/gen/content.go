//go:build verif

package gen

import (
	"bytes"
	"fmt"
	mrand "math/rand"
	"strings"
	"unicode/utf8"
)

// Content classes. Text classes never contain a lone CR (the property quantifies over
// text with CRLF/LF line breaks); binary classes contain anything.
var TextClasses = []string{
	"empty", "ascii", "crlf-lines", "lf-lines", "mixed-lines", "trailing-ws", "leading-dots",
	"equals", "boundary-like", "long-75", "long-76", "long-77", "long-998", "long-5000",
	"utf8", "no-final-newline", "only-newlines", "wrap-edge", "from-line", "tabs",
}
var BinaryClasses = []string{"binary", "binary-nul", "binary-crlf-heavy", "b64-edge", "high-bytes"}

const words = "lorem ipsum dolor sit amet consectetur adipiscing elit sed do eiusmod tempor incididunt ut labore et dolore magna aliqua"

func word(r *mrand.Rand) string {
	ws := strings.Fields(words)
	return ws[r.Intn(len(ws))]
}

func sentence(r *mrand.Rand, n int) string {
	var sb strings.Builder
	for sb.Len() < n {
		if sb.Len() > 0 {
			sb.WriteByte(' ')
		}
		sb.WriteString(word(r))
	}
	return sb.String()[:n]
}

func asciiRun(r *mrand.Rand, n int) string {
	b := make([]byte, n)
	for i := range b {
		b[i] = byte(33 + r.Intn(94))
	}
	return string(b)
}

// Content generates one byte string of the named class.
func Content(r *mrand.Rand, class string) []byte {
	nl := func() string {
		return "\r\n"
	}
	lines := func(n int, eol func() string, gen func(i int) string, final bool) []byte {
		var sb strings.Builder
		for i := 0; i < n; i++ {
			sb.WriteString(gen(i))
			if i < n-1 || final {
				sb.WriteString(eol())
			}
		}
		return []byte(sb.String())
	}
	nlines := 1 + r.Intn(6)
	switch class {
	case "empty":
		return []byte{}
	case "ascii":
		return []byte(sentence(r, 1+r.Intn(60)))
	case "crlf-lines":
		return lines(nlines, nl, func(int) string { return sentence(r, r.Intn(70)) }, r.Intn(2) == 0)
	case "lf-lines":
		return lines(nlines, func() string { return "\n" }, func(int) string { return sentence(r, r.Intn(70)) }, r.Intn(2) == 0)
	case "mixed-lines":
		return lines(nlines+1, func() string {
			if r.Intn(2) == 0 {
				return "\n"
			}
			return "\r\n"
		}, func(int) string { return sentence(r, r.Intn(70)) }, r.Intn(2) == 0)
	case "trailing-ws":
		return lines(nlines, func() string { return Pick(r, []string{"\r\n", "\n"}) }, func(int) string {
			return sentence(r, r.Intn(40)) + Pick(r, []string{" ", "\t", "  ", " \t ", "", "   "})
		}, r.Intn(2) == 0)
	case "tabs":
		return lines(nlines, nl, func(int) string { return "\t" + sentence(r, r.Intn(30)) + "\t\t" + word(r) }, r.Intn(2) == 0)
	case "leading-dots":
		return lines(nlines+1, func() string { return Pick(r, []string{"\r\n", "\n"}) }, func(int) string {
			return Pick(r, []string{".", "..", ". ", ".hidden", "...", ""}) + sentence(r, r.Intn(20))
		}, r.Intn(2) == 0)
	case "equals":
		return lines(nlines, nl, func(int) string {
			return Pick(r, []string{"=", "=3D", "=\r\n", "=XY", "a=b", "=20", "==", "= ", "x=", "=0D=0A", "=?utf-8?q?x?="}) + sentence(r, r.Intn(20)) + Pick(r, []string{"", "=", " ="})
		}, r.Intn(2) == 0)
	case "boundary-like":
		return lines(nlines+1, nl, func(int) string {
			return Pick(r, []string{"--", "--boundary", "--=_", "----", "--abc--", "-- ", "--0123456789abcdef0123456789abcdef0123456789abcdef0123456789abcdef"}) + Pick(r, []string{"", "--", " x"})
		}, r.Intn(2) == 0)
	case "long-75", "long-76", "long-77", "long-998", "long-5000":
		var n int
		fmt.Sscanf(class, "long-%d", &n)
		n += r.Intn(3) - 1
		mk := func() string {
			if r.Intn(2) == 0 {
				return asciiRun(r, n)
			}
			return sentence(r, n)
		}
		return lines(1+r.Intn(2), nl, func(int) string { return mk() }, r.Intn(2) == 0)
	case "utf8":
		pool := []string{"Grüße", "naïve", "日本語のテキスト", "Ελληνικά", "emoji 😀🎉", "Привет мир", "ÄÖÜäöüß", "€uro", " nbsp", "á"}
		return lines(nlines, func() string { return Pick(r, []string{"\r\n", "\n"}) }, func(int) string {
			return Pick(r, pool) + " " + sentence(r, r.Intn(30)) + " " + Pick(r, pool)
		}, r.Intn(2) == 0)
	case "no-final-newline":
		return []byte(sentence(r, 1+r.Intn(100)))
	case "only-newlines":
		return []byte(strings.Repeat(Pick(r, []string{"\r\n", "\n"}), 1+r.Intn(4)))
	case "wrap-edge":
		// lengths around the QP soft-break column with characters that need escaping near the edge
		n := 70 + r.Intn(10)
		s := asciiRun(r, n)
		tail := Pick(r, []string{"=", "ü", " ", "\t", "é=", "==", ". ", " ."})
		return []byte(s + tail + sentence(r, r.Intn(10)) + Pick(r, []string{"", "\r\n", "\n"}))
	case "from-line":
		return []byte("From me\r\n>From you\r\nFrom \r\n")
	case "binary":
		b := make([]byte, r.Intn(400))
		r.Read(b)
		return b
	case "binary-nul":
		b := make([]byte, 1+r.Intn(200))
		r.Read(b)
		for i := 0; i < len(b); i += 1 + r.Intn(7) {
			b[i] = 0
		}
		return b
	case "binary-crlf-heavy":
		var bb bytes.Buffer
		for i := 0; i < 5+r.Intn(40); i++ {
			bb.WriteString(Pick(r, []string{"\r", "\n", "\r\n", "\n\r", ".", "=", "-", "\x00", "\xff", "a"}))
		}
		return bb.Bytes()
	case "b64-edge":
		// lengths around the 57-byte / 76-column wrapping points
		base := Pick(r, []int{56, 57, 58, 113, 114, 115, 170, 171, 172, 1, 2, 3, 4, 75, 76, 77, 4103, 4104})
		b := make([]byte, base)
		r.Read(b)
		return b
	case "high-bytes":
		b := make([]byte, 1+r.Intn(120))
		for i := range b {
			b[i] = byte(128 + r.Intn(128))
		}
		return b
	}
	panic("unknown content class " + class)
}

// ContentClass classifies a byte string coarsely (for distinct counting).
func ContentClass(b []byte) string {
	if len(b) == 0 {
		return "empty"
	}
	var f []string
	if !utf8.Valid(b) {
		f = append(f, "bin")
	}
	nonASCII, ctl := false, false
	for _, c := range b {
		if c >= 128 {
			nonASCII = true
		}
		if c < 32 && c != '\r' && c != '\n' && c != '\t' {
			ctl = true
		}
	}
	if nonASCII {
		f = append(f, "8bit")
	}
	if ctl {
		f = append(f, "ctl")
	}
	if bytes.Contains(b, []byte("\r\n")) {
		f = append(f, "crlf")
	}
	if hasBareLF(b) {
		f = append(f, "lf")
	}
	if bytes.Contains(b, []byte(" \r")) || bytes.Contains(b, []byte(" \n")) || bytes.Contains(b, []byte("\t\n")) || bytes.Contains(b, []byte("\t\r")) || b[len(b)-1] == ' ' || b[len(b)-1] == '\t' {
		f = append(f, "tws")
	}
	if bytes.Contains(b, []byte("=")) {
		f = append(f, "eq")
	}
	if bytes.HasPrefix(b, []byte(".")) || bytes.Contains(b, []byte("\n.")) {
		f = append(f, "dot")
	}
	if bytes.HasPrefix(b, []byte("--")) || bytes.Contains(b, []byte("\n--")) {
		f = append(f, "dashdash")
	}
	maxl := 0
	for _, l := range bytes.Split(b, []byte("\n")) {
		if len(l) > maxl {
			maxl = len(l)
		}
	}
	switch {
	case maxl > 998:
		f = append(f, "l>998")
	case maxl > 76:
		f = append(f, "l>76")
	case maxl >= 74:
		f = append(f, "l~76")
	}
	if b[len(b)-1] != '\n' {
		f = append(f, "nofinalnl")
	}
	if len(f) == 0 {
		return "plain"
	}
	return strings.Join(f, "+")
}

func hasBareLF(b []byte) bool {
	for i, c := range b {
		if c == '\n' && (i == 0 || b[i-1] != '\r') {
			return true
		}
	}
	return false
}

// CanonLF turns every LF that is not preceded by CR into CRLF (the line-break
// canonicalisation quoted-printable text is compared modulo).
func CanonLF(b []byte) []byte {
	var out bytes.Buffer
	for i, c := range b {
		if c == '\n' && (i == 0 || b[i-1] != '\r') {
			out.WriteString("\r\n")
			continue
		}
		out.WriteByte(c)
	}
	return out.Bytes()
}

// IsCanonCRLF reports whether b has no bare LF and no bare CR.
func IsCanonCRLF(b []byte) bool {
	for i, c := range b {
		if c == '\n' && (i == 0 || b[i-1] != '\r') {
			return false
		}
		if c == '\r' && (i+1 >= len(b) || b[i+1] != '\n') {
			return false
		}
	}
	return true
}

// FileNames: pool of file names (before the documented sanitisation).
var FileNames = []string{
	"file.txt", "image.png", "report.pdf", "noext", "archive.tar.gz", "with space.txt", "  lead.txt",
	"ümlaut.txt", "日本語.pdf", "emoji😀.png", "semi;colon.txt", "equals=sign.txt", "a;b=c;d.bin",
	"quote\"d.txt", "back\\slash.txt", "path/to/file.txt", "col:on.txt", "que?ry.txt", "pi|pe.txt", "<angle>.txt",
	"tab\there.txt", "new\nline.txt", "cr\rlf.txt", "del\x7f.txt", "nul\x01ctl.txt",
	"a-very-long-file-name-that-goes-on-and-on-and-on-for-more-than-seventy-characters-in-total.txt",
	"длинное-имя-файла-которое-превышает-семьдесят-пять-символов-в-кодировке.txt",
	"percent%20.txt", "comma,name.txt", "paren(1).txt", "dot.", ".hidden", "UPPER.TXT", "x.html", "y.jpeg", "z.csv",
	// names whose bytes are not valid UTF-8 (a name in the caller's own charset, a truncated sequence): the library
	// does not transcode, the octets are the name
	"Gr\xfc\xdfe.png", "caf\xe9 men\xfc.txt", "\xff\xfe.bin", "trunc\xe6\x97.pdf",
}

// SanitizeName is the documented replacement of control and path characters by '_'.
func SanitizeName(s string) string {
	var sb strings.Builder
	for i := 0; i < len(s); i++ {
		c := s[i]
		if c < 32 || c == '"' || c == '/' || c == ':' || c == '<' || c == '>' || c == '?' || c == '\\' || c == '|' || c == 127 {
			sb.WriteByte('_')
			continue
		}
		sb.WriteByte(c)
	}
	return sb.String()
}
