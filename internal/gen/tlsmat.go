//go:build verif

package gen

import (
	"crypto/ecdsa"
	"crypto/elliptic"
	"crypto/rand"
	"crypto/tls"
	"crypto/x509"
	"crypto/x509/pkix"
	"encoding/pem"
	"fmt"
	"math/big"
	"net"
	"os"
	"sync"
	"time"
)

// TLSMat is the TLS material of the reference server: a harness CA the client
// trusts, a good server certificate (SANs for every host name the checks use), a
// certificate for a different name, and a certificate from an untrusted CA.
type TLSMat struct {
	Roots     *x509.CertPool
	Good      tls.Certificate
	WrongName tls.Certificate
	Untrusted tls.Certificate
	// OnlyLocalhost is issued by the trusted CA for the DNS name "localhost" and nothing else
	OnlyLocalhost tls.Certificate
	CA            *x509.Certificate // the trusted root
	Leaf          *x509.Certificate // parsed Good leaf
}

var (
	tlsOnce sync.Once
	tlsMat  *TLSMat
)

// Hosts the good certificate is valid for.
var TLSHosts = []string{"localhost", "mail.verif.example", "smtp.verif.example"}
var TLSIPs = []net.IP{net.ParseIP("127.0.0.1"), net.ParseIP("127.0.0.2"), net.ParseIP("::1")}

func TLS() *TLSMat {
	tlsOnce.Do(func() {
		mkCA := func(cn string) (*x509.Certificate, *ecdsa.PrivateKey) {
			k, _ := ecdsa.GenerateKey(elliptic.P256(), rand.Reader)
			tpl := &x509.Certificate{SerialNumber: big.NewInt(100), Subject: pkix.Name{CommonName: cn},
				NotBefore: time.Now().Add(-time.Hour), NotAfter: time.Now().Add(24 * 365 * time.Hour),
				KeyUsage: x509.KeyUsageCertSign | x509.KeyUsageDigitalSignature, BasicConstraintsValid: true, IsCA: true}
			der, err := x509.CreateCertificate(rand.Reader, tpl, tpl, &k.PublicKey, k)
			if err != nil {
				panic(err)
			}
			c, _ := x509.ParseCertificate(der)
			return c, k
		}
		leaf := func(ca *x509.Certificate, cak *ecdsa.PrivateKey, names []string, ips []net.IP, serial int64) tls.Certificate {
			k, _ := ecdsa.GenerateKey(elliptic.P256(), rand.Reader)
			tpl := &x509.Certificate{SerialNumber: big.NewInt(serial), Subject: pkix.Name{CommonName: names[0]},
				NotBefore: time.Now().Add(-time.Hour), NotAfter: time.Now().Add(24 * 365 * time.Hour),
				KeyUsage: x509.KeyUsageDigitalSignature, ExtKeyUsage: []x509.ExtKeyUsage{x509.ExtKeyUsageServerAuth},
				DNSNames: names, IPAddresses: ips}
			der, err := x509.CreateCertificate(rand.Reader, tpl, ca, &k.PublicKey, cak)
			if err != nil {
				panic(err)
			}
			return tls.Certificate{Certificate: [][]byte{der}, PrivateKey: k}
		}
		ca, cak := mkCA("verif tls root")
		bad, badk := mkCA("verif untrusted root")
		m := &TLSMat{Roots: x509.NewCertPool()}
		m.Roots.AddCert(ca)
		m.CA = ca
		m.Good = leaf(ca, cak, TLSHosts, TLSIPs, 101)
		m.Leaf, _ = x509.ParseCertificate(m.Good.Certificate[0])
		m.WrongName = leaf(ca, cak, []string{"other.invalid"}, nil, 102)
		m.Untrusted = leaf(bad, badk, TLSHosts, TLSIPs, 103)
		m.OnlyLocalhost = leaf(ca, cak, []string{"localhost"}, nil, 104)
		tlsMat = m
	})
	return tlsMat
}

var sysRootOnce sync.Once

// TrustHarnessCAAsSystemRoot makes the harness CA the process's system root store (SSL_CERT_FILE, read once by
// crypto/x509 when the system roots are first needed), for library entry points that give the caller no way to hand
// in a tls.Config (QuickSend). Must run before anything verifies a chain against the system roots.
func TrustHarnessCAAsSystemRoot() error {
	var err error
	sysRootOnce.Do(func() {
		m := TLS()
		f, e := os.CreateTemp("", "verif-ca-*.pem")
		if e != nil {
			err = e
			return
		}
		defer os.Remove(f.Name())
		_ = pem.Encode(f, &pem.Block{Type: "CERTIFICATE", Bytes: m.CA.Raw})
		_ = f.Close()
		d, e := os.MkdirTemp("", "verif-cadir-*")
		if e == nil {
			defer os.RemoveAll(d)
			_ = os.Setenv("SSL_CERT_DIR", d)
		}
		_ = os.Setenv("SSL_CERT_FILE", f.Name())
		pool, e := x509.SystemCertPool() // forces the one-time load
		if e != nil {
			err = e
			return
		}
		if _, e := m.Leaf.Verify(x509.VerifyOptions{Roots: pool, DNSName: "localhost"}); e != nil {
			err = fmt.Errorf("harness CA is not in the system pool: %w", e)
		}
	})
	return err
}

// ServerTLS returns a server config presenting cert, limited to the given versions (0 = default).
func ServerTLS(cert tls.Certificate, minV, maxV uint16) *tls.Config {
	return &tls.Config{Certificates: []tls.Certificate{cert}, MinVersion: minV, MaxVersion: maxV}
}

// ClientTLS returns a client config trusting the harness CA for serverName.
func ClientTLS(serverName string, minV, maxV uint16) *tls.Config {
	if minV == 0 {
		minV = tls.VersionTLS12
	}
	return &tls.Config{RootCAs: TLS().Roots, ServerName: serverName, MinVersion: minV, MaxVersion: maxV}
}
