//go:build verif

// Package rfc5321 is a strict, allocation-light parser for SMTP command lines
// (client -> server) following the ABNF of RFC 5321 section 4.1.2, extended by
// RFC 6531 (SMTPUTF8) and the parameter syntaxes of RFC 3461 (DSN), RFC 6152
// (8BITMIME), RFC 3030 (BINARYMIME) and RFC 1870 (SIZE).
//
// It is an oracle: it never repairs, trims or guesses. A line either matches
// the grammar exactly or is rejected with a *SyntaxError.
// It depends on the standard library only.
package rfc5321

import (
	"encoding/base64"
	"fmt"
	"strings"
	"unicode/utf8"
)

const (
	MaxLine     = 2048  // longest command line accepted by ParseLine (without CRLF)
	MaxAuthLine = 12286 // RFC 4954 section 4: 12288 octets including CRLF
)

// SyntaxError is returned for every rejected line. Pos is a byte offset.
type SyntaxError struct {
	Pos int
	Msg string
}

func (e *SyntaxError) Error() string { return fmt.Sprintf("rfc5321: %s (offset %d)", e.Msg, e.Pos) }

// Param is one esmtp-param: keyword ["=" value].
type Param struct {
	Key, Value string
	HasValue   bool
}

// Path is a parsed Reverse-path / Forward-path.
type Path struct {
	Null        bool   // "<>" (MAIL only)
	Postmaster  bool   // domain-less "<Postmaster>" (RCPT only); Local holds it as written
	Local       string // local part, quoting removed
	LocalQuoted bool   // local part was written as Quoted-string
	Domain      string // Domain or address-literal, verbatim (incl. "[" "]")
	SourceRoute string // A-d-l including the trailing ":" ("@a,@b:"), verbatim
}

// Mailbox returns local@domain (local unquoted); "" for the null path; the
// bare local part for the domain-less <Postmaster>.
func (p *Path) Mailbox() string {
	switch {
	case p == nil || p.Null:
		return ""
	case p.Postmaster:
		return p.Local
	}
	return p.Local + "@" + p.Domain
}

// Command is a parsed command line.
type Command struct {
	Verb        string
	Arg         string
	AuthInitial string
	Path        *Path
	Params      []Param
}

// ---- character classes -------------------------------------------------

func isAlpha(c byte) bool { return c|0x20 >= 'a' && c|0x20 <= 'z' }
func isDigit(c byte) bool { return c >= '0' && c <= '9' }
func isAlnum(c byte) bool { return isAlpha(c) || isDigit(c) }
func isLdh(c byte) bool   { return isAlnum(c) || c == '-' }
func isAtext(c byte) bool {
	return isAlnum(c) || (c < 0x80 && strings.IndexByte("!#$%&'*+-/=?^_`{|}~", c) >= 0)
}
func isDcontent(c byte) bool { return c >= 33 && c <= 126 && (c < 91 || c > 93) }
func isValueCh(c byte) bool  { return c >= 33 && c <= 126 && c != '=' }
func isMechCh(c byte) bool   { return isAlnum(c) || c == '-' || c == '_' }
func isB64Ch(c byte) bool    { return isAlnum(c) || c == '+' || c == '/' }
func isUpperHex(c byte) bool { return isDigit(c) || (c >= 'A' && c <= 'F') }
func hexVal(c byte) byte {
	if isDigit(c) {
		return c - '0'
	}
	return c - 'A' + 10
}

func foldEq(a []byte, s string) bool { // ASCII-only case-insensitive compare
	if len(a) != len(s) {
		return false
	}
	for i := range a {
		x, y := a[i], s[i]
		if x != y && !(isAlpha(x) && isAlpha(y) && x|0x20 == y|0x20) {
			return false
		}
	}
	return true
}

// checkBytes enforces the line-global octet rules.
func checkBytes(line []byte, allowUTF8 bool) error {
	for i, c := range line {
		if c < 0x20 || c == 0x7f {
			return &SyntaxError{i, fmt.Sprintf("control octet 0x%02x", c)}
		}
		if c >= 0x80 && !allowUTF8 {
			return &SyntaxError{i, fmt.Sprintf("non-ASCII octet 0x%02x without SMTPUTF8", c)}
		}
	}
	for i := 0; allowUTF8 && i < len(line); {
		r, n := utf8.DecodeRune(line[i:])
		if r == utf8.RuneError && n <= 1 {
			return &SyntaxError{i, "invalid UTF-8"}
		}
		i += n
	}
	return nil
}

// ---- scanner -----------------------------------------------------------

type parser struct {
	b  []byte
	i  int
	u8 bool // UTF8-non-ascii admitted in atext / qtextSMTP / sub-domain / esmtp-value
}

func (p *parser) errf(f string, a ...any) error { return &SyntaxError{p.i, fmt.Sprintf(f, a...)} }
func (p *parser) end() bool                     { return p.i >= len(p.b) }
func (p *parser) peek() int {
	if p.end() {
		return -1
	}
	return int(p.b[p.i])
}
func (p *parser) eat(c byte) bool {
	if p.peek() == int(c) {
		p.i++
		return true
	}
	return false
}
func (p *parser) eatFold(s string) bool {
	if len(p.b)-p.i >= len(s) && foldEq(p.b[p.i:p.i+len(s)], s) {
		p.i += len(s)
		return true
	}
	return false
}

// take consumes the longest run of octets in class (plus UTF8-non-ascii octets
// if u8ok and the parser admits UTF-8). checkBytes has already proven the line
// to be valid UTF-8, and every delimiter is ASCII, so a run of octets >= 0x80
// is always a whole number of code points.
func (p *parser) take(class func(byte) bool, u8ok bool) string {
	s := p.i
	for p.i < len(p.b) && (class(p.b[p.i]) || (u8ok && p.u8 && p.b[p.i] >= 0x80)) {
		p.i++
	}
	return string(p.b[s:p.i])
}
func (p *parser) expectEnd() error {
	if !p.end() {
		return p.errf("unexpected %q, expected end of line", p.b[p.i:])
	}
	return nil
}

// domain = sub-domain *("." sub-domain); sub-domain = Let-dig [Ldh-str] / U-label
func (p *parser) domain() (string, error) {
	start := p.i
	for {
		s := p.take(isLdh, true)
		if s == "" {
			return "", p.errf("expected sub-domain")
		}
		if s[0] == '-' || s[len(s)-1] == '-' {
			return "", p.errf("sub-domain %q begins or ends with hyphen", s)
		}
		if !p.eat('.') {
			return string(p.b[start:p.i]), nil
		}
	}
}

// addressLiteral = "[" 1*dcontent "]" (contents not validated)
func (p *parser) addressLiteral() (string, error) {
	start := p.i
	p.i++ // "["
	if p.take(isDcontent, false) == "" {
		return "", p.errf("empty address-literal")
	}
	if !p.eat(']') {
		return "", p.errf("unterminated address-literal")
	}
	return string(p.b[start:p.i]), nil
}

func (p *parser) domainOrLiteral() (string, error) {
	if p.peek() == '[' {
		return p.addressLiteral()
	}
	return p.domain()
}

// quoted = DQUOTE *( qtextSMTP / quoted-pairSMTP ) DQUOTE; returns the unquoted content.
func (p *parser) quoted() (string, error) {
	p.i++ // DQUOTE
	var out []byte
	for {
		c := p.peek()
		switch {
		case c < 0:
			return "", p.errf("unterminated Quoted-string")
		case c == '"':
			p.i++
			return string(out), nil
		case c == '\\':
			p.i++
			if c = p.peek(); c < 32 || c > 126 {
				return "", p.errf("bad quoted-pair")
			}
		case c >= 32 && c <= 126, c >= 0x80 && p.u8:
		default:
			return "", p.errf("octet 0x%02x not allowed in Quoted-string", c)
		}
		out = append(out, byte(c))
		p.i++
	}
}

// localPart = Dot-string / Quoted-string
func (p *parser) localPart() (local string, quoted bool, err error) {
	if p.peek() == '"' {
		local, err = p.quoted()
		return local, true, err
	}
	start := p.i
	for {
		if p.take(isAtext, true) == "" {
			return "", false, p.errf("expected Atom in Local-part")
		}
		if !p.eat('.') {
			return string(p.b[start:p.i]), false, nil
		}
	}
}

// mailbox = Local-part "@" ( Domain / address-literal ), written into pa.
func (p *parser) mailbox(pa *Path) (err error) {
	if pa.Local, pa.LocalQuoted, err = p.localPart(); err != nil {
		return err
	}
	if !p.eat('@') {
		return p.errf("expected \"@\" after Local-part")
	}
	pa.Domain, err = p.domainOrLiteral()
	return err
}

// path = "<" [ A-d-l ":" ] Mailbox ">"  /  "<>" (mail)  /  "<Postmaster>" (rcpt)
func (p *parser) path(mail bool) (*Path, error) {
	if !p.eat('<') {
		return nil, p.errf("expected \"<\"")
	}
	pa := &Path{}
	if mail && p.eat('>') {
		pa.Null = true
		return pa, nil
	}
	if s := p.i; !mail && p.eatFold("postmaster>") {
		pa.Postmaster, pa.Local = true, string(p.b[s:p.i-1])
		return pa, nil
	}
	if p.peek() == '@' {
		start := p.i
		for {
			if !p.eat('@') {
				return nil, p.errf("expected At-domain in source route")
			}
			if _, err := p.domain(); err != nil {
				return nil, err
			}
			if !p.eat(',') {
				break
			}
		}
		if !p.eat(':') {
			return nil, p.errf("expected \":\" after source route")
		}
		pa.SourceRoute = string(p.b[start:p.i])
	}
	if err := p.mailbox(pa); err != nil {
		return nil, err
	}
	if !p.eat('>') {
		return nil, p.errf("expected \">\"")
	}
	return pa, nil
}

// params = *( SP esmtp-keyword ["=" esmtp-value] ) up to end of line
func (p *parser) params() ([]Param, error) {
	var out []Param
	for !p.end() {
		if !p.eat(' ') {
			return nil, p.errf("unexpected %q after path/parameter", p.b[p.i:])
		}
		q := Param{Key: p.take(isLdh, false)}
		if q.Key == "" || q.Key[0] == '-' {
			return nil, p.errf("expected esmtp-keyword")
		}
		if p.eat('=') {
			q.HasValue = true
			if q.Value = p.take(isValueCh, true); q.Value == "" {
				return nil, p.errf("empty esmtp-value")
			}
		}
		out = append(out, q)
	}
	return out, nil
}

// str = Atom / Quoted-string (verbatim text returned)
func (p *parser) str() (string, error) {
	start := p.i
	if p.peek() == '"' {
		_, err := p.quoted()
		return string(p.b[start:p.i]), err
	}
	if p.take(isAtext, true) == "" {
		return "", p.errf("expected String")
	}
	return string(p.b[start:p.i]), nil
}

func decodeB64(s []byte) ([]byte, error) {
	for i, c := range s {
		if !isB64Ch(c) && !(c == '=' && i >= len(s)-2) {
			return nil, &SyntaxError{i, "bad base64 character"}
		}
	}
	if len(s)%4 != 0 {
		return nil, &SyntaxError{len(s), "base64 length not a multiple of 4 (padding missing)"}
	}
	d, err := base64.StdEncoding.Strict().DecodeString(string(s))
	if err != nil {
		return nil, &SyntaxError{0, "bad base64: " + err.Error()}
	}
	return d, nil
}

// ParseLine parses one command line given WITHOUT its terminating CRLF.
func ParseLine(line []byte, allowUTF8 bool) (Command, error) {
	cmd, err := parseLine(line, allowUTF8)
	if err != nil {
		return Command{}, err
	}
	return cmd, nil
}

func parseLine(line []byte, allowUTF8 bool) (cmd Command, err error) {
	if len(line) > MaxLine {
		return cmd, &SyntaxError{MaxLine, "line too long"}
	}
	if err = checkBytes(line, allowUTF8); err != nil {
		return cmd, err
	}
	p := &parser{b: line, u8: allowUTF8}
	cmd.Verb = strings.ToUpper(p.take(isAlpha, false))
	if c := p.peek(); c >= 0 && c != ' ' {
		return cmd, p.errf("malformed verb")
	}
	needSP := func() error {
		if !p.eat(' ') {
			return p.errf("%s requires an argument", cmd.Verb)
		}
		return nil
	}
	switch cmd.Verb {
	case "DATA", "RSET", "QUIT", "STARTTLS":
	case "EHLO", "HELO":
		if err = needSP(); err == nil {
			cmd.Arg, err = p.domainOrLiteral()
		}
	case "NOOP", "HELP":
		if p.eat(' ') {
			cmd.Arg, err = p.str()
		}
	case "VRFY", "EXPN":
		// RFC 5321 says String; in practice (and RFC 5321 3.5.1) a mailbox is
		// sent, so accept String / Local-part ["@" Domain] / Path.
		if err = needSP(); err != nil {
			break
		}
		start := p.i
		if p.peek() == '<' {
			_, err = p.path(false)
		} else if _, _, err = p.localPart(); err == nil && p.eat('@') {
			_, err = p.domainOrLiteral()
		}
		cmd.Arg = string(line[start:p.i])
		if err == nil && p.eatFold(" SMTPUTF8") { // RFC 6531 3.7.4.2
			cmd.Params = []Param{{Key: string(line[p.i-8 : p.i])}}
		}
	case "MAIL", "RCPT":
		kw := map[string]string{"MAIL": " FROM:", "RCPT": " TO:"}[cmd.Verb]
		if !p.eatFold(kw) {
			return cmd, p.errf("expected %q", cmd.Verb+kw)
		}
		if cmd.Path, err = p.path(cmd.Verb == "MAIL"); err == nil {
			cmd.Params, err = p.params()
		}
	case "AUTH":
		if err = needSP(); err != nil {
			break
		}
		mech := p.take(isMechCh, false)
		if len(mech) < 1 || len(mech) > 20 {
			return cmd, p.errf("bad SASL mechanism name")
		}
		cmd.Arg = strings.ToUpper(mech)
		if p.eat(' ') {
			tok := line[p.i:]
			if len(tok) == 0 {
				return cmd, p.errf("empty initial-response")
			}
			if string(tok) != "=" {
				if _, err = decodeB64(tok); err != nil {
					err.(*SyntaxError).Pos += p.i
					return cmd, err
				}
			}
			cmd.AuthInitial = string(tok)
			p.i = len(line)
		}
	default:
		return cmd, &SyntaxError{0, fmt.Sprintf("unknown verb %q", cmd.Verb)}
	}
	if err == nil {
		err = p.expectEnd()
	}
	return cmd, err
}

// ParseAuthContinuation validates a client line answering a 334 challenge.
func ParseAuthContinuation(line []byte) (decoded []byte, cancel bool, err error) {
	if len(line) > MaxAuthLine {
		return nil, false, &SyntaxError{MaxAuthLine, "line too long"}
	}
	if string(line) == "*" {
		return nil, true, nil
	}
	decoded, err = decodeB64(line)
	return decoded, false, err
}

// ---- parameter semantics ----------------------------------------------

// XtextDecode decodes RFC 3461 xtext (hexchar = "+" 2 UPPER-case hex digits).
func XtextDecode(s string) (string, error) {
	out := make([]byte, 0, len(s))
	for i := 0; i < len(s); i++ {
		c := s[i]
		switch {
		case c == '+':
			if i+2 >= len(s) || !isUpperHex(s[i+1]) || !isUpperHex(s[i+2]) {
				return "", fmt.Errorf("bad xtext hexchar at %d", i)
			}
			c, i = hexVal(s[i+1])<<4|hexVal(s[i+2]), i+2
		case c < 33 || c > 126 || c == '=':
			return "", fmt.Errorf("octet 0x%02x not allowed in xtext at %d", c, i)
		}
		out = append(out, c)
	}
	return string(out), nil
}

type valueCheck func(q Param) error

func oneOf(vals ...string) valueCheck {
	return func(q Param) error {
		for _, v := range vals {
			if q.HasValue && foldEq([]byte(q.Value), v) {
				return nil
			}
		}
		return fmt.Errorf("value %q not one of %v", q.Value, vals)
	}
}

func checkNoValue(q Param) error {
	if q.HasValue {
		return fmt.Errorf("takes no value, got %q", q.Value)
	}
	return nil
}

func checkSize(q Param) error {
	if len(q.Value) < 1 || len(q.Value) > 20 || strings.Trim(q.Value, "0123456789") != "" {
		return fmt.Errorf("value %q is not 1*20DIGIT", q.Value)
	}
	return nil
}

func checkEnvid(q Param) error {
	d, err := XtextDecode(q.Value)
	if err == nil && (len(d) == 0 || len(d) > 100) {
		err = fmt.Errorf("envid length %d outside 1..100", len(d))
	}
	return err
}

func checkNotify(q Param) error {
	seen := map[string]bool{}
	for _, v := range strings.Split(q.Value, ",") {
		v = strings.ToUpper(v)
		if v != "NEVER" && v != "SUCCESS" && v != "FAILURE" && v != "DELAY" || seen[v] {
			return fmt.Errorf("bad or repeated notify keyword %q in %q", v, q.Value)
		}
		seen[v] = true
	}
	if seen["NEVER"] && len(seen) > 1 {
		return fmt.Errorf("NEVER combined with other keywords in %q", q.Value)
	}
	return nil
}

// ORCPT = addr-type ";" xtext. For addr-type "utf-8" (RFC 6533) the address is
// utf-8-addr-xtext / utf-8-addr-unitext: QCHAR / UTF8-non-ascii / "\x{" HEX "}".
func checkOrcpt(q Param) error {
	typ, addr, ok := strings.Cut(q.Value, ";")
	if !ok || typ == "" || addr == "" {
		return fmt.Errorf("value %q is not addr-type \";\" xtext", q.Value)
	}
	for i := 0; i < len(typ); i++ {
		if !isAtext(typ[i]) || typ[i] == '+' {
			return fmt.Errorf("bad addr-type %q", typ)
		}
	}
	if !foldEq([]byte(typ), "utf-8") {
		_, err := XtextDecode(addr)
		return err
	}
	for i := 0; i < len(addr); i++ {
		switch c := addr[i]; {
		case c == '\\':
			j := strings.IndexByte(addr[i:], '}')
			if !strings.HasPrefix(addr[i:], `\x{`) || j < 4 || j > 9 || strings.Trim(addr[i+3:i+j], "0123456789ABCDEF") != "" {
				return fmt.Errorf("bad EmbeddedUnicodeChar at %d", i)
			}
			i += j
		case c < 33 || c == 127 || c == '+' || c == '=':
			return fmt.Errorf("octet 0x%02x not allowed in utf-8 address at %d", c, i)
		}
	}
	if !utf8.ValidString(addr) {
		return fmt.Errorf("invalid UTF-8 in address")
	}
	return nil
}

func checkParams(ps []Param, known map[string]valueCheck) (unknown []string, err error) {
	seen := map[string]bool{}
	for _, q := range ps {
		k := strings.ToUpper(q.Key)
		var e error
		if f, ok := known[k]; seen[k] {
			e = fmt.Errorf("parameter occurs twice")
		} else if ok {
			e = f(q)
		} else {
			unknown = append(unknown, q.Key)
		}
		seen[k] = true
		if e != nil && err == nil {
			err = fmt.Errorf("rfc5321: %s: %w", k, e)
		}
	}
	return unknown, err
}

var mailKnown = map[string]valueCheck{
	"BODY":     oneOf("7BIT", "8BITMIME", "BINARYMIME"),
	"SMTPUTF8": checkNoValue,
	"RET":      oneOf("FULL", "HDRS"),
	"ENVID":    checkEnvid,
	"SIZE":     checkSize,
}

var rcptKnown = map[string]valueCheck{
	"NOTIFY": checkNotify,
	"ORCPT":  checkOrcpt,
}

// CheckMailParams validates the known MAIL parameters (BODY, SMTPUTF8, RET,
// ENVID, SIZE) and rejects any repeated key. Unknown keys are returned.
func CheckMailParams(p []Param) (unknown []string, err error) { return checkParams(p, mailKnown) }

// CheckRcptParams validates the known RCPT parameters (NOTIFY, ORCPT) and
// rejects any repeated key. Unknown keys are returned.
func CheckRcptParams(p []Param) (unknown []string, err error) { return checkParams(p, rcptKnown) }

// QuoteLocal returns the canonical RFC 5321 spelling of a local part.
func QuoteLocal(local string, allowUTF8 bool) (s string, ok bool) {
	if checkBytes([]byte(local), allowUTF8) != nil {
		return "", false
	}
	p := &parser{b: []byte(local), u8: allowUTF8}
	if _, q, err := p.localPart(); err == nil && !q && p.end() {
		return local, true
	}
	var sb strings.Builder
	sb.WriteByte('"')
	for i := 0; i < len(local); i++ {
		if local[i] == '"' || local[i] == '\\' {
			sb.WriteByte('\\')
		}
		sb.WriteByte(local[i])
	}
	sb.WriteByte('"')
	return sb.String(), true
}
