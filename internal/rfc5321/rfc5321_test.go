//go:build verif

package rfc5321

import (
	"math/rand"
	"reflect"
	"strings"
	"testing"
)

type want struct {
	verb, arg, authInit string
	mailbox             string // expected Path.Mailbox(); "-" = no Path expected
	path                Path   // compared only if checkPath
	checkPath           bool
	params              []Param
}

func kv(k, v string) Param { return Param{Key: k, Value: v, HasValue: true} }
func k(k string) Param     { return Param{Key: k} }

func TestParseLineAccept(t *testing.T) {
	tests := []struct {
		line string
		utf8 bool
		w    want
	}{
		// RFC 5321 appendix D.1 - D.4
		{"EHLO bar.com", false, want{verb: "EHLO", arg: "bar.com", mailbox: "-"}},
		{"MAIL FROM:<Smith@bar.com>", false, want{verb: "MAIL", mailbox: "Smith@bar.com"}},
		{"RCPT TO:<Jones@foo.com>", false, want{verb: "RCPT", mailbox: "Jones@foo.com"}},
		{"RCPT TO:<Green@foo.com>", false, want{verb: "RCPT", mailbox: "Green@foo.com"}},
		{"RCPT TO:<Brown@foo.com>", false, want{verb: "RCPT", mailbox: "Brown@foo.com"}},
		{"DATA", false, want{verb: "DATA", mailbox: "-"}},
		{"QUIT", false, want{verb: "QUIT", mailbox: "-"}},
		{"RSET", false, want{verb: "RSET", mailbox: "-"}},
		{"EHLO foo.com", false, want{verb: "EHLO", arg: "foo.com", mailbox: "-"}},
		{"MAIL FROM:<JQP@bar.com>", false, want{verb: "MAIL", mailbox: "JQP@bar.com"}},
		{"RCPT TO:<Jones@XYZ.COM>", false, want{verb: "RCPT", mailbox: "Jones@XYZ.COM"}},
		{"VRFY Crispin", false, want{verb: "VRFY", arg: "Crispin", mailbox: "-"}},
		{"MAIL FROM:<EAK@bar.com>", false, want{verb: "MAIL", mailbox: "EAK@bar.com"}},
		{"RCPT TO:<Admin.MRC@foo.com>", false, want{verb: "RCPT", mailbox: "Admin.MRC@foo.com"}},
		{"EXPN Example-People", false, want{verb: "EXPN", arg: "Example-People", mailbox: "-"}},
		// RFC 821-style source route (C.): route is recorded, mailbox is the final one
		{"RCPT TO:<@hosta.int,@jkl.org:userc@d.bar.org>", false, want{verb: "RCPT", mailbox: "userc@d.bar.org",
			checkPath: true, path: Path{Local: "userc", Domain: "d.bar.org", SourceRoute: "@hosta.int,@jkl.org:"}}},
		// null reverse path
		{"MAIL FROM:<>", false, want{verb: "MAIL", mailbox: "", checkPath: true, path: Path{Null: true}}},
		{"MAIL FROM:<> RET=HDRS", false, want{verb: "MAIL", mailbox: "", params: []Param{kv("RET", "HDRS")}}},
		// postmaster
		{"RCPT TO:<Postmaster>", false, want{verb: "RCPT", mailbox: "Postmaster", checkPath: true, path: Path{Postmaster: true, Local: "Postmaster"}}},
		{"RCPT TO:<postMASTER>", false, want{verb: "RCPT", mailbox: "postMASTER", checkPath: true, path: Path{Postmaster: true, Local: "postMASTER"}}},
		{"RCPT TO:<Postmaster@example.com>", false, want{verb: "RCPT", mailbox: "Postmaster@example.com", checkPath: true, path: Path{Local: "Postmaster", Domain: "example.com"}}},
		// quoted local parts
		{`RCPT TO:<"a b"@example.com>`, false, want{verb: "RCPT", mailbox: "a b@example.com", checkPath: true, path: Path{Local: "a b", LocalQuoted: true, Domain: "example.com"}}},
		{`RCPT TO:<"a\"b\\c"@example.com>`, false, want{verb: "RCPT", mailbox: `a"b\c@example.com`, checkPath: true, path: Path{Local: `a"b\c`, LocalQuoted: true, Domain: "example.com"}}},
		{`RCPT TO:<"a@x> ORCPT=y <b"@example.com>`, false, want{verb: "RCPT", mailbox: "a@x> ORCPT=y <b@example.com"}},
		{`RCPT TO:<""@example.com>`, false, want{verb: "RCPT", mailbox: "@example.com", checkPath: true, path: Path{LocalQuoted: true, Domain: "example.com"}}},
		{`MAIL FROM:<"\a"@b.c>`, false, want{verb: "MAIL", mailbox: "a@b.c"}},
		{"MAIL FROM:<!#$%&'*+-/=?^_`{|}~.x@b.c>", false, want{verb: "MAIL", mailbox: "!#$%&'*+-/=?^_`{|}~.x@b.c"}},
		// address literals
		{"RCPT TO:<a@[127.0.0.1]>", false, want{verb: "RCPT", mailbox: "a@[127.0.0.1]"}},
		{"RCPT TO:<a@[IPv6:::1]>", false, want{verb: "RCPT", mailbox: "a@[IPv6:::1]"}},
		{"EHLO [127.0.0.1]", false, want{verb: "EHLO", arg: "[127.0.0.1]", mailbox: "-"}},
		{"HELO localhost", false, want{verb: "HELO", arg: "localhost", mailbox: "-"}},
		{"ehlo a-b.c0", false, want{verb: "EHLO", arg: "a-b.c0", mailbox: "-"}},
		// parameters
		{"RCPT TO:<a@b.c> NOTIFY=NEVER", false, want{verb: "RCPT", mailbox: "a@b.c", params: []Param{kv("NOTIFY", "NEVER")}}},
		{"MAIL FROM:<a@b.c> BODY=8BITMIME SMTPUTF8 RET=FULL", false, want{verb: "MAIL", mailbox: "a@b.c",
			params: []Param{kv("BODY", "8BITMIME"), k("SMTPUTF8"), kv("RET", "FULL")}}},
		{"RCPT TO:<a@b.c> NOTIFY=SUCCESS,FAILURE ORCPT=rfc822;a+40b.c", false, want{verb: "RCPT", mailbox: "a@b.c",
			params: []Param{kv("NOTIFY", "SUCCESS,FAILURE"), kv("ORCPT", "rfc822;a+40b.c")}}},
		{"MAIL FROM:<a@b.c> SIZE=1234 AUTH=<> X-1", false, want{verb: "MAIL", mailbox: "a@b.c",
			params: []Param{kv("SIZE", "1234"), kv("AUTH", "<>"), k("X-1")}}},
		{"mail from:<a@b.c>", false, want{verb: "MAIL", mailbox: "a@b.c"}},
		{"rCpT tO:<a@b.c>", false, want{verb: "RCPT", mailbox: "a@b.c"}},
		// UTF-8
		{"MAIL FROM:<jösé@b.c>", true, want{verb: "MAIL", mailbox: "jösé@b.c"}},
		{"RCPT TO:<a@bücher.example>", true, want{verb: "RCPT", mailbox: "a@bücher.example"}},
		{"RCPT TO:<\"ü ü\"@b.c>", true, want{verb: "RCPT", mailbox: "ü ü@b.c"}},
		{"EHLO bücher.example", true, want{verb: "EHLO", arg: "bücher.example", mailbox: "-"}},
		{"RCPT TO:<a@b.c> ORCPT=utf-8;ü@b.c", true, want{verb: "RCPT", mailbox: "a@b.c", params: []Param{kv("ORCPT", "utf-8;ü@b.c")}}},
		{"VRFY ü@b.c SMTPUTF8", true, want{verb: "VRFY", arg: "ü@b.c", mailbox: "-", params: []Param{k("SMTPUTF8")}}},
		// misc verbs
		{"NOOP", false, want{verb: "NOOP", mailbox: "-"}},
		{"noop hello", false, want{verb: "NOOP", arg: "hello", mailbox: "-"}},
		{`NOOP "a b"`, false, want{verb: "NOOP", arg: `"a b"`, mailbox: "-"}},
		{"HELP", false, want{verb: "HELP", mailbox: "-"}},
		{"HELP MAIL", false, want{verb: "HELP", arg: "MAIL", mailbox: "-"}},
		{"STARTTLS", false, want{verb: "STARTTLS", mailbox: "-"}},
		{"starttls", false, want{verb: "STARTTLS", mailbox: "-"}},
		{"VRFY <a@b.c>", false, want{verb: "VRFY", arg: "<a@b.c>", mailbox: "-"}},
		{"VRFY john.smith@b.c", false, want{verb: "VRFY", arg: "john.smith@b.c", mailbox: "-"}},
		// AUTH
		{"AUTH PLAIN AHVzZXIAcGFzcw==", false, want{verb: "AUTH", arg: "PLAIN", authInit: "AHVzZXIAcGFzcw==", mailbox: "-"}},
		{"AUTH PLAIN =", false, want{verb: "AUTH", arg: "PLAIN", authInit: "=", mailbox: "-"}},
		{"AUTH LOGIN", false, want{verb: "AUTH", arg: "LOGIN", mailbox: "-"}},
		{"auth login dXNlcg==", false, want{verb: "AUTH", arg: "LOGIN", authInit: "dXNlcg==", mailbox: "-"}},
		{"AUTH SCRAM-SHA-256-PLUS", false, want{verb: "AUTH", arg: "SCRAM-SHA-256-PLUS", mailbox: "-"}},
		{"AUTH X_Y abcd", false, want{verb: "AUTH", arg: "X_Y", authInit: "abcd", mailbox: "-"}},
	}
	for _, tc := range tests {
		c, err := ParseLine([]byte(tc.line), tc.utf8)
		if err != nil {
			t.Errorf("%q: unexpected error %v", tc.line, err)
			continue
		}
		if c.Verb != tc.w.verb || c.Arg != tc.w.arg || c.AuthInitial != tc.w.authInit {
			t.Errorf("%q: got verb=%q arg=%q init=%q, want %q %q %q", tc.line, c.Verb, c.Arg, c.AuthInitial, tc.w.verb, tc.w.arg, tc.w.authInit)
		}
		if tc.w.mailbox == "-" {
			if c.Path != nil {
				t.Errorf("%q: unexpected Path %+v", tc.line, *c.Path)
			}
		} else if c.Path == nil {
			t.Errorf("%q: missing Path", tc.line)
		} else if got := c.Path.Mailbox(); got != tc.w.mailbox {
			t.Errorf("%q: Mailbox()=%q want %q", tc.line, got, tc.w.mailbox)
		} else if tc.w.checkPath && *c.Path != tc.w.path {
			t.Errorf("%q: Path=%+v want %+v", tc.line, *c.Path, tc.w.path)
		}
		if !reflect.DeepEqual(c.Params, tc.w.params) {
			t.Errorf("%q: Params=%+v want %+v", tc.line, c.Params, tc.w.params)
		}
	}
}

func TestParseLineReject(t *testing.T) {
	long := "NOOP " + strings.Repeat("a", MaxLine)
	tests := []struct {
		line string
		utf8 bool
	}{
		{"", false}, {" ", false}, {" DATA", false}, {"FOO", false}, {"BDAT 1 LAST", false}, {"DATA1", false}, {"DATA:", false}, {long, false},
		// smuggling / structure
		{"RCPT TO:<a> NOTIFY=NEVER ORCPT=rfc822;x <b@example.com>", false},
		{"RCPT TO:<a@b.c> NOTIFY=NEVER <b@example.com>", false},
		{"RCPT TO:<a@b.c><d@e.f>", false},
		{"RCPT TO:<a@b.c>,<d@e.f>", false},
		{"RCPT TO:<a@b.c> ", false},
		{"RCPT TO:<a@b.c>  NOTIFY=NEVER", false},
		{"RCPT TO:<a@b.c> NOTIFY=", false},
		{"RCPT TO:<a@b.c> NOTIFY=A=B", false},
		{"RCPT TO:<a@b.c> =x", false},
		{"RCPT TO:<a@b.c> -x", false},
		{"RCPT TO:<a@b.c> a_b=1", false},
		{"RCPT TO:<a@b.c>NOTIFY=NEVER", false},
		{"RCPT TO:<>", false},
		{"RCPT TO:a@b.c", false},
		{"RCPT TO:<a@b.c", false},
		{"RCPT TO:<<a@b.c>>", false},
		{"RCPT TO: <a@b.c>", false},
		{"RCPT TO :<a@b.c>", false},
		{"RCPT  TO:<a@b.c>", false},
		{"RCPT FROM:<a@b.c>", false},
		{"RCPT TO:<Postmaster >", false},
		{"MAIL FROM:<Postmaster>", false},
		{"MAIL FROM: <a@b.c>", false},
		{"MAIL FROM:<a@b.c> ", false},
		{"MAIL FROM:< a@b.c>", false},
		{"MAIL FROM:<a@b.c >", false},
		{"MAIL FROM:<a b@b.c>", false},
		{"MAIL FROM:<a@b.c>\r\nRCPT TO:<x@y.z>", false},
		{"MAIL FROM:<a@b.c>\nDATA", false},
		{"MAIL FROM:<a@b.c>\x00", false},
		{"MAIL FROM:<a\x7f@b.c>", false},
		{"MAIL FROM:<a@b.c>\tBODY=7BIT", false},
		{"MAIL TO:<a@b.c>", false},
		{"MAIL", false}, {"MAIL FROM:", false}, {"MAILFROM:<a@b.c>", false},
		// local part
		{"MAIL FROM:<@b.c>", false},
		{"MAIL FROM:<.a@b.c>", false},
		{"MAIL FROM:<a.@b.c>", false},
		{"MAIL FROM:<a..b@b.c>", false},
		{"MAIL FROM:<a@b@c.d>", false},
		{"MAIL FROM:<a(b)@c.d>", false},
		{"MAIL FROM:<a,b@c.d>", false},
		{`MAIL FROM:<"a@b.c>`, false},
		{`MAIL FROM:<"a"b"@b.c>`, false},
		{`MAIL FROM:<"a"b@b.c>`, false},
		{`MAIL FROM:<a"b"@b.c>`, false},
		{`MAIL FROM:<"a\"@b.c>`, false},
		{`MAIL FROM:<"a"."b"@b.c>`, false},
		// domain
		{"MAIL FROM:<a@>", false},
		{"MAIL FROM:<a@b.c.>", false},
		{"MAIL FROM:<a@.b.c>", false},
		{"MAIL FROM:<a@b..c>", false},
		{"MAIL FROM:<a@-b.c>", false},
		{"MAIL FROM:<a@b-.c>", false},
		{"MAIL FROM:<a@b_c.d>", false},
		{"MAIL FROM:<a@[]>", false},
		{"MAIL FROM:<a@[1.2.3.4>", false},
		{"MAIL FROM:<a@[1.2.[3.4]>", false},
		{"MAIL FROM:<a@[1.2.3.4]x>", false},
		{"MAIL FROM:<a@[1 2]>", false},
		// source routes
		{"RCPT TO:<@a.b,c@d.e>", false},
		{"RCPT TO:<@a.b:>", false},
		{"RCPT TO:<@a.b,:c@d.e>", false},
		{"RCPT TO:<@a.b c@d.e>", false},
		{"RCPT TO:<@[1.2.3.4]:c@d.e>", false},
		// arity
		{"EHLO", false}, {"EHLO ", false}, {"EHLO foo bar", false}, {"EHLO foo ", false}, {"EHLO  foo", false},
		{"EHLO foo_bar", false}, {"EHLO [127.0.0.1", false}, {"EHLO foo.", false}, {"EHLO -foo", false},
		{"HELO x\tMAIL", false}, {"HELO", false},
		{"DATA ", false}, {"DATA x", false}, {"RSET ", false}, {"QUIT ", false}, {"QUIT now", false}, {"STARTTLS ", false}, {"STARTTLS x", false},
		{"NOOP ", false}, {"NOOP a b", false}, {"NOOP a@b", false}, {`NOOP "a`, false}, {"HELP ", false},
		{"VRFY", false}, {"VRFY ", false}, {"VRFY a b", false}, {"EXPN", false}, {"VRFY a@", false},
		// UTF-8
		{"MAIL FROM:<jösé@b.c>", false},
		{"RCPT TO:<a@bücher.example>", false},
		{"EHLO bücher.example", false},
		{"MAIL FROM:<a\xff@b.c>", true},
		{"MAIL FROM:<a\xc3@b.c>", true},
		{"MAIL FROM:<a\xc3\x28@b.c>", true},
		{"MAIL FROM:<a\xed\xa0\x80@b.c>", true}, // surrogate
		{"MAIL FROM:<a\xc0\xaf@b.c>", true},     // overlong
		{"MAIL FROM:<a@b.c> BÖDY=7BIT", true},
		{"MÄIL FROM:<a@b.c>", true},
		{"MAIL FROM：<a@b.c>", true},
		{"MAIL FROM:<a＠b.c>", true}, // fullwidth @ is atext, so no "@" found
		{"MAIL FROM:<a@[ü]>", true},
		{"AUTH PLÄIN", true},
		{"RCPT TO:<poſtmaster>", true}, // long s must not fold to "postmaster"
		// AUTH
		{"AUTH", false}, {"AUTH ", false}, {"AUTH PLAIN ", false}, {"AUTH PLAIN a b", false}, {"AUTH PLAIN  =", false},
		{"AUTH PLAIN AHVzZXIAcGFzcw", false}, {"AUTH PLAIN AHVzZXIAcGFzcw=", false}, {"AUTH PLAIN AHVz=XIA", false},
		{"AUTH PLAIN ====", false}, {"AUTH PLAIN ==", false}, {"AUTH PLAIN AHVzZXIAcGFzcw== ", false}, {"AUTH PLAIN *", false},
		{"AUTH PLAIN AHVz-XIA", false}, {"AUTH PLAIN QR==", false}, // non-canonical trailing bits
		{"AUTH PLA.IN", false}, {"AUTH ABCDEFGHIJKLMNOPQRSTU", false}, {"AUTH PLAIN dXNl cg==", false},
	}
	for _, tc := range tests {
		if c, err := ParseLine([]byte(tc.line), tc.utf8); err == nil {
			t.Errorf("%q (utf8=%v): accepted as %+v (path %+v)", tc.line, tc.utf8, c, c.Path)
		} else if !reflect.DeepEqual(c, Command{}) {
			t.Errorf("%q: non-zero Command returned with error", tc.line)
		}
	}
}

func TestLineLength(t *testing.T) {
	ok := "NOOP " + strings.Repeat("a", MaxLine-5)
	if _, err := ParseLine([]byte(ok), false); err != nil {
		t.Errorf("line of exactly MaxLine rejected: %v", err)
	}
	if _, err := ParseLine([]byte(ok+"a"), false); err == nil {
		t.Errorf("line of MaxLine+1 accepted")
	}
}

func TestParseAuthContinuation(t *testing.T) {
	tests := []struct {
		in      string
		out     string
		cancel  bool
		wantErr bool
	}{
		{"", "", false, false},
		{"*", "", true, false},
		{"dXNlcg==", "user", false, false},
		{"AHVzZXIAcGFzcw==", "\x00user\x00pass", false, false},
		{"=", "", false, true},
		{"**", "", false, true},
		{"* ", "", false, true},
		{"dXNlcg", "", false, true},
		{"dXNlcg= =", "", false, true},
		{"dXNl\r\ncg==", "", false, true},
		{"dXNlcg==\n", "", false, true},
		{" dXNlcg==", "", false, true},
		{"dXN_cg==", "", false, true},
		{strings.Repeat("A", MaxAuthLine+2), "", false, true},
	}
	for _, tc := range tests {
		d, c, err := ParseAuthContinuation([]byte(tc.in))
		if (err != nil) != tc.wantErr || c != tc.cancel || string(d) != tc.out {
			t.Errorf("%q: got (%q,%v,%v) want (%q,%v,err=%v)", tc.in, d, c, err, tc.out, tc.cancel, tc.wantErr)
		}
	}
}

func parseParams(t *testing.T, s string) []Param {
	t.Helper()
	line := "MAIL FROM:<>"
	if s != "" {
		line += " " + s
	}
	c, err := ParseLine([]byte(line), true)
	if err != nil {
		t.Fatalf("params %q do not even parse: %v", s, err)
	}
	return c.Params
}

func TestCheckParams(t *testing.T) {
	tests := []struct {
		rcpt    bool
		params  string
		unknown []string
		wantErr bool
	}{
		{false, "", nil, false},
		{false, "BODY=8BITMIME SMTPUTF8 RET=FULL ENVID=QQ314159 SIZE=1000", nil, false},
		{false, "body=7bit ret=hdrs smtputf8", nil, false},
		{false, "BODY=BINARYMIME", nil, false},
		{false, "ENVID=a+2Bb+3D", nil, false},
		{false, "BODY=8BITMIME X-FOO=1 REQUIRETLS", []string{"X-FOO", "REQUIRETLS"}, false},
		{false, "BODY=8BIT", nil, true},
		{false, "BODY", nil, true},
		{false, "SMTPUTF8=1", nil, true},
		{false, "RET=ALL", nil, true},
		{false, "RET", nil, true},
		{false, "ENVID=a+2b", nil, true},
		{false, "ENVID=a+", nil, true},
		{false, "ENVID=a+4", nil, true},
		{false, "ENVID=" + strings.Repeat("a", 101), nil, true},
		{false, "ENVID=ü", nil, true},
		{false, "SIZE=12a", nil, true},
		{false, "SIZE=-1", nil, true},
		{false, "SIZE=123456789012345678901", nil, true},
		{false, "SIZE", nil, true},
		{false, "BODY=7BIT body=7BIT", nil, true},
		{false, "X-A X-a", []string{"X-A"}, true},
		{false, "NOTIFY=NEVER", []string{"NOTIFY"}, false},
		{true, "NOTIFY=NEVER", nil, false},
		{true, "NOTIFY=SUCCESS,FAILURE,DELAY ORCPT=rfc822;Bob@Example.COM", nil, false},
		{true, "notify=delay orcpt=RFC822;a+2Bb@c.d", nil, false},
		{true, "ORCPT=utf-8;ü@example.com", nil, false},
		{true, "ORCPT=utf-8;\\x{FC}@example.com", nil, false},
		{true, "ORCPT=x400;C+3DUS;A+3D", nil, false},
		{true, "BODY=7BIT", []string{"BODY"}, false},
		{true, "NOTIFY=NEVER,SUCCESS", nil, true},
		{true, "NOTIFY=SUCCESS,SUCCESS", nil, true},
		{true, "NOTIFY=SUCCESS,", nil, true},
		{true, "NOTIFY=,SUCCESS", nil, true},
		{true, "NOTIFY=ALWAYS", nil, true},
		{true, "NOTIFY", nil, true},
		{true, "NOTIFY=NEVER NOTIFY=NEVER", nil, true},
		{true, "ORCPT=rfc822", nil, true},
		{true, "ORCPT=rfc822;", nil, true},
		{true, "ORCPT=;a@b.c", nil, true},
		{true, "ORCPT=rfc822;a+b@c.d", nil, true},
		{true, "ORCPT=rfc822;ü@c.d", nil, true},
		{true, "ORCPT=utf-8;a+2Bb@c.d", nil, true},
		{true, "ORCPT=utf-8;\\x{}@c.d", nil, true},
		{true, "ORCPT=utf-8;\\x{fc}@c.d", nil, true},
		{true, "ORCPT=utf-8;a\\b@c.d", nil, true},
		{true, "ORCPT=rfc822;a@b.c ORCPT=rfc822;a@b.c", nil, true},
	}
	for _, tc := range tests {
		f := CheckMailParams
		if tc.rcpt {
			f = CheckRcptParams
		}
		unk, err := f(parseParams(t, tc.params))
		if (err != nil) != tc.wantErr || !reflect.DeepEqual(unk, tc.unknown) {
			t.Errorf("rcpt=%v %q: got unknown=%v err=%v; want unknown=%v err=%v", tc.rcpt, tc.params, unk, err, tc.unknown, tc.wantErr)
		}
	}
	// ORCPT value built by hand with invalid UTF-8 (cannot come from ParseLine)
	if _, err := CheckRcptParams([]Param{kv("ORCPT", "utf-8;a\xff@b.c")}); err == nil {
		t.Errorf("invalid UTF-8 in utf-8 ORCPT accepted")
	}
}

func TestXtextDecode(t *testing.T) {
	for in, want := range map[string]string{"": "", "abc": "abc", "a+2Bb+3Dc+20": "a+b=c ", "+00": "\x00", "+FF": "\xff"} {
		if got, err := XtextDecode(in); err != nil || got != want {
			t.Errorf("%q: got %q,%v want %q", in, got, err, want)
		}
	}
	for _, in := range []string{"+", "+1", "a+1", "+1g", "+ab", "a=b", "a b", "a\x7f", "ü", "a\n"} {
		if got, err := XtextDecode(in); err == nil {
			t.Errorf("%q: accepted as %q", in, got)
		}
	}
}

func TestQuoteLocal(t *testing.T) {
	tests := []struct {
		in   string
		utf8 bool
		out  string
		ok   bool
	}{
		{"a", false, "a", true},
		{"a.b", false, "a.b", true},
		{"!#$%&'*+-/=?^_`{|}~", false, "!#$%&'*+-/=?^_`{|}~", true},
		{"", false, `""`, true},
		{"a b", false, `"a b"`, true},
		{".a", false, `".a"`, true},
		{"a.", false, `"a."`, true},
		{"a..b", false, `"a..b"`, true},
		{"a@b", false, `"a@b"`, true},
		{`a"b\c`, false, `"a\"b\\c"`, true},
		{`"a"`, false, `"\"a\""`, true},
		{"a<b>", false, `"a<b>"`, true},
		{"a\tb", false, "", false},
		{"a\r\nb", false, "", false},
		{"a\x00", false, "", false},
		{"a\x7f", false, "", false},
		{"ü", false, "", false},
		{"ü", true, "ü", true},
		{"ü ü", true, `"ü ü"`, true},
		{"a\xff", true, "", false},
	}
	for _, tc := range tests {
		s, ok := QuoteLocal(tc.in, tc.utf8)
		if s != tc.out || ok != tc.ok {
			t.Errorf("QuoteLocal(%q,%v)=(%q,%v) want (%q,%v)", tc.in, tc.utf8, s, ok, tc.out, tc.ok)
		}
		if !ok {
			continue
		}
		// round trip through the parser
		c, err := ParseLine([]byte("RCPT TO:<"+s+"@example.com>"), tc.utf8)
		if err != nil || c.Path.Local != tc.in || c.Path.Mailbox() != tc.in+"@example.com" {
			t.Errorf("round trip of %q via %q: %+v, %v", tc.in, s, c.Path, err)
		}
	}
}

func TestMailboxNil(t *testing.T) {
	var p *Path
	if p.Mailbox() != "" {
		t.Errorf("nil path mailbox not empty")
	}
}

// checkInvariants asserts properties every successfully parsed command must have.
func checkInvariants(t *testing.T, line []byte, utf8ok bool, c Command) {
	t.Helper()
	clean := func(s string) bool {
		for i := 0; i < len(s); i++ {
			if s[i] < 0x20 || s[i] == 0x7f || (s[i] >= 0x80 && !utf8ok) {
				return false
			}
		}
		return true
	}
	fields := []string{c.Verb, c.Arg, c.AuthInitial}
	if c.Path != nil {
		fields = append(fields, c.Path.Local, c.Path.Domain, c.Path.SourceRoute)
		if (c.Verb != "MAIL" && c.Verb != "RCPT") || (c.Path.Null && c.Verb != "MAIL") || (c.Path.Postmaster && c.Verb != "RCPT") {
			t.Fatalf("%q: inconsistent path %+v for verb %s", line, *c.Path, c.Verb)
		}
		if !c.Path.Null && !c.Path.Postmaster {
			if c.Path.Domain == "" || strings.ContainsAny(c.Path.Domain, " <>@,;:\\\"") && c.Path.Domain[0] != '[' {
				t.Fatalf("%q: bad domain %q", line, c.Path.Domain)
			}
			// canonical re-spelling must denote the same mailbox
			q, ok := QuoteLocal(c.Path.Local, utf8ok)
			if !ok {
				t.Fatalf("%q: local %q not representable", line, c.Path.Local)
			}
			c2, err := ParseLine([]byte("RCPT TO:<"+q+"@"+c.Path.Domain+">"), utf8ok)
			if err != nil || c2.Path.Mailbox() != c.Path.Mailbox() {
				t.Fatalf("%q: canonical form %q does not round-trip: %v", line, q, err)
			}
		}
	} else if c.Verb == "MAIL" || c.Verb == "RCPT" {
		t.Fatalf("%q: no path", line)
	}
	for _, p := range c.Params {
		fields = append(fields, p.Key, p.Value)
		if p.Key == "" || strings.Trim(strings.ToLower(p.Key), "abcdefghijklmnopqrstuvwxyz0123456789-") != "" || strings.ContainsAny(p.Value, " =") || (p.Value != "") != p.HasValue {
			t.Fatalf("%q: bad param %+v", line, p)
		}
	}
	for _, f := range fields {
		if !clean(f) {
			t.Fatalf("%q: field %q contains forbidden octets", line, f)
		}
	}
	if len(line) > MaxLine {
		t.Fatalf("over-long line accepted")
	}
}

var seeds = []string{
	"EHLO bar.com", "EHLO [127.0.0.1]", "HELO x", "MAIL FROM:<>", "MAIL FROM:<a@b.c> BODY=8BITMIME SMTPUTF8 RET=FULL ENVID=x+2B SIZE=12",
	`RCPT TO:<"a\"b\\c"@example.com> NOTIFY=SUCCESS,DELAY ORCPT=rfc822;a@b.c`, "RCPT TO:<@a.b,@c.d:e@f.g>", "RCPT TO:<Postmaster>",
	"RCPT TO:<jösé@bücher.example> ORCPT=utf-8;ü@b.c", "DATA", "RSET", "NOOP x", "QUIT", "STARTTLS", "AUTH PLAIN AHVzZXIAcGFzcw==",
	"AUTH LOGIN", "AUTH PLAIN =", "VRFY a@b.c SMTPUTF8", "EXPN list", `HELP "x y"`,
}

func TestRandomNoPanic(t *testing.T) {
	rng := rand.New(rand.NewSource(5321))
	alphabet := []byte("<>@:;,.\"\\ =-_[]\t\r\n\x00\x7fabAB01+/*\xc3\xbc\xff")
	accepted := 0
	for i := 0; i < 20000; i++ {
		var b []byte
		switch i % 4 {
		case 0: // pure random bytes
			b = make([]byte, rng.Intn(64))
			rng.Read(b)
		case 1: // random bytes from a grammar-relevant alphabet, behind a valid prefix
			prefixes := []string{"MAIL FROM:", "RCPT TO:", "EHLO ", "AUTH ", "NOOP ", "VRFY ", ""}
			b = []byte(prefixes[rng.Intn(len(prefixes))])
			for n := rng.Intn(40); n > 0; n-- {
				b = append(b, alphabet[rng.Intn(len(alphabet))])
			}
		default: // mutate a valid seed
			b = []byte(seeds[rng.Intn(len(seeds))])
			for n := rng.Intn(3); n >= 0 && len(b) > 0; n-- {
				j := rng.Intn(len(b))
				switch rng.Intn(3) {
				case 0:
					b[j] = alphabet[rng.Intn(len(alphabet))]
				case 1:
					b = append(b[:j], b[j+1:]...)
				default:
					b = append(b[:j], append([]byte{alphabet[rng.Intn(len(alphabet))]}, b[j:]...)...)
				}
			}
		}
		for _, u := range []bool{false, true} {
			c, err := ParseLine(b, u)
			if err == nil {
				accepted++
				checkInvariants(t, b, u, c)
				CheckMailParams(c.Params)
				CheckRcptParams(c.Params)
			}
		}
		ParseAuthContinuation(b)
		QuoteLocal(string(b), i%2 == 0)
		XtextDecode(string(b))
		CheckRcptParams([]Param{{Key: "ORCPT", Value: string(b), HasValue: true}, {Key: "NOTIFY", Value: string(b), HasValue: true}})
		CheckMailParams([]Param{{Key: "ENVID", Value: string(b), HasValue: true}, {Key: "SIZE", Value: string(b), HasValue: true}})
	}
	if accepted == 0 {
		t.Errorf("random test never produced an accepted line; generator is useless")
	}
	t.Logf("accepted %d of 40000 parses", accepted)
}

func TestSeedsParse(t *testing.T) {
	for _, s := range seeds {
		c, err := ParseLine([]byte(s), true)
		if err != nil {
			t.Errorf("seed %q rejected: %v", s, err)
			continue
		}
		checkInvariants(t, []byte(s), true, c)
	}
}

func FuzzParseLine(f *testing.F) {
	for _, s := range seeds {
		f.Add([]byte(s), true)
	}
	f.Fuzz(func(t *testing.T, b []byte, u bool) {
		if c, err := ParseLine(b, u); err == nil {
			checkInvariants(t, b, u, c)
		}
		ParseAuthContinuation(b)
	})
}
