//go:build verif

// Package mimeread is the harness' own reader for Internet messages: a strict
// RFC 5322 header-section scanner, an RFC 2045/2046 entity-tree parser, transfer
// decoders (quoted-printable with RFC 2045 rule 3, base64), an RFC 2047 decoder,
// a Content-* parameter parser and an RFC 5322 address-list parser. It does not
// use net/mail, mime, mime/multipart, mime/quotedprintable or net/textproto, so
// that it is independent of everything the library under test renders with.
package mimeread

import (
	"bytes"
	"fmt"
	"strings"
	"unicode/utf8"
)

type Problem struct {
	Code   string `json:"code"`
	Detail string `json:"detail"`
	Offset int    `json:"offset"`
}

func (p Problem) String() string { return fmt.Sprintf("%s@%d: %s", p.Code, p.Offset, p.Detail) }

// Field is one header field.
type Field struct {
	Name     string   // as written
	Value    string   // unfolded (CRLF before WSP removed), text after the colon, verbatim
	RawLines []string // physical lines, without CRLF
	Offset   int
}

// Body returns the value with surrounding blanks removed.
func (f Field) Body() string { return strings.Trim(f.Value, " \t") }

// ParseHeaderSection scans a header section strictly. It returns the fields, the
// offset where the body starts (after the empty line), whether the terminating
// empty line was found, and the problems:
//
//	bare-cr, bare-lf, orphan-continuation, ws-only-line, not-a-field, no-header-end, ctl-in-header
func ParseHeaderSection(b []byte, off int) (fields []Field, bodyStart int, ended bool, probs []Problem) {
	pos := off
	for pos <= len(b) {
		if pos == len(b) {
			probs = append(probs, Problem{"no-header-end", "header section runs to the end of the entity without an empty line", pos})
			return fields, pos, false, probs
		}
		// find end of physical line
		nl := bytes.IndexByte(b[pos:], '\n')
		var line []byte
		next := len(b)
		if nl < 0 {
			line = b[pos:]
			probs = append(probs, Problem{"no-crlf-at-end", "last header line is not terminated by CRLF", pos})
		} else {
			next = pos + nl + 1
			line = b[pos : pos+nl]
			if len(line) > 0 && line[len(line)-1] == '\r' {
				line = line[:len(line)-1]
			} else {
				probs = append(probs, Problem{"bare-lf", fmt.Sprintf("LF not preceded by CR in header line %q", trunc(string(line), 80)), pos})
			}
		}
		if bytes.IndexByte(line, '\r') >= 0 {
			probs = append(probs, Problem{"bare-cr", fmt.Sprintf("CR not followed by LF in header line %q", trunc(string(line), 80)), pos})
		}
		if len(line) == 0 {
			return fields, next, true, probs
		}
		for _, c := range line {
			if (c < 32 && c != '\t' && c != '\r') || c == 127 {
				probs = append(probs, Problem{"ctl-in-header", fmt.Sprintf("control character %#x in header line %q", c, trunc(string(line), 80)), pos})
				break
			}
		}
		if line[0] == ' ' || line[0] == '\t' {
			if len(fields) == 0 {
				probs = append(probs, Problem{"orphan-continuation", fmt.Sprintf("continuation line %q without a field", trunc(string(line), 80)), pos})
			} else {
				if len(bytes.Trim(line, " \t")) == 0 {
					probs = append(probs, Problem{"ws-only-line", "folded line consisting of white space only", pos})
				}
				f := &fields[len(fields)-1]
				f.Value += string(line)
				f.RawLines = append(f.RawLines, string(line))
			}
			pos = next
			continue
		}
		colon := bytes.IndexByte(line, ':')
		okName := colon > 0
		if okName {
			for _, c := range line[:colon] {
				if c <= 32 || c >= 127 {
					okName = false
					break
				}
			}
		}
		if !okName {
			probs = append(probs, Problem{"not-a-field", fmt.Sprintf("line %q is neither a field start nor a continuation", trunc(string(line), 80)), pos})
			pos = next
			continue
		}
		fields = append(fields, Field{Name: string(line[:colon]), Value: string(line[colon+1:]), RawLines: []string{string(line)}, Offset: pos})
		pos = next
	}
	return fields, pos, false, probs
}

func trunc(s string, n int) string {
	if len(s) > n {
		return s[:n] + "..."
	}
	return s
}

// Param is a Content-Type / Content-Disposition parameter.
type Param struct {
	Key, Value string
	Quoted     bool
}

// ParseParamHeader parses `main *( ";" attribute "=" value )` with token /
// quoted-string values (RFC 2045 §5.1). Keys are lower-cased. The error names the
// first syntax problem; parsing continues as far as possible.
func ParseParamHeader(v string) (main string, params []Param, err error) {
	i := 0
	n := len(v)
	skipWS := func() {
		for i < n && (v[i] == ' ' || v[i] == '\t') {
			i++
		}
	}
	skipWS()
	st := i
	for i < n && v[i] != ';' {
		i++
	}
	main = strings.Trim(v[st:i], " \t")
	for i < n {
		if v[i] != ';' {
			return main, params, fmt.Errorf("expected ';' at %d in %q", i, v)
		}
		i++
		skipWS()
		if i >= n {
			// trailing ';' - tolerated by most readers, reported
			return main, params, fmt.Errorf("trailing ';' in %q", v)
		}
		ks := i
		for i < n && isToken(v[i]) {
			i++
		}
		key := strings.ToLower(v[ks:i])
		skipWS()
		if key == "" || i >= n || v[i] != '=' {
			return main, params, fmt.Errorf("malformed parameter at %d in %q", ks, v)
		}
		i++
		skipWS()
		if i < n && v[i] == '"' {
			i++
			var sb strings.Builder
			closed := false
			for i < n {
				c := v[i]
				if c == '\\' && i+1 < n {
					sb.WriteByte(v[i+1])
					i += 2
					continue
				}
				if c == '"' {
					closed = true
					i++
					break
				}
				sb.WriteByte(c)
				i++
			}
			if !closed {
				return main, params, fmt.Errorf("unterminated quoted-string in %q", v)
			}
			params = append(params, Param{key, sb.String(), true})
		} else {
			vs := i
			for i < n && isToken(v[i]) {
				i++
			}
			if vs == i {
				return main, params, fmt.Errorf("empty parameter value for %q in %q", key, v)
			}
			params = append(params, Param{key, v[vs:i], false})
		}
		skipWS()
	}
	return main, params, nil
}

func isToken(c byte) bool {
	if c <= 32 || c >= 127 {
		return false
	}
	return !strings.ContainsRune(`()<>@,;:\"/[]?=`, rune(c))
}

func GetParam(ps []Param, key string) (string, bool) {
	for _, p := range ps {
		if p.Key == key {
			return p.Value, true
		}
	}
	return "", false
}

// Entity is a node of the MIME tree.
type Entity struct {
	Fields    []Field
	Start     int // offset of the first header byte in the message
	BodyStart int
	End       int    // offset just after the body (for a part: before the CRLF that belongs to the next delimiter)
	MediaType string // lower-cased type/subtype ("text/plain" when absent)
	CTParams  []Param
	HasCT     bool
	CTE       string // lower-cased, "7bit" when absent
	Boundary  string
	Children  []*Entity
	Preamble  []byte
	Epilogue  []byte
	Body      []byte // raw body (for leaves: the encoded content)
	Raw       []byte // header section + body exactly as in the message
	Closed    bool
	Problems  []Problem
	Depth     int
}

func (e *Entity) Get(name string) []string {
	var out []string
	for _, f := range e.Fields {
		if strings.EqualFold(f.Name, name) {
			out = append(out, f.Body())
		}
	}
	return out
}

func (e *Entity) Get1(name string) string {
	v := e.Get(name)
	if len(v) == 0 {
		return ""
	}
	return v[0]
}

func (e *Entity) IsMultipart() bool { return strings.HasPrefix(e.MediaType, "multipart/") }

// Leaves returns the leaf entities in document order.
func (e *Entity) Leaves() []*Entity {
	if !e.IsMultipart() {
		return []*Entity{e}
	}
	var out []*Entity
	for _, c := range e.Children {
		out = append(out, c.Leaves()...)
	}
	return out
}

// Walk visits every entity (pre-order).
func (e *Entity) Walk(fn func(*Entity)) {
	fn(e)
	for _, c := range e.Children {
		c.Walk(fn)
	}
}

func (e *Entity) AllProblems() []Problem {
	var out []Problem
	e.Walk(func(x *Entity) { out = append(out, x.Problems...) })
	return out
}

// Parse parses a whole message.
func Parse(msg []byte) *Entity { return parseEntity(msg, 0, len(msg), 0) }

func parseEntity(msg []byte, start, end, depth int) *Entity {
	e := &Entity{Start: start, End: end, Depth: depth}
	seg := msg[:end]
	fields, bodyStart, ended, probs := ParseHeaderSection(seg, start)
	e.Fields, e.BodyStart, e.Problems = fields, bodyStart, probs
	_ = ended
	e.Raw = msg[start:end]
	e.Body = msg[bodyStart:end]
	e.MediaType = "text/plain"
	e.CTE = "7bit"
	if ct := e.Get("Content-Type"); len(ct) > 0 {
		e.HasCT = true
		main, ps, err := ParseParamHeader(ct[0])
		if err != nil {
			e.Problems = append(e.Problems, Problem{"content-type-syntax", err.Error(), start})
		}
		e.MediaType = strings.ToLower(main)
		e.CTParams = ps
	}
	if cte := e.Get("Content-Transfer-Encoding"); len(cte) > 0 {
		e.CTE = strings.ToLower(cte[0])
	}
	if depth > 50 {
		e.Problems = append(e.Problems, Problem{"too-deep", "nesting deeper than 50", start})
		return e
	}
	if e.IsMultipart() {
		b, ok := GetParam(e.CTParams, "boundary")
		if !ok || b == "" {
			e.Problems = append(e.Problems, Problem{"no-boundary", "multipart entity without boundary parameter", start})
			return e
		}
		e.Boundary = b
		e.splitMultipart(msg, depth)
	}
	return e
}

// delimiter lines of boundary b inside msg[from:to]: returns for each the offset of
// the line start (the position of "--"), the offset after its CRLF, and whether it
// is the close delimiter.
type delim struct {
	lineStart, after int
	close            bool
}

func findDelims(msg []byte, from, to int, boundary string) []delim {
	var out []delim
	dash := []byte("--" + boundary)
	pos := from
	for pos < to {
		// at a line start
		if bytes.HasPrefix(msg[pos:to], dash) {
			rest := pos + len(dash)
			cl := false
			if bytes.HasPrefix(msg[rest:to], []byte("--")) {
				cl = true
				rest += 2
			}
			q := rest
			for q < to && (msg[q] == ' ' || msg[q] == '\t') {
				q++
			}
			if q == to {
				out = append(out, delim{pos, to, cl})
			} else if q+1 < to && msg[q] == '\r' && msg[q+1] == '\n' {
				out = append(out, delim{pos, q + 2, cl})
			}
		}
		nl := bytes.Index(msg[pos:to], []byte("\r\n"))
		if nl < 0 {
			break
		}
		pos += nl + 2
	}
	return out
}

func (e *Entity) splitMultipart(msg []byte, depth int) {
	ds := findDelims(msg, e.BodyStart, e.End, e.Boundary)
	if len(ds) == 0 {
		e.Problems = append(e.Problems, Problem{"no-delimiter", fmt.Sprintf("no delimiter line for boundary %q in the body", e.Boundary), e.BodyStart})
		return
	}
	// preamble: up to the CRLF before the first delimiter
	pe := ds[0].lineStart
	if pe-2 >= e.BodyStart {
		pe -= 2
	}
	e.Preamble = msg[e.BodyStart:pe]
	for i, d := range ds {
		if d.close {
			e.Closed = true
			e.Epilogue = msg[d.after:e.End]
			if i != len(ds)-1 {
				e.Problems = append(e.Problems, Problem{"delimiter-after-close", fmt.Sprintf("delimiter lines of boundary %q after its close delimiter", e.Boundary), ds[i+1].lineStart})
			}
			break
		}
		if i+1 >= len(ds) {
			e.Problems = append(e.Problems, Problem{"no-close-delimiter", fmt.Sprintf("boundary %q is never closed", e.Boundary), d.lineStart})
			// the rest is the last part
			e.Children = append(e.Children, parseEntity(msg, d.after, e.End, depth+1))
			break
		}
		pend := ds[i+1].lineStart - 2 // CRLF belongs to the delimiter
		if pend < d.after {
			e.Problems = append(e.Problems, Problem{"empty-part", "two delimiter lines directly after each other", d.lineStart})
			pend = d.after
		}
		e.Children = append(e.Children, parseEntity(msg, d.after, pend, depth+1))
	}
	if len(e.Children) == 0 {
		e.Problems = append(e.Problems, Problem{"no-parts", fmt.Sprintf("multipart with boundary %q has no body part", e.Boundary), e.BodyStart})
	}
}

// DecodeQP decodes a quoted-printable body per RFC 2045 §6.7 including rule 3
// (trailing white space on an encoded line is deleted). Problem codes:
// qp-line-too-long, qp-bad-escape, qp-lowercase-hex, qp-raw-byte, qp-trailing-ws, qp-bare-cr, qp-bare-lf
func DecodeQP(b []byte) (out []byte, probs []string) {
	add := func(s string) {
		for _, p := range probs {
			if p == s {
				return
			}
		}
		probs = append(probs, s)
	}
	pos := 0
	for pos < len(b) {
		// one line
		end := bytes.Index(b[pos:], []byte("\r\n"))
		hard := true
		var line []byte
		next := len(b)
		if end < 0 {
			line = b[pos:]
			hard = false
		} else {
			line = b[pos : pos+end]
			next = pos + end + 2
		}
		if len(line) > 76 {
			add("qp-line-too-long")
		}
		// rule 3
		t := bytes.TrimRight(line, " \t")
		if len(t) != len(line) {
			add("qp-trailing-ws")
			line = t
		}
		soft := false
		if len(line) > 0 && line[len(line)-1] == '=' {
			soft = true
			line = line[:len(line)-1]
		}
		for i := 0; i < len(line); i++ {
			c := line[i]
			switch {
			case c == '=':
				if i+2 < len(line) && isHex(line[i+1]) && isHex(line[i+2]) {
					if isLowerHex(line[i+1]) || isLowerHex(line[i+2]) {
						add("qp-lowercase-hex")
					}
					out = append(out, unhex(line[i+1])<<4|unhex(line[i+2]))
					i += 2
				} else {
					add("qp-bad-escape")
					out = append(out, c)
				}
			case c == '\r':
				add("qp-bare-cr")
				out = append(out, c)
			case c == '\n':
				add("qp-bare-lf")
				out = append(out, c)
			case c == ' ' || c == '\t' || (c >= 33 && c <= 126):
				out = append(out, c)
			default:
				add("qp-raw-byte")
				out = append(out, c)
			}
		}
		if hard && !soft {
			out = append(out, '\r', '\n')
		}
		if !hard && soft {
			add("qp-dangling-soft-break")
		}
		pos = next
	}
	return out, probs
}

func isHex(c byte) bool {
	return (c >= '0' && c <= '9') || (c >= 'A' && c <= 'F') || (c >= 'a' && c <= 'f')
}
func isLowerHex(c byte) bool { return c >= 'a' && c <= 'f' }
func unhex(c byte) byte {
	switch {
	case c >= '0' && c <= '9':
		return c - '0'
	case c >= 'A' && c <= 'F':
		return c - 'A' + 10
	default:
		return c - 'a' + 10
	}
}

const b64alpha = "ABCDEFGHIJKLMNOPQRSTUVWXYZabcdefghijklmnopqrstuvwxyz0123456789+/"

var b64rev = func() [256]int8 {
	var t [256]int8
	for i := range t {
		t[i] = -1
	}
	for i := 0; i < 64; i++ {
		t[b64alpha[i]] = int8(i)
	}
	return t
}()

// DecodeBase64 decodes a base64 body (RFC 2045 §6.8): lines of at most 76
// characters separated by CRLF. Problem codes: b64-line-too-long, b64-bare-cr,
// b64-bare-lf, b64-illegal-char, b64-bad-padding, b64-data-after-padding, b64-truncated, b64-no-final-crlf
func DecodeBase64(b []byte) (out []byte, probs []string) {
	add := func(s string) {
		for _, p := range probs {
			if p == s {
				return
			}
		}
		probs = append(probs, s)
	}
	var sym []byte
	lineLen := 0
	pad := 0
	for i := 0; i < len(b); i++ {
		c := b[i]
		if c == '\r' {
			if i+1 < len(b) && b[i+1] == '\n' {
				if lineLen > 76 {
					add("b64-line-too-long")
				}
				lineLen = 0
				i++
				continue
			}
			add("b64-bare-cr")
			continue
		}
		if c == '\n' {
			add("b64-bare-lf")
			lineLen = 0
			continue
		}
		lineLen++
		if c == '=' {
			pad++
			continue
		}
		if b64rev[c] < 0 {
			add("b64-illegal-char")
			continue
		}
		if pad > 0 {
			add("b64-data-after-padding")
		}
		sym = append(sym, c)
	}
	if lineLen > 76 {
		add("b64-line-too-long")
	}
	if lineLen > 0 {
		add("b64-no-final-crlf")
	}
	if (len(sym)+pad)%4 != 0 || pad > 2 {
		add("b64-bad-padding")
	}
	i := 0
	for ; i+4 <= len(sym); i += 4 {
		v := uint32(b64rev[sym[i]])<<18 | uint32(b64rev[sym[i+1]])<<12 | uint32(b64rev[sym[i+2]])<<6 | uint32(b64rev[sym[i+3]])
		out = append(out, byte(v>>16), byte(v>>8), byte(v))
	}
	switch len(sym) - i {
	case 1:
		add("b64-truncated")
	case 2:
		v := uint32(b64rev[sym[i]])<<18 | uint32(b64rev[sym[i+1]])<<12
		out = append(out, byte(v>>16))
	case 3:
		v := uint32(b64rev[sym[i]])<<18 | uint32(b64rev[sym[i+1]])<<12 | uint32(b64rev[sym[i+2]])<<6
		out = append(out, byte(v>>16), byte(v>>8))
	}
	return out, probs
}

// DecodeLeaf decodes the content of a leaf entity according to its
// Content-Transfer-Encoding.
func (e *Entity) DecodeLeaf() (content []byte, probs []string) {
	switch e.CTE {
	case "quoted-printable":
		return DecodeQP(e.Body)
	case "base64":
		return DecodeBase64(e.Body)
	case "7bit", "8bit", "binary":
		return e.Body, nil
	default:
		return e.Body, []string{"unknown-cte:" + e.CTE}
	}
}

// DecodeWords decodes RFC 2047 encoded-words in unstructured text. White space
// between two adjacent encoded-words is dropped. Problem codes: ew-too-long,
// ew-bad-encoding, ew-unknown-charset.
func DecodeWords(s string) (string, []string) {
	var probs []string
	var sb strings.Builder
	i := 0
	lastWasEW := false
	pendingWS := ""
	for i < len(s) {
		if s[i] == ' ' || s[i] == '\t' {
			j := i
			for j < len(s) && (s[j] == ' ' || s[j] == '\t') {
				j++
			}
			pendingWS = s[i:j]
			i = j
			continue
		}
		// a word up to next WS
		j := i
		for j < len(s) && s[j] != ' ' && s[j] != '\t' {
			j++
		}
		word := s[i:j]
		dec, ok, p := decodeOneOrMoreEW(word)
		probs = append(probs, p...)
		if ok {
			if !(lastWasEW) {
				sb.WriteString(pendingWS)
			}
			sb.WriteString(dec)
			lastWasEW = true
		} else {
			sb.WriteString(pendingWS)
			sb.WriteString(word)
			lastWasEW = false
		}
		pendingWS = ""
		i = j
	}
	sb.WriteString(pendingWS)
	return sb.String(), probs
}

// decodeOneOrMoreEW decodes a blank-free token that consists of exactly one encoded-word.
func decodeOneOrMoreEW(w string) (string, bool, []string) {
	if !strings.HasPrefix(w, "=?") || !strings.HasSuffix(w, "?=") || len(w) < 8 {
		return "", false, nil
	}
	parts := strings.Split(w[2:len(w)-2], "?")
	if len(parts) != 3 {
		return "", false, nil
	}
	var probs []string
	if len(w) > 75 {
		probs = append(probs, "ew-too-long")
	}
	cs, enc, txt := strings.ToLower(parts[0]), strings.ToLower(parts[1]), parts[2]
	var raw []byte
	switch enc {
	case "q":
		for i := 0; i < len(txt); i++ {
			c := txt[i]
			switch {
			case c == '_':
				raw = append(raw, ' ')
			case c == '=':
				if i+2 < len(txt) && isHex(txt[i+1]) && isHex(txt[i+2]) {
					raw = append(raw, unhex(txt[i+1])<<4|unhex(txt[i+2]))
					i += 2
				} else {
					return "", false, append(probs, "ew-bad-encoding")
				}
			default:
				raw = append(raw, c)
			}
		}
	case "b":
		d, p := DecodeBase64([]byte(txt))
		for _, x := range p {
			if x != "b64-no-final-crlf" && x != "b64-line-too-long" {
				return "", false, append(probs, "ew-bad-encoding")
			}
		}
		raw = d
	default:
		return "", false, nil
	}
	// The decoded octets are returned as they are: the caller of the library supplies
	// strings that are already in the charset it declares, nothing is transcoded.
	_ = cs
	return string(raw), true, probs
}

// CollapseWS turns every run of SP/HT into one SP and trims the ends.
func CollapseWS(s string) string {
	return strings.Join(strings.FieldsFunc(s, func(r rune) bool { return r == ' ' || r == '\t' }), " ")
}

// Addr is one mailbox.
type Addr struct {
	Name   string // decoded display name (octets of encoded-words as they are)
	Local  string // unquoted local part
	Domain string
	// NameByLabel is the display name as a reader sees it that honours the charset label of every
	// encoded-word (utf-8 as is, us-ascii and iso-8859-1 transcoded, bytes of other charsets that
	// are not ASCII become U+FFFD); Labels are the charset labels met.
	NameByLabel string
	Labels      []string
}

// TranscodeByLabel turns the octets of an encoded-word into text according to its charset label.
func TranscodeByLabel(label string, raw string) string {
	switch strings.ToLower(label) {
	case "utf-8", "utf8":
		return raw
	case "iso-8859-1", "latin1", "iso_8859-1":
		var sb strings.Builder
		for i := 0; i < len(raw); i++ {
			sb.WriteRune(rune(raw[i]))
		}
		return sb.String()
	}
	var sb strings.Builder
	for i := 0; i < len(raw); i++ {
		if raw[i] < 0x80 {
			sb.WriteByte(raw[i])
		} else {
			sb.WriteRune(0xFFFD)
		}
	}
	return sb.String()
}

// DecodeWordsByLabel is DecodeWords for a reader that honours the charset label of every encoded-word
// (see TranscodeByLabel); labels lists the labels met.
func DecodeWordsByLabel(s string) (out string, labels []string) {
	var sb strings.Builder
	i := 0
	lastWasEW := false
	pendingWS := ""
	for i < len(s) {
		if s[i] == ' ' || s[i] == '\t' {
			j := i
			for j < len(s) && (s[j] == ' ' || s[j] == '\t') {
				j++
			}
			pendingWS = s[i:j]
			i = j
			continue
		}
		j := i
		for j < len(s) && s[j] != ' ' && s[j] != '\t' {
			j++
		}
		word := s[i:j]
		if dec, ok, _ := decodeOneOrMoreEW(word); ok {
			if !lastWasEW {
				sb.WriteString(pendingWS)
			}
			sb.WriteString(TranscodeByLabel(ewLabel(word), dec))
			labels = append(labels, ewLabel(word))
			lastWasEW = true
		} else {
			sb.WriteString(pendingWS)
			sb.WriteString(word)
			lastWasEW = false
		}
		pendingWS = ""
		i = j
	}
	sb.WriteString(pendingWS)
	return sb.String(), labels
}

// ewLabel returns the charset label of a token that is one encoded-word ("" otherwise).
func ewLabel(w string) string {
	if !strings.HasPrefix(w, "=?") || !strings.HasSuffix(w, "?=") {
		return ""
	}
	parts := strings.Split(w[2:len(w)-2], "?")
	if len(parts) != 3 {
		return ""
	}
	return strings.ToLower(parts[0])
}

func (a Addr) Spec() string { return a.Local + "@" + a.Domain }

// ParseAddressList parses an RFC 5322 mailbox-list (no groups). Display names are
// phrases: atoms and encoded-words (RFC 2047 decoded) and quoted-strings
// (un-escaped, not 2047-decoded), joined by single blanks.
func ParseAddressList(s string) ([]Addr, error) {
	p := &addrParser{s: s}
	var out []Addr
	for {
		p.skipCFWS()
		if p.eof() {
			break
		}
		a, err := p.mailbox()
		if err != nil {
			return out, err
		}
		out = append(out, a)
		p.skipCFWS()
		if p.eof() {
			break
		}
		if p.s[p.i] != ',' {
			return out, fmt.Errorf("expected ',' at %d in %q", p.i, s)
		}
		p.i++
	}
	if len(out) == 0 {
		return nil, fmt.Errorf("empty address list")
	}
	return out, nil
}

type addrParser struct {
	s string
	i int
}

func (p *addrParser) eof() bool { return p.i >= len(p.s) }

func (p *addrParser) skipCFWS() {
	for !p.eof() {
		c := p.s[p.i]
		if c == ' ' || c == '\t' || c == '\r' || c == '\n' {
			p.i++
			continue
		}
		if c == '(' {
			depth := 0
			for !p.eof() {
				c = p.s[p.i]
				if c == '\\' {
					p.i += 2
					continue
				}
				if c == '(' {
					depth++
				}
				if c == ')' {
					depth--
					if depth == 0 {
						p.i++
						break
					}
				}
				p.i++
			}
			continue
		}
		break
	}
}

func isAtext(c byte) bool {
	if c >= 128 {
		return true // RFC 6532
	}
	if c >= 'a' && c <= 'z' || c >= 'A' && c <= 'Z' || c >= '0' && c <= '9' {
		return true
	}
	return strings.IndexByte("!#$%&'*+-/=?^_`{|}~", c) >= 0
}

func (p *addrParser) quoted() (string, error) {
	// at '"'
	p.i++
	var sb strings.Builder
	for !p.eof() {
		c := p.s[p.i]
		if c == '\\' {
			if p.i+1 >= len(p.s) {
				return "", fmt.Errorf("dangling backslash")
			}
			sb.WriteByte(p.s[p.i+1])
			p.i += 2
			continue
		}
		if c == '"' {
			p.i++
			return sb.String(), nil
		}
		sb.WriteByte(c)
		p.i++
	}
	return "", fmt.Errorf("unterminated quoted-string in %q", p.s)
}

func (p *addrParser) mailbox() (Addr, error) {
	// collect words until '<' or '@'
	var words []string // decoded pieces
	var byLabel []string
	var labels []string
	var kinds []byte // 'a' atom, 'q' quoted, 'e' encoded
	var lastAtomRaw string
	for {
		p.skipCFWS()
		if p.eof() {
			break
		}
		c := p.s[p.i]
		if c == '<' {
			p.i++
			loc, dom, err := p.addrSpec()
			if err != nil {
				return Addr{}, err
			}
			p.skipCFWS()
			if p.eof() || p.s[p.i] != '>' {
				return Addr{}, fmt.Errorf("missing '>' at %d in %q", p.i, p.s)
			}
			p.i++
			// build name
			var sb, sl strings.Builder
			prevEW := false
			for k, w := range words {
				if k > 0 && !(prevEW && kinds[k] == 'e') {
					sb.WriteByte(' ')
					sl.WriteByte(' ')
				}
				sb.WriteString(w)
				sl.WriteString(byLabel[k])
				prevEW = kinds[k] == 'e'
			}
			return Addr{Name: sb.String(), Local: loc, Domain: dom, NameByLabel: sl.String(), Labels: labels}, nil
		}
		if c == '"' {
			st := p.i
			q, err := p.quoted()
			if err != nil {
				return Addr{}, err
			}
			// a quoted-string directly followed by '@' is a local part
			if !p.eof() && p.s[p.i] == '@' && len(words) == 0 {
				p.i = st
				loc, dom, err := p.addrSpec()
				return Addr{Local: loc, Domain: dom}, err
			}
			words = append(words, q)
			byLabel = append(byLabel, q)
			kinds = append(kinds, 'q')
			continue
		}
		if isAtext(c) || c == '.' {
			st := p.i
			for !p.eof() && (isAtext(p.s[p.i]) || p.s[p.i] == '.') {
				p.i++
			}
			w := p.s[st:p.i]
			if !p.eof() && p.s[p.i] == '@' && len(words) == 0 {
				p.i = st
				loc, dom, err := p.addrSpec()
				return Addr{Local: loc, Domain: dom}, err
			}
			lastAtomRaw = w
			if d, ok, _ := decodeOneOrMoreEW(w); ok {
				words = append(words, d)
				byLabel = append(byLabel, TranscodeByLabel(ewLabel(w), d))
				labels = append(labels, ewLabel(w))
				kinds = append(kinds, 'e')
			} else {
				words = append(words, w)
				byLabel = append(byLabel, w)
				kinds = append(kinds, 'a')
			}
			continue
		}
		return Addr{}, fmt.Errorf("unexpected %q at %d in %q", c, p.i, p.s)
	}
	_ = lastAtomRaw
	return Addr{}, fmt.Errorf("no addr-spec in %q", p.s)
}

func (p *addrParser) addrSpec() (local, domain string, err error) {
	p.skipCFWS()
	if p.eof() {
		return "", "", fmt.Errorf("empty addr-spec")
	}
	if p.s[p.i] == '"' {
		local, err = p.quoted()
		if err != nil {
			return
		}
	} else {
		st := p.i
		for !p.eof() && (isAtext(p.s[p.i]) || p.s[p.i] == '.') {
			p.i++
		}
		local = p.s[st:p.i]
		if local == "" {
			return "", "", fmt.Errorf("empty local part at %d in %q", p.i, p.s)
		}
	}
	if p.eof() || p.s[p.i] != '@' {
		return "", "", fmt.Errorf("missing '@' at %d in %q", p.i, p.s)
	}
	p.i++
	st := p.i
	if !p.eof() && p.s[p.i] == '[' {
		for !p.eof() && p.s[p.i] != ']' {
			p.i++
		}
		if p.eof() {
			return "", "", fmt.Errorf("unterminated domain literal")
		}
		p.i++
	} else {
		for !p.eof() && (isAtext(p.s[p.i]) || p.s[p.i] == '.') {
			p.i++
		}
	}
	domain = p.s[st:p.i]
	if domain == "" {
		return "", "", fmt.Errorf("empty domain in %q", p.s)
	}
	return
}

// ValidUTF8 is a convenience.
func ValidUTF8(s string) bool { return utf8.ValidString(s) }
