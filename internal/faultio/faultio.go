//go:build verif

// Package faultio holds the boundary monitors and fault injectors: a tracking
// net.Conn (Close / deadline / blocked-read observations, write faults) and
// fault-injecting io.Writers.
package faultio

import (
	"errors"
	"io"
	"net"
	"sync"
	"sync/atomic"
	"time"
)

var seq int64

// Tick returns the next value of the process-wide logical clock.
func Tick() int64 { return atomic.AddInt64(&seq, 1) }

var ErrInjectedWrite = errors.New("verif: injected transport write failure")
var ErrSink = errors.New("verif: injected sink failure")

// ReadObs is what the tracking conn saw at the entry of one Read call.
type ReadObs struct {
	Tick       int64
	At         time.Time
	Deadline   time.Time // read deadline armed at entry (zero = none)
	Returned   bool
	ReturnedAt time.Time
	Err        string
	N          int
	WasTimeout bool
}

// TrackConn wraps the client side of a connection.
type TrackConn struct {
	net.Conn
	ID int

	mu          sync.Mutex
	closeCalls  int
	closeTick   int64
	rdl, wdl    time.Time
	deadlineSet int
	reads       []*ReadObs
	writes      []*ReadObs // same record type for Write entries (Deadline = write deadline)
	written     int64
	// write fault: once `written` reaches FailWriteAt (>=0) every further Write fails
	FailWriteAt int64
	// KeepBytes records what the client wrote (for taps)
	KeepBytes bool
	Sent      []byte
	OnClose   func()
}

func NewTrackConn(c net.Conn, id int) *TrackConn {
	return &TrackConn{Conn: c, ID: id, FailWriteAt: -1}
}

func (t *TrackConn) Read(p []byte) (int, error) {
	t.mu.Lock()
	o := &ReadObs{Tick: Tick(), At: time.Now(), Deadline: t.rdl}
	if len(t.reads) < 4096 {
		t.reads = append(t.reads, o)
	}
	t.mu.Unlock()
	n, err := t.Conn.Read(p)
	t.mu.Lock()
	o.Returned, o.ReturnedAt, o.N = true, time.Now(), n
	if err != nil {
		o.Err = err.Error()
		var ne net.Error
		if errors.As(err, &ne) && ne.Timeout() {
			o.WasTimeout = true
		}
	}
	t.mu.Unlock()
	return n, err
}

func (t *TrackConn) Write(p []byte) (int, error) {
	t.mu.Lock()
	o := &ReadObs{Tick: Tick(), At: time.Now(), Deadline: t.wdl}
	if len(t.writes) < 4096 {
		t.writes = append(t.writes, o)
	}
	allow := len(p)
	fail := false
	if t.FailWriteAt >= 0 {
		room := t.FailWriteAt - t.written
		if room < int64(len(p)) {
			if room < 0 {
				room = 0
			}
			allow = int(room)
			fail = true
		}
	}
	t.mu.Unlock()
	n := 0
	var err error
	if allow > 0 {
		n, err = t.Conn.Write(p[:allow])
	}
	t.mu.Lock()
	t.written += int64(n)
	if t.KeepBytes {
		t.Sent = append(t.Sent, p[:n]...)
	}
	o.Returned, o.ReturnedAt, o.N = true, time.Now(), n
	if err != nil {
		o.Err = err.Error()
		var ne net.Error
		if errors.As(err, &ne) && ne.Timeout() {
			o.WasTimeout = true
		}
	}
	t.mu.Unlock()
	if err == nil && fail {
		err = ErrInjectedWrite
	}
	return n, err
}

func (t *TrackConn) Close() error {
	t.mu.Lock()
	t.closeCalls++
	if t.closeCalls == 1 {
		t.closeTick = Tick()
	}
	cb := t.OnClose
	t.mu.Unlock()
	if cb != nil {
		cb()
	}
	return t.Conn.Close()
}

func (t *TrackConn) SetDeadline(d time.Time) error {
	t.mu.Lock()
	t.rdl, t.wdl = d, d
	t.deadlineSet++
	t.mu.Unlock()
	return t.Conn.SetDeadline(d)
}

func (t *TrackConn) SetReadDeadline(d time.Time) error {
	t.mu.Lock()
	t.rdl = d
	t.deadlineSet++
	t.mu.Unlock()
	return t.Conn.SetReadDeadline(d)
}

func (t *TrackConn) SetWriteDeadline(d time.Time) error {
	t.mu.Lock()
	t.wdl = d
	t.deadlineSet++
	t.mu.Unlock()
	return t.Conn.SetWriteDeadline(d)
}

// Closed reports whether Close has been called on the conn.
func (t *TrackConn) Closed() bool {
	t.mu.Lock()
	defer t.mu.Unlock()
	return t.closeCalls > 0
}

func (t *TrackConn) CloseCalls() int {
	t.mu.Lock()
	defer t.mu.Unlock()
	return t.closeCalls
}

func (t *TrackConn) Written() int64 {
	t.mu.Lock()
	defer t.mu.Unlock()
	return t.written
}

func (t *TrackConn) DeadlineSets() int {
	t.mu.Lock()
	defer t.mu.Unlock()
	return t.deadlineSet
}

// PendingIO returns the Read/Write calls that have been entered but not returned.
func (t *TrackConn) PendingIO() (reads, writes []ReadObs) {
	t.mu.Lock()
	defer t.mu.Unlock()
	for _, o := range t.reads {
		if !o.Returned {
			reads = append(reads, *o)
		}
	}
	for _, o := range t.writes {
		if !o.Returned {
			writes = append(writes, *o)
		}
	}
	return
}

// IOLog returns copies of all recorded Read and Write observations.
func (t *TrackConn) IOLog() (reads, writes []ReadObs) {
	t.mu.Lock()
	defer t.mu.Unlock()
	for _, o := range t.reads {
		reads = append(reads, *o)
	}
	for _, o := range t.writes {
		writes = append(writes, *o)
	}
	return
}

func (t *TrackConn) SentBytes() []byte {
	t.mu.Lock()
	defer t.mu.Unlock()
	return append([]byte(nil), t.Sent...)
}

// Sink is an io.Writer that accepts exactly Limit bytes and fails persistently
// afterwards (Limit < 0: never fails). With Short set it reports short writes as
// (n < len(p), io.ErrShortWrite) instead of a hard error on the failing call.
type Sink struct {
	Limit    int64
	Short    bool
	Accepted int64
	Buf      []byte
	Keep     bool
	Calls    int
	Failed   bool
	// Transient: only the write that crosses Limit is refused, every later write is accepted again
	// (a destination that fails once, e.g. a quota hit that is lifted, EINTR-like errors)
	Transient bool
	recovered bool
	// PerCall > 0: a destination that takes at most PerCall bytes of a write and reports the short count WITHOUT an
	// error (it breaks the io.Writer contract; the caller still knows from the count that bytes are missing)
	PerCall    int
	ShortCalls int
}

func (s *Sink) Write(p []byte) (int, error) {
	s.Calls++
	if s.PerCall > 0 && len(p) > s.PerCall {
		s.Accepted += int64(s.PerCall)
		if s.Keep {
			s.Buf = append(s.Buf, p[:s.PerCall]...)
		}
		s.Failed = true
		s.ShortCalls++
		return s.PerCall, nil
	}
	if s.Limit < 0 || s.recovered {
		s.Accepted += int64(len(p))
		if s.Keep {
			s.Buf = append(s.Buf, p...)
		}
		return len(p), nil
	}
	room := s.Limit - s.Accepted
	if room >= int64(len(p)) {
		s.Accepted += int64(len(p))
		if s.Keep {
			s.Buf = append(s.Buf, p...)
		}
		return len(p), nil
	}
	if room < 0 {
		room = 0
	}
	s.Accepted += room
	if s.Keep {
		s.Buf = append(s.Buf, p[:room]...)
	}
	s.Failed = true
	if s.Transient {
		s.recovered = true
	}
	if s.Short {
		return int(room), io.ErrShortWrite
	}
	return int(room), ErrSink
}
