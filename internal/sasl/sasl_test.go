//go:build verif

package sasl

import (
	"crypto/hmac"
	"crypto/md5"
	"encoding/hex"
	"math/rand"
	"strings"
	"testing"
)

func TestSelfTest(t *testing.T) {
	if err := SelfTest(); err != nil {
		t.Fatal(err)
	}
}

func TestVerifyPlain(t *testing.T) {
	for _, c := range []struct {
		msg, user, pass string
		ok              bool
		reason          string // substring
	}{
		{"\x00tim\x00tanstaaftanstaaf", "tim", "tanstaaftanstaaf", true, ""},
		{"tim\x00tim\x00tanstaaftanstaaf", "tim", "tanstaaftanstaaf", true, ""},
		{"\x00jürgen\x00päss wörd", "jürgen", "päss wörd", true, ""},
		{"Ursel\x00Kurt\x00xipj3plmq", "Kurt", "xipj3plmq", false, "authzid"},
		{"\x00tim\x00wrong", "tim", "tanstaaftanstaaf", false, "password mismatch"},
		{"\x00tom\x00tanstaaftanstaaf", "tim", "tanstaaftanstaaf", false, "authcid mismatch"},
		{"\x00Tim\x00tanstaaftanstaaf", "tim", "tanstaaftanstaaf", false, "authcid mismatch"},
		{"tim\x00tanstaaftanstaaf", "tim", "tanstaaftanstaaf", false, "syntax"},
		{"\x00tim\x00pw\x00", "tim", "pw", false, "syntax"},
		{"\x00tim\x00p\x00w", "tim", "p\x00w", false, "syntax"},
		{"", "", "", false, "syntax"},
		{"\x00\x00", "", "", false, "empty authcid"},
		{"\x00tim\x00", "tim", "", false, "empty passwd"},
		{"\x00\x00pw", "", "pw", false, "empty authcid"},
		{"\x00tim\x00p\xffw", "tim", "p\xffw", false, "UTF-8"},
		{"\x00tim\x00pw ", "tim", "pw", false, "password mismatch"},
	} {
		ok, reason := VerifyPlain([]byte(c.msg), c.user, c.pass)
		if ok != c.ok || !strings.Contains(reason, c.reason) || ok && reason != "" {
			t.Errorf("VerifyPlain(%q, %q, %q) = %v, %q; want %v, ~%q", c.msg, c.user, c.pass, ok, reason, c.ok, c.reason)
		}
	}
}

func TestVerifyLogin(t *testing.T) {
	for _, c := range []struct {
		u, p, user, pass string
		ok               bool
	}{
		{"tim", "pw", "tim", "pw", true},
		{"", "", "", "", true},
		{"a b", "p\x00w", "a b", "p\x00w", true},
		{"tim", "pw", "tim", "pW", false},
		{"tim", "pw", "tom", "pw", false},
		{"tim\r\n", "pw", "tim", "pw", false},
		{"tim", "pw\x00", "tim", "pw", false},
		{"dGlt", "cHc=", "tim", "pw", false}, // still base64: the caller forgot to decode
	} {
		ok, reason := VerifyLogin([]byte(c.u), []byte(c.p), c.user, c.pass)
		if ok != c.ok || ok == (reason != "") {
			t.Errorf("VerifyLogin(%q, %q, %q, %q) = %v, %q; want %v", c.u, c.p, c.user, c.pass, ok, reason, c.ok)
		}
	}
}

func cramDigest(secret, challenge string) string {
	m := hmac.New(md5.New, []byte(secret))
	m.Write([]byte(challenge))
	return hex.EncodeToString(m.Sum(nil))
}

func TestVerifyCramMD5(t *testing.T) {
	const ch = "<1896.697170952@postoffice.reston.mci.net>"
	const d = "b913a602c7eda7a495b4e6e7334d3890"
	if got := cramDigest("tanstaaftanstaaf", ch); got != d {
		t.Fatalf("test helper digest %s", got)
	}
	long := strings.Repeat("k", 100) // key longer than the MD5 block size
	for _, c := range []struct {
		resp, ch, user, secret string
		ok                     bool
		reason                 string
	}{
		{"tim " + d, ch, "tim", "tanstaaftanstaaf", true, ""},
		{"tim the enchanter " + cramDigest("s", "<c>"), "<c>", "tim the enchanter", "s", true, ""},
		{" " + cramDigest("s", "<c>"), "<c>", "", "s", true, ""},
		{"u " + cramDigest(long, "<c>"), "<c>", "u", long, true, ""},
		{"u " + cramDigest("", ""), "", "u", "", true, ""},
		{"tim " + d, ch, "tim", "tanstaaftanstaag", false, "digest mismatch"},
		{"tim " + d, ch + " ", "tim", "tanstaaftanstaaf", false, "digest mismatch"},
		{"tom " + d, ch, "tim", "tanstaaftanstaaf", false, "user mismatch"},
		{"tim  " + d, ch, "tim", "tanstaaftanstaaf", false, "user mismatch"},
		{"tim " + strings.ToUpper(d), ch, "tim", "tanstaaftanstaaf", false, "syntax"},
		{"tim " + d[:31], ch, "tim", "tanstaaftanstaaf", false, "syntax"},
		{"tim " + d + "0", ch, "tim", "tanstaaftanstaaf", false, "syntax"},
		{"tim " + d + " ", ch, "tim", "tanstaaftanstaaf", false, "syntax"},
		{"tim " + d + "\r\n", ch, "tim", "tanstaaftanstaaf", false, "syntax"},
		{"tim" + d, ch, "tim", "tanstaaftanstaaf", false, "syntax"},
		{"", ch, "tim", "tanstaaftanstaaf", false, "syntax"},
	} {
		ok, reason := VerifyCramMD5([]byte(c.resp), []byte(c.ch), c.user, c.secret)
		if ok != c.ok || !strings.Contains(reason, c.reason) || ok && reason != "" {
			t.Errorf("VerifyCramMD5(%q, %q, %q, %q) = %v, %q; want %v, ~%q", c.resp, c.ch, c.user, c.secret, ok, reason, c.ok, c.reason)
		}
	}
}

func TestVerifyXOAuth2(t *testing.T) {
	for _, c := range []struct {
		msg, user, token string
		ok               bool
		reason           string
	}{
		{"user=someuser@example.com\x01auth=Bearer ya29.vF9dft4qmTc2Nvb3RlckBhdHRhdmlzdGEuY29tCg\x01\x01",
			"someuser@example.com", "ya29.vF9dft4qmTc2Nvb3RlckBhdHRhdmlzdGEuY29tCg", true, ""},
		{"user=\x01auth=Bearer \x01\x01", "", "", true, ""},
		{"user=a b=c\x01auth=Bearer t k\x01\x01", "a b=c", "t k", true, ""},
		{"user=u\x01auth=Bearer t\x01\x01", "u", "T", false, "token mismatch"},
		{"user=u\x01auth=Bearer t\x01\x01", "v", "t", false, "user mismatch"},
		{"user=u\x01auth=Bearer t\x01", "u", "t", false, "syntax"},
		{"user=u\x01auth=Bearer t", "u", "t", false, "syntax"},
		{"user=u\x01auth=Bearer t\x01\x01\x01", "u", "t", false, "syntax"},
		{"user=u\x01auth=bearer t\x01\x01", "u", "t", false, "syntax"},
		{"user=u\x01auth=Bearer  t\x01\x01", "u", "t", false, "token mismatch"},
		{"User=u\x01auth=Bearer t\x01\x01", "u", "t", false, "syntax"},
		{"user=u\x01\x01auth=Bearer t\x01\x01", "u", "t", false, "syntax"},
		{"user=u\x01host=h\x01auth=Bearer t\x01\x01", "u", "t", false, "syntax"},
		{"user=u\x01auth=Bearer t\x01x=y\x01\x01", "u", "t", false, "syntax"},
		{"user=u\x01v\x01auth=Bearer t\x01\x01", "u\x01v", "t", false, "syntax"},
		{"n,a=u,\x01auth=Bearer t\x01\x01", "u", "t", false, "syntax"}, // OAUTHBEARER is another mechanism
		{"", "", "", false, "syntax"},
	} {
		ok, reason := VerifyXOAuth2([]byte(c.msg), c.user, c.token)
		if ok != c.ok || !strings.Contains(reason, c.reason) || ok && reason != "" {
			t.Errorf("VerifyXOAuth2(%q, %q, %q) = %v, %q; want %v, ~%q", c.msg, c.user, c.token, ok, reason, c.ok, c.reason)
		}
	}
}

// Random and mutated inputs through the one-shot verifiers: nothing may panic,
// and nothing but the exact message may be accepted.
func TestOneShotFuzz(t *testing.T) {
	rng := rand.New(rand.NewSource(1))
	const ch = "<1.2@h>"
	valid := [][]byte{
		[]byte("\x00user\x00pass"),
		[]byte("user " + cramDigest("pass", ch)),
		[]byte("user=user\x01auth=Bearer pass\x01\x01"),
	}
	check := func(m []byte) {
		okP, _ := VerifyPlain(m, "user", "pass")
		okC, _ := VerifyCramMD5(m, []byte(ch), "user", "pass")
		okX, _ := VerifyXOAuth2(m, "user", "pass")
		okL1, _ := VerifyLogin(m, []byte("pass"), "user", "pass")
		okL2, _ := VerifyLogin([]byte("user"), m, "user", "pass")
		s := string(m)
		if okP != (s == string(valid[0]) || s == "user\x00user\x00pass") || okC != (s == string(valid[1])) || okX != (s == string(valid[2])) {
			t.Fatalf("wrong verdict for %q (plain=%v cram=%v xoauth2=%v)", m, okP, okC, okX)
		}
		if okL1 != (string(m) == "user") || okL2 != (string(m) == "pass") {
			t.Fatalf("LOGIN verdict wrong for %q", m)
		}
	}
	for _, v := range valid {
		check(v)
	}
	for n := 0; n < 4000; n++ {
		check(randBytes(rng, rng.Intn(48)))
		check(mutate(rng, valid[n%3]))
	}
}

// randBytes is biased towards the octets that matter to the parsers.
func randBytes(rng *rand.Rand, n int) []byte {
	const special = "\x00\x01 ,=,=,=nyparcmsiv23CDabcdef0123456789+/\r\n\xff\xc3\xa9"
	b := make([]byte, n)
	for i := range b {
		if rng.Intn(3) == 0 {
			b[i] = byte(rng.Intn(256))
		} else {
			b[i] = special[rng.Intn(len(special))]
		}
	}
	return b
}

// mutate applies 1-3 random edits (replace, insert, delete, truncate,
// duplicate a slice) to a copy of m.
func mutate(rng *rand.Rand, m []byte) []byte {
	b := append([]byte(nil), m...)
	for k := 1 + rng.Intn(3); k > 0; k-- {
		if len(b) == 0 {
			b = randBytes(rng, 1+rng.Intn(4))
			continue
		}
		i := rng.Intn(len(b))
		switch rng.Intn(5) {
		case 0:
			b[i] = randBytes(rng, 1)[0]
		case 1:
			b = append(b[:i], append(randBytes(rng, 1+rng.Intn(3)), b[i:]...)...)
		case 2:
			b = append(b[:i], b[i+1:]...)
		case 3:
			b = b[:i]
		case 4:
			j := i + rng.Intn(len(b)-i+1)
			b = append(b[:j], append(append([]byte(nil), b[i:j]...), b[j:]...)...)
		}
	}
	return b
}
