//go:build verif

package sasl

import (
	"bytes"
	"crypto/hmac"
	"crypto/sha1"
	"crypto/sha256"
	"encoding/base64"
	"errors"
	"fmt"
	"hash"
	"strconv"
	"strings"
	"unicode/utf8"
)

// Reason codes of VerifyClientFinal, in the order in which the checks are made.
const (
	ReasonSyntax        = "syntax"
	ReasonCBindMismatch = "cbind-mismatch"
	ReasonNonceMismatch = "nonce-mismatch"
	ReasonUserMismatch  = "user-mismatch"
	ReasonProofInvalid  = "proof-invalid"
)

// ScramError is the error type of ParseClientFirst. Code is one of
//
//	"syntax"     the message does not match client-first-message of RFC 5802 §7
//	"mext"       an "m=" attribute is present (RFC 5802 §5.1: MUST fail)
//	"cbind-flag" well-formed, but the gs2-cbind-flag does not fit the mechanism
//	             (p= on a non-PLUS mechanism, n/y on a -PLUS mechanism, or a
//	             channel binding type other than cfg.CBType)
//	"config"     cfg.Hash is not a supported hash
type ScramError struct{ Code, Detail string }

func (e *ScramError) Error() string { return "scram " + e.Code + ": " + e.Detail }

// ScramConfig is what the server knows before the exchange starts.
type ScramConfig struct {
	Hash        string // "SHA-1" or "SHA-256"
	Plus        bool   // mechanism is a -PLUS variant: client MUST use gs2-cbind-flag "p=<CBType>" and c= must carry header+CBData
	User        string // expected user name AFTER unescaping =2C/=3D (already normalised form the server stores)
	Password    []byte // normalised password bytes the server derives its keys from
	Salt        []byte
	Iterations  int    // callers pass >= 1
	ServerNonce string // suffix appended to the client nonce (printable, no comma)
	CBType      string // "tls-unique" or "tls-exporter" (only for Plus)
	CBData      []byte // the channel binding data the SERVER computed for this TLS connection (only for Plus)
	// Ext: optional extensions of the server-first message (RFC 5802 section 7: nonce "," salt "," iteration-count
	// ["," extensions]), without the leading comma, e.g. "t=ext1". A client has to ignore them; they are part of AuthMessage.
	Ext string
}

// ScramExchange is the server side of one SCRAM exchange. Cfg may be changed
// between calls (e.g. CBData once the TLS handshake is done); the derived keys
// follow Cfg.Hash/Password/Salt/Iterations.
type ScramExchange struct {
	Cfg                ScramConfig
	GS2Header          string // e.g. "n,," or "p=tls-unique,,"  (as received)
	AuthzID            string // a= value after =2C / =3D unescaping ("" if absent); NOT part of the acceptance decision
	UserRaw            string // n= value as received (escaped form)
	User               string // after =2C / =3D unescaping
	ClientNonce        string
	ClientFirstBare    string
	ServerFirstMsg     string
	ClientFinalNoProof string
	AuthMessage        string
	// derived keys
	SaltedPassword, ClientKey, StoredKey, ServerKey []byte

	// Detail is a human-readable explanation of the last failure reported by
	// VerifyClientFinal ("" after an acceptance).
	Detail string

	derivedFor string
}

// NewScram starts an exchange. The keys are derived here (and re-derived
// whenever the relevant Cfg fields change).
func NewScram(cfg ScramConfig) *ScramExchange {
	x := &ScramExchange{Cfg: cfg}
	x.derive()
	return x
}

func hashNew(name string) func() hash.Hash {
	switch strings.ToUpper(strings.ReplaceAll(name, "-", "")) {
	case "SHA1":
		return sha1.New
	case "SHA256":
		return sha256.New
	}
	return nil
}

func hmacSum(h func() hash.Hash, key []byte, data string) []byte {
	m := hmac.New(h, key)
	m.Write([]byte(data))
	return m.Sum(nil)
}

// Hi is PBKDF2-HMAC with dkLen = hash size (RFC 5802 §2.2):
//
//	U1 = HMAC(str, salt + INT(1)); Ui = HMAC(str, Ui-1); Hi = U1 XOR ... XOR Ui
//
// Callers pass iterations >= 1 (smaller values yield U1). An unsupported hash
// name yields nil.
func Hi(hash string, password, salt []byte, iterations int) []byte {
	h := hashNew(hash)
	if h == nil {
		return nil
	}
	mac := hmac.New(h, password)
	mac.Write(salt)
	mac.Write([]byte{0, 0, 0, 1})
	u := mac.Sum(nil)
	out := append([]byte(nil), u...)
	for i := 2; i <= iterations; i++ {
		mac.Reset()
		mac.Write(u)
		u = mac.Sum(u[:0])
		for j := range out {
			out[j] ^= u[j]
		}
	}
	return out
}

// derive (re)computes the key hierarchy of RFC 5802 §3 from Cfg.
func (x *ScramExchange) derive() bool {
	h := hashNew(x.Cfg.Hash)
	if h == nil {
		x.SaltedPassword, x.ClientKey, x.StoredKey, x.ServerKey, x.derivedFor = nil, nil, nil, nil, ""
		return false
	}
	key := fmt.Sprintf("%s|%d|%x|%x", x.Cfg.Hash, x.Cfg.Iterations, x.Cfg.Salt, x.Cfg.Password)
	if key == x.derivedFor {
		return true
	}
	x.SaltedPassword = Hi(x.Cfg.Hash, x.Cfg.Password, x.Cfg.Salt, x.Cfg.Iterations)
	x.ClientKey = hmacSum(h, x.SaltedPassword, "Client Key")
	sk := h()
	sk.Write(x.ClientKey)
	x.StoredKey = sk.Sum(nil)
	x.ServerKey = hmacSum(h, x.SaltedPassword, "Server Key")
	x.derivedFor = key
	return true
}

// ---- lexical helpers (RFC 5802 §7) ----

func isAlpha(c byte) bool { return c >= 'A' && c <= 'Z' || c >= 'a' && c <= 'z' }

// printable = %x21-2B / %x2D-7E, at least one.
func isPrintable(s string) bool {
	for i := 0; i < len(s); i++ {
		if c := s[i]; c < 0x21 || c > 0x7e || c == ',' {
			return false
		}
	}
	return s != ""
}

// cb-name = 1*(ALPHA / DIGIT / "." / "-")
func isCBName(s string) bool {
	for i := 0; i < len(s); i++ {
		if c := s[i]; !(isAlpha(c) || c >= '0' && c <= '9' || c == '.' || c == '-') {
			return false
		}
	}
	return s != ""
}

// unescapeSaslname decodes saslname = 1*(value-safe-char / "=2C" / "=3D").
// Per the prose of RFC 5802 §5.1 ("'=' not followed by either '2C' or '3D'
// ... MUST fail") only the upper-case escapes are taken.
func unescapeSaslname(s string) (string, error) {
	if s == "" {
		return "", errors.New("empty saslname")
	}
	var b strings.Builder
	for i := 0; i < len(s); i++ {
		switch c := s[i]; {
		case c == 0 || c == ',':
			return "", fmt.Errorf("raw %q in saslname", c)
		case c == '=' && strings.HasPrefix(s[i:], "=2C"):
			b.WriteByte(',')
			i += 2
		case c == '=' && strings.HasPrefix(s[i:], "=3D"):
			b.WriteByte('=')
			i += 2
		case c == '=':
			return "", fmt.Errorf("'=' at offset %d of saslname is not followed by 2C or 3D", i)
		default:
			b.WriteByte(c)
		}
	}
	return b.String(), nil
}

// The attribute letters RFC 5802 defines itself; they have fixed positions in
// the messages and are therefore not taken as "extensions".
const definedAttrs = "anmrcsipve"

// checkExtensions validates extensions = attr-val *("," attr-val) with
// attr-val = ALPHA "=" 1*value-char, already split at the commas.
func checkExtensions(ext []string) (code, detail string) {
	for _, e := range ext {
		if len(e) < 3 || !isAlpha(e[0]) || e[1] != '=' {
			return "syntax", fmt.Sprintf("malformed extension attr-val %q", e)
		}
		if e[0] == 'm' {
			return "mext", fmt.Sprintf("mandatory extension %q is not supported", e)
		}
		if strings.IndexByte(definedAttrs, e[0]) >= 0 {
			return "syntax", fmt.Sprintf("attribute %q at the position of an extension", e)
		}
	}
	return "", ""
}

// wellFormedText is the part of the grammar common to all attributes: UTF-8
// without NUL.
func wellFormedText(s string) bool { return utf8.ValidString(s) && strings.IndexByte(s, 0) < 0 }

// strictB64 decodes the base64 production of RFC 5802 §7: standard alphabet,
// mandatory padding, no line breaks, no stray trailing bits.
func strictB64(s string) ([]byte, error) {
	if strings.ContainsAny(s, "\r\n") {
		return nil, errors.New("line break inside base64")
	}
	return base64.StdEncoding.Strict().DecodeString(s)
}

// ---- message handling ----

// ParseClientFirst parses and validates the client-first-message strictly per
// RFC 5802 §7:
//
//	gs2-cbind-flag "," [ "a=" saslname ] "," [reserved-mext ","] "n=" saslname "," "r=" c-nonce [ "," extensions ]
//
// On success the exchange state is replaced by the parsed values (a previous
// server-first / client-final is forgotten); on error the state is cleared. It
// does not compare the user name with Cfg.User: see UserMatches and
// VerifyClientFinal. The returned error is a *ScramError.
func (x *ScramExchange) ParseClientFirst(msg []byte) error {
	x.GS2Header, x.AuthzID, x.UserRaw, x.User, x.ClientNonce, x.ClientFirstBare = "", "", "", "", "", ""
	x.ServerFirstMsg, x.ClientFinalNoProof, x.AuthMessage, x.Detail = "", "", "", ""
	if !x.derive() {
		return &ScramError{"config", fmt.Sprintf("unsupported hash %q", x.Cfg.Hash)}
	}
	syntax := func(f string, a ...any) error { return &ScramError{"syntax", fmt.Sprintf(f, a...)} }
	s := string(msg)
	if !wellFormedText(s) {
		return syntax("message is not NUL-free UTF-8")
	}
	p := strings.SplitN(s, ",", 3)
	if len(p) != 3 {
		return syntax("gs2-header incomplete (%d commas)", len(p)-1)
	}
	flag, az, bare := p[0], p[1], p[2]
	cbName := ""
	switch {
	case flag == "n" || flag == "y":
	case strings.HasPrefix(flag, "p="):
		if cbName = flag[2:]; !isCBName(cbName) {
			return syntax("malformed cb-name %q", cbName)
		}
	default:
		return syntax("malformed gs2-cbind-flag %q", flag)
	}
	authz := ""
	if az != "" {
		if !strings.HasPrefix(az, "a=") {
			return syntax("second gs2-header field %q is not an authzid", az)
		}
		var err error
		if authz, err = unescapeSaslname(az[2:]); err != nil {
			return syntax("authzid: %v", err)
		}
	}
	f := strings.Split(bare, ",")
	if strings.HasPrefix(f[0], "m=") {
		return &ScramError{"mext", fmt.Sprintf("mandatory extension %q is not supported", f[0])}
	}
	if !strings.HasPrefix(f[0], "n=") {
		return syntax("client-first-message-bare starts with %q, want n=", f[0])
	}
	user, err := unescapeSaslname(f[0][2:])
	if err != nil {
		return syntax("username: %v", err)
	}
	if len(f) < 2 || !strings.HasPrefix(f[1], "r=") {
		return syntax("no r= after the username")
	}
	if !isPrintable(f[1][2:]) {
		return syntax("c-nonce %q is not 1*printable", f[1][2:])
	}
	if code, detail := checkExtensions(f[2:]); code != "" {
		return &ScramError{code, detail}
	}
	switch {
	case cbName != "" && !x.Cfg.Plus:
		return &ScramError{"cbind-flag", fmt.Sprintf("flag %q on a mechanism without channel binding", flag)}
	case cbName == "" && x.Cfg.Plus:
		return &ScramError{"cbind-flag", fmt.Sprintf("flag %q on a -PLUS mechanism, want p=%s", flag, x.Cfg.CBType)}
	case cbName != x.Cfg.CBType && x.Cfg.Plus:
		return &ScramError{"cbind-flag", fmt.Sprintf("channel binding type %q, server supports %q", cbName, x.Cfg.CBType)}
	}
	x.GS2Header = flag + "," + az + ","
	x.AuthzID, x.UserRaw, x.User = authz, f[0][2:], user
	x.ClientNonce, x.ClientFirstBare = f[1][2:], bare
	return nil
}

// UserMatches reports whether the (unescaped) user name of the client-first
// message is the one the server holds.
func (x *ScramExchange) UserMatches() bool { return x.ClientFirstBare != "" && x.User == x.Cfg.User }

// ServerFirst returns "r=" clientNonce+ServerNonce ",s=" base64(salt) ",i="
// iterations and records it as sent. Call it after ParseClientFirst.
func (x *ScramExchange) ServerFirst() []byte {
	x.ServerFirstMsg = "r=" + x.ClientNonce + x.Cfg.ServerNonce +
		",s=" + base64.StdEncoding.EncodeToString(x.Cfg.Salt) +
		",i=" + strconv.Itoa(x.Cfg.Iterations)
	if x.Cfg.Ext != "" {
		x.ServerFirstMsg += "," + x.Cfg.Ext
	}
	return []byte(x.ServerFirstMsg)
}

// SetServerFirst records an arbitrary (possibly adversarial) server-first
// message as the one that went over the wire.
func (x *ScramExchange) SetServerFirst(msg []byte) { x.ServerFirstMsg = string(msg) }

// SetClientFinalNoProof sets the third part of AuthMessage by hand.
func (x *ScramExchange) SetClientFinalNoProof(s string) { x.ClientFinalNoProof = s }

// sentNonce extracts the nonce of the recorded server-first message
// ([reserved-mext ","] "r=" nonce "," ...).
func (x *ScramExchange) sentNonce() (string, bool) {
	f := strings.SplitN(x.ServerFirstMsg, ",", 3)
	if strings.HasPrefix(f[0], "m=") && len(f) > 1 {
		f = f[1:]
	}
	if !strings.HasPrefix(f[0], "r=") {
		return "", false
	}
	return f[0][2:], true
}

func (x *ScramExchange) authMessage() string {
	x.AuthMessage = x.ClientFirstBare + "," + x.ServerFirstMsg + "," + x.ClientFinalNoProof
	return x.AuthMessage
}

// VerifyClientFinal parses the client-final-message
//
//	"c=" base64(cbind-input) ",r=" nonce [ "," extensions ] ",p=" base64(ClientProof)
//
// strictly and makes the acceptance decision. The checks, in this order, and
// the reason reported for the first one that fails:
//
//	"syntax"          grammar (also: no client-first / server-first recorded yet)
//	"cbind-mismatch"  cbind-input != GS2Header [+ Cfg.CBData if the flag is p=]
//	                  (a p= exchange with empty Cfg.CBData never matches)
//	"nonce-mismatch"  r= differs from the nonce of ServerFirstMsg
//	"user-mismatch"   User != Cfg.User
//	"proof-invalid"   H(ClientProof XOR HMAC(StoredKey, AuthMessage)) != StoredKey
//
// As soon as the ",p=" split is possible, ClientFinalNoProof and AuthMessage
// are recorded, whatever the verdict.
func (x *ScramExchange) VerifyClientFinal(msg []byte) (ok bool, reason string) {
	fail := func(code, f string, a ...any) (bool, string) {
		x.Detail = fmt.Sprintf(f, a...)
		return false, code
	}
	x.Detail = ""
	h := hashNew(x.Cfg.Hash)
	if !x.derive() {
		return fail(ReasonSyntax, "unsupported hash %q", x.Cfg.Hash)
	}
	if x.ClientFirstBare == "" || x.ServerFirstMsg == "" {
		return fail(ReasonSyntax, "client-final without a preceding client-first and server-first")
	}
	s := string(msg)
	if !wellFormedText(s) {
		return fail(ReasonSyntax, "message is not NUL-free UTF-8")
	}
	i := strings.LastIndex(s, ",p=")
	if i < 0 {
		return fail(ReasonSyntax, "no ,p= attribute")
	}
	x.ClientFinalNoProof = s[:i]
	authMessage := x.authMessage()
	proof, err := strictB64(s[i+3:])
	if err != nil {
		return fail(ReasonSyntax, "proof: %v", err)
	}
	f := strings.Split(x.ClientFinalNoProof, ",")
	if len(f) < 2 || !strings.HasPrefix(f[0], "c=") || !strings.HasPrefix(f[1], "r=") {
		return fail(ReasonSyntax, "want c=...,r=... before the proof, got %q", x.ClientFinalNoProof)
	}
	cbind, err := strictB64(f[0][2:])
	if err != nil {
		return fail(ReasonSyntax, "channel-binding: %v", err)
	}
	nonce := f[1][2:]
	if !isPrintable(nonce) {
		return fail(ReasonSyntax, "nonce %q is not 1*printable", nonce)
	}
	if _, detail := checkExtensions(f[2:]); detail != "" {
		return fail(ReasonSyntax, "%s", detail)
	}

	want := []byte(x.GS2Header)
	if strings.HasPrefix(x.GS2Header, "p=") {
		if len(x.Cfg.CBData) == 0 {
			return fail(ReasonCBindMismatch, "server has no channel binding data for this connection")
		}
		want = append(want, x.Cfg.CBData...)
	}
	if !bytes.Equal(cbind, want) {
		return fail(ReasonCBindMismatch, "cbind-input %q, want %q", cbind, want)
	}
	if sent, found := x.sentNonce(); !found || nonce != sent {
		return fail(ReasonNonceMismatch, "r=%q, server-first carried %q", nonce, sent)
	}
	if x.User != x.Cfg.User {
		return fail(ReasonUserMismatch, "user %q, want %q", x.User, x.Cfg.User)
	}
	if len(proof) != len(x.StoredKey) {
		return fail(ReasonProofInvalid, "proof has %d octets, want %d", len(proof), len(x.StoredKey))
	}
	clientKey := hmacSum(h, x.StoredKey, authMessage) // ClientSignature
	for j := range clientKey {
		clientKey[j] ^= proof[j]
	}
	sk := h()
	sk.Write(clientKey)
	if !eq(sk.Sum(nil), x.StoredKey) {
		return fail(ReasonProofInvalid, "H(ClientProof XOR ClientSignature) != StoredKey")
	}
	return true, ""
}

// ServerFinal returns "v=" base64(HMAC(ServerKey, AuthMessage)) for the
// current state, AuthMessage = ClientFirstBare + "," + ServerFirstMsg + "," +
// ClientFinalNoProof, each part being whatever has been recorded so far
// (possibly ""). It returns nil only for an unsupported Cfg.Hash.
func (x *ScramExchange) ServerFinal() []byte {
	h := hashNew(x.Cfg.Hash)
	if !x.derive() {
		return nil
	}
	return []byte("v=" + base64.StdEncoding.EncodeToString(hmacSum(h, x.ServerKey, x.authMessage())))
}

// ScramServerFinal computes a server-final "v=" message for arbitrary inputs
// (to forge the server-final of another exchange / key / empty state). It
// returns nil for an unsupported hash.
func ScramServerFinal(hash string, password, salt []byte, iterations int, authMessage string) []byte {
	h := hashNew(hash)
	if h == nil {
		return nil
	}
	serverKey := hmacSum(h, Hi(hash, password, salt, iterations), "Server Key")
	return []byte("v=" + base64.StdEncoding.EncodeToString(hmacSum(h, serverKey, authMessage)))
}
