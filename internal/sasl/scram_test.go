//go:build verif

package sasl

import (
	"bytes"
	"crypto/hmac"
	"encoding/base64"
	"encoding/hex"
	"errors"
	"fmt"
	"math/rand"
	"strconv"
	"strings"
	"testing"
)

// ---- a minimal, separately written SCRAM client used to drive the server ----

type tClient struct {
	hash      string
	gs2       string // "n,,", "y,,", "p=tls-unique,,", "n,a=admin,"
	user      string // unescaped
	pass      string
	nonce     string
	cbData    []byte
	firstBare string
}

func (c *tClient) first() []byte {
	u := strings.ReplaceAll(strings.ReplaceAll(c.user, "=", "=3D"), ",", "=2C")
	c.firstBare = "n=" + u + ",r=" + c.nonce
	return []byte(c.gs2 + c.firstBare)
}

func tHMAC(hash string, key, data []byte) []byte {
	m := hmac.New(hashNew(hash), key)
	m.Write(data)
	return m.Sum(nil)
}

// naiveHi is PBKDF2 written the slow way, independent of Hi.
func naiveHi(hash string, pw, salt []byte, iter int) []byte {
	u := tHMAC(hash, pw, append(append([]byte(nil), salt...), 0, 0, 0, 1))
	out := append([]byte(nil), u...)
	for i := 1; i < iter; i++ {
		u = tHMAC(hash, pw, u)
		for j := range out {
			out[j] ^= u[j]
		}
	}
	return out
}

// final answers a server-first message; it returns the client-final message
// and the server-final message the client expects.
func (c *tClient) final(serverFirst []byte) (clientFinal []byte, wantServerFinal string) {
	var nonce string
	var salt []byte
	var iter int
	for _, f := range strings.Split(string(serverFirst), ",") {
		switch {
		case strings.HasPrefix(f, "r="):
			nonce = f[2:]
		case strings.HasPrefix(f, "s="):
			salt, _ = base64.StdEncoding.DecodeString(f[2:])
		case strings.HasPrefix(f, "i="):
			iter, _ = strconv.Atoi(f[2:])
		}
	}
	cbind := append([]byte(c.gs2), c.cbData...)
	noProof := "c=" + base64.StdEncoding.EncodeToString(cbind) + ",r=" + nonce
	authMsg := []byte(c.firstBare + "," + string(serverFirst) + "," + noProof)
	salted := naiveHi(c.hash, []byte(c.pass), salt, iter)
	clientKey := tHMAC(c.hash, salted, []byte("Client Key"))
	h := hashNew(c.hash)()
	h.Write(clientKey)
	sig := tHMAC(c.hash, h.Sum(nil), authMsg)
	proof := make([]byte, len(sig))
	for i := range sig {
		proof[i] = clientKey[i] ^ sig[i]
	}
	v := tHMAC(c.hash, tHMAC(c.hash, salted, []byte("Server Key")), authMsg)
	return []byte(noProof + ",p=" + base64.StdEncoding.EncodeToString(proof)),
		"v=" + base64.StdEncoding.EncodeToString(v)
}

func baseCfg(hash string) ScramConfig {
	return ScramConfig{Hash: hash, User: "user", Password: []byte("pencil"),
		Salt: []byte("0123456789abcdef"), Iterations: 64, ServerNonce: "SRVNONCE%)$"}
}

func baseClient(hash string) *tClient {
	return &tClient{hash: hash, gs2: "n,,", user: "user", pass: "pencil", nonce: "clientNONCE+/42"}
}

// run drives one complete exchange and returns the verdict.
func run(t *testing.T, cfg ScramConfig, c *tClient) (x *ScramExchange, ok bool, reason string) {
	t.Helper()
	x = NewScram(cfg)
	if err := x.ParseClientFirst(c.first()); err != nil {
		t.Fatalf("ParseClientFirst(%q): %v", c.first(), err)
	}
	cf, wantV := c.final(x.ServerFirst())
	ok, reason = x.VerifyClientFinal(cf)
	if ok {
		if reason != "" || x.Detail != "" {
			t.Errorf("accepted with reason %q / detail %q", reason, x.Detail)
		}
		if got := string(x.ServerFinal()); got != wantV {
			t.Errorf("ServerFinal %q, client expects %q", got, wantV)
		}
	} else if x.Detail == "" {
		t.Errorf("rejected (%s) without detail", reason)
	}
	return x, ok, reason
}

var hashes = []string{"SHA-1", "SHA-256"}

// ---- tests ----

func TestHiVectors(t *testing.T) {
	for _, v := range []struct {
		hash, pw, salt string
		iter           int
		want           string
	}{
		{"SHA-1", "password", "salt", 1, "0c60c80f961f0e71f3a9b524af6012062fe037a6"},
		{"SHA-1", "password", "salt", 2, "ea6c014dc72d6f8ccd1ed92ace1d41f0d8de8957"},
		{"SHA-1", "password", "salt", 4096, "4b007901b765489abead49d926f721d065a429c1"},
		{"SHA-1", "pass\x00word", "sa\x00lt", 4096, "56fa6aa75548099dcc37d7f03425e0c3"}, // RFC 6070 dkLen=16: a prefix
		{"SHA-256", "password", "salt", 1, "120fb6cffcf8b32c43e7225256c4f837a86548c92ccc35480805987cb70be17b"},
		{"SHA-256", "password", "salt", 2, "ae4d0c95af6b46d32d0adff928f06dd02a303f8ef3c251dfd6e2d85a95474c43"},
		{"SHA-256", "password", "salt", 4096, "c5e478d59288c841aa530db6845c4c8d962893a001ce4e11a4963873aa98134a"},
	} {
		got := hex.EncodeToString(Hi(v.hash, []byte(v.pw), []byte(v.salt), v.iter))
		if !strings.HasPrefix(got, v.want) {
			t.Errorf("Hi(%s, %q, %q, %d) = %s, want %s", v.hash, v.pw, v.salt, v.iter, got, v.want)
		}
	}
	rng := rand.New(rand.NewSource(2))
	for n := 0; n < 200; n++ {
		hash := hashes[n%2]
		pw, salt, iter := randBytes(rng, rng.Intn(100)), randBytes(rng, rng.Intn(65)), 1+rng.Intn(50)
		if a, b := Hi(hash, pw, salt, iter), naiveHi(hash, pw, salt, iter); !bytes.Equal(a, b) {
			t.Fatalf("Hi(%s, %q, %q, %d) = %x, naive %x", hash, pw, salt, iter, a, b)
		}
	}
	if Hi("MD5", nil, nil, 1) != nil || ScramServerFinal("MD5", nil, nil, 1, "") != nil {
		t.Error("unsupported hash must yield nil")
	}
	for _, it := range []int{0, -1} { // documented: no panic, yields U1
		if !bytes.Equal(Hi("SHA-1", []byte("p"), []byte("s"), it), Hi("SHA-1", []byte("p"), []byte("s"), 1)) {
			t.Errorf("Hi with %d iterations", it)
		}
	}
}

func TestScramAccept(t *testing.T) {
	rng := rand.New(rand.NewSource(3))
	for n := 0; n < 60; n++ {
		hash := hashes[n%2]
		cfg, c := baseCfg(hash), baseClient(hash)
		cfg.Salt = randBytes(rng, rng.Intn(65)) // including the empty salt
		cfg.Iterations = 1 + rng.Intn(300)
		cfg.Password = []byte(fmt.Sprintf("pw %d ü,=\x00", n))
		c.pass = string(cfg.Password)
		x, ok, reason := run(t, cfg, c)
		if !ok {
			t.Fatalf("%s: rejected: %s (%s)", hash, reason, x.Detail)
		}
		if x.GS2Header != "n,," || x.User != "user" || x.UserRaw != "user" || x.AuthzID != "" ||
			x.ClientNonce != c.nonce || x.ClientFirstBare != c.firstBare || !x.UserMatches() {
			t.Fatalf("recorded state wrong: %+v", x)
		}
		if want := x.ClientFirstBare + "," + x.ServerFirstMsg + "," + x.ClientFinalNoProof; x.AuthMessage != want {
			t.Fatalf("AuthMessage %q, want %q", x.AuthMessage, want)
		}
	}
}

func TestScramWrongPassword(t *testing.T) {
	for _, hash := range hashes {
		// ("pencil\x00" would be accepted: HMAC pads short keys with NULs, so
		// passwords differing in trailing NULs are the same SCRAM secret.)
		for _, pw := range []string{"Pencil", "pencil ", "", "penci", "\x00pencil"} {
			c := baseClient(hash)
			c.pass = pw
			if x, ok, reason := run(t, baseCfg(hash), c); ok || reason != ReasonProofInvalid {
				t.Errorf("%s password %q: ok=%v reason=%q (%s)", hash, pw, ok, reason, x.Detail)
			}
		}
		// right password, but the client used another hash function
		c := baseClient(hashes[0])
		if hash == hashes[0] {
			c.hash = hashes[1]
		}
		if _, ok, reason := run(t, baseCfg(hash), c); ok || reason != ReasonProofInvalid {
			t.Errorf("%s with the proof of the other hash: ok=%v reason=%q", hash, ok, reason)
		}
	}
}

func TestScramUserNames(t *testing.T) {
	for _, u := range []struct{ user, raw string }{
		{"a,b=c", "a=2Cb=3Dc"}, {",", "=2C"}, {"=", "=3D"}, {"=2C", "=3D2C"}, {"==,,", "=3D=3D=2C=2C"},
		{"jürgen müller", "jürgen müller"}, {"2C", "2C"}, {"a\tb", "a\tb"},
	} {
		cfg, c := baseCfg("SHA-256"), baseClient("SHA-256")
		cfg.User, c.user = u.user, u.user
		x, ok, reason := run(t, cfg, c)
		if !ok || x.UserRaw != u.raw || x.User != u.user {
			t.Errorf("user %q: ok=%v reason=%q raw=%q user=%q (%s)", u.user, ok, reason, x.UserRaw, x.User, x.Detail)
		}
		// same exchange against a server that knows another user
		cfg.User = u.user + "x"
		if x, ok, reason := run(t, cfg, c); ok || reason != ReasonUserMismatch || x.UserMatches() {
			t.Errorf("user %q vs %q: ok=%v reason=%q", u.user, cfg.User, ok, reason)
		}
	}
	// A client that does not escape: the server reads another name or refuses.
	for _, first := range []string{
		"n,,n=a=2cb,r=x", "n,,n=a=3db,r=x", "n,,n=a=b,r=x", "n,,n=a=,r=x", "n,,n==,r=x", "n,,n=a=2,r=x",
		"n,,n=a=3,r=x", "n,,n=a=2D,r=x", "n,,n=,r=x", "n,,n=a,b,r=x", "n,,n=a\x00b,r=x", "n,,n=a\xffb,r=x",
	} {
		x := NewScram(baseCfg("SHA-1"))
		err := x.ParseClientFirst([]byte(first))
		var se *ScramError
		if !errors.As(err, &se) || se.Code != "syntax" {
			t.Errorf("ParseClientFirst(%q) = %v, want syntax error", first, err)
		}
		if x.ClientFirstBare != "" || x.User != "" || x.GS2Header != "" || x.UserMatches() {
			t.Errorf("state not cleared after error: %+v", x)
		}
	}
}

func TestScramClientFirstSyntax(t *testing.T) {
	for _, c := range []struct {
		msg  string
		plus bool
		code string // "" = accepted
	}{
		{"n,,n=user,r=abc", false, ""},
		{"y,,n=user,r=abc", false, ""},
		{"n,a=admin,n=user,r=abc", false, ""},
		{"n,a=a=2Cb,n=user,r=abc", false, ""},
		{"n,,n=user,r=abc,x=ext,Z=more=stuff", false, ""},
		{"n,,n=user,r=!#$%&'()*+-./:;<=>?@[]^_`{|}~", false, ""},
		{"p=tls-unique,,n=user,r=abc", true, ""},
		{"p=tls-unique,a=admin,n=user,r=abc", true, ""},
		{"p=tls-unique,,n=user,r=abc", false, "cbind-flag"},
		{"p=tls-exporter,,n=user,r=abc", true, "cbind-flag"},
		{"p=TLS-UNIQUE,,n=user,r=abc", true, "cbind-flag"},
		{"n,,n=user,r=abc", true, "cbind-flag"},
		{"y,,n=user,r=abc", true, "cbind-flag"},
		{"p=,,n=user,r=abc", true, "syntax"},
		{"p=tls_unique,,n=user,r=abc", true, "syntax"},
		{"p,,n=user,r=abc", true, "syntax"},
		{"N,,n=user,r=abc", false, "syntax"},
		{"nn,,n=user,r=abc", false, "syntax"},
		{",,n=user,r=abc", false, "syntax"},
		{"n=user,r=abc", false, "syntax"},
		{"n,n=user,r=abc", false, "syntax"},
		{"n,,,n=user,r=abc", false, "syntax"},
		{"n,a=,n=user,r=abc", false, "syntax"},
		{"n,a=x=y,n=user,r=abc", false, "syntax"},
		{"n,b=admin,n=user,r=abc", false, "syntax"},
		{"n, ,n=user,r=abc", false, "syntax"},
		{"n,,m=ext,n=user,r=abc", false, "mext"},
		{"n,,n=user,r=abc,m=ext", false, "mext"},
		{"n,,n=user,m=ext,r=abc", false, "syntax"},
		{"n,,r=abc,n=user", false, "syntax"},
		{"n,,n=user", false, "syntax"},
		{"n,,n=user,", false, "syntax"},
		{"n,,n=user,r=", false, "syntax"},
		{"n,,n=user,r=a b", false, "syntax"},
		{"n,,n=user,r=a\tb", false, "syntax"},
		{"n,,n=user,r=ab\x7f", false, "syntax"},
		{"n,,n=user,r=abü", false, "syntax"},
		{"n,,n=user,r=abc,", false, "syntax"},
		{"n,,n=user,r=abc,x", false, "syntax"},
		{"n,,n=user,r=abc,x=", false, "syntax"},
		{"n,,n=user,r=abc,1=x", false, "syntax"},
		{"n,,n=user,r=abc,xy=z", false, "syntax"},
		{"n,,n=user,r=abc,r=def", false, "syntax"},
		{"n,,n=user,r=abc,x=\xff", false, "syntax"},
		{"n,,n=user,r=abc\r\n", false, "syntax"},
		{" n,,n=user,r=abc", false, "syntax"},
		{"n,,N=user,r=abc", false, "syntax"},
		{"n,,n=user,R=abc", false, "syntax"},
		{"", false, "syntax"},
	} {
		cfg := baseCfg("SHA-1")
		cfg.Plus, cfg.CBType, cfg.CBData = c.plus, "tls-unique", []byte("binding")
		x := NewScram(cfg)
		err := x.ParseClientFirst([]byte(c.msg))
		var se *ScramError
		switch {
		case c.code == "" && err != nil:
			t.Errorf("ParseClientFirst(%q): %v", c.msg, err)
		case c.code != "" && (!errors.As(err, &se) || se.Code != c.code):
			t.Errorf("ParseClientFirst(%q) = %v, want %s error", c.msg, err, c.code)
		}
	}
	x := NewScram(ScramConfig{Hash: "SHA-512"})
	var se *ScramError
	if err := x.ParseClientFirst([]byte("n,,n=user,r=abc")); !errors.As(err, &se) || se.Code != "config" {
		t.Errorf("unsupported hash: %v", err)
	}
	if ok, reason := x.VerifyClientFinal([]byte("c=biws,r=abc,p=AAAA")); ok || reason != ReasonSyntax || x.ServerFinal() != nil {
		t.Errorf("unsupported hash: client-final ok=%v reason=%q", ok, reason)
	}
}

func TestScramAuthzidAndYFlag(t *testing.T) {
	for _, gs2 := range []string{"y,,", "n,a=admin,", "n,a=x=2Cy=3D,", "y,a=user,"} {
		c := baseClient("SHA-1")
		c.gs2 = gs2
		x, ok, reason := run(t, baseCfg("SHA-1"), c)
		if !ok || x.GS2Header != gs2 {
			t.Errorf("gs2 %q: ok=%v reason=%q header=%q (%s)", gs2, ok, reason, x.GS2Header, x.Detail)
		}
	}
	c := baseClient("SHA-1")
	c.gs2 = "n,a=x=2Cy=3D,"
	if x, _, _ := run(t, baseCfg("SHA-1"), c); x.AuthzID != "x,y=" {
		t.Errorf("AuthzID %q", x.AuthzID)
	}
	// c= must repeat the gs2 header that was actually sent.
	for _, p := range [][2]string{{"n,,", "y,,"}, {"y,,", "n,,"}, {"n,a=admin,", "n,,"}, {"n,,", "n,a=admin,"}, {"n,,", ""}, {"n,,", "n,,x"}} {
		x := NewScram(baseCfg("SHA-1"))
		c := baseClient("SHA-1")
		c.gs2 = p[0]
		if err := x.ParseClientFirst(c.first()); err != nil {
			t.Fatal(err)
		}
		c.gs2 = p[1]
		cf, _ := c.final(x.ServerFirst())
		if ok, reason := x.VerifyClientFinal(cf); ok || reason != ReasonCBindMismatch {
			t.Errorf("header %q, c= of %q: ok=%v reason=%q", p[0], p[1], ok, reason)
		}
	}
}

func TestScramPlus(t *testing.T) {
	for _, hash := range hashes {
		for _, cbType := range []string{"tls-unique", "tls-exporter"} {
			cb := []byte("\x00\x01binding,data=\xff of " + cbType)
			cfg, c := baseCfg(hash), baseClient(hash)
			cfg.Plus, cfg.CBType, cfg.CBData = true, cbType, cb
			c.gs2, c.cbData = "p="+cbType+",,", cb
			if x, ok, reason := run(t, cfg, c); !ok || x.GS2Header != c.gs2 {
				t.Errorf("%s %s: ok=%v reason=%q (%s)", hash, cbType, ok, reason, x.Detail)
			}
			for _, bad := range [][]byte{nil, cb[:len(cb)-1], append(append([]byte(nil), cb...), 0), bytes.ToUpper(cb), []byte("other connection")} {
				c.cbData = bad
				if _, ok, reason := run(t, cfg, c); ok || reason != ReasonCBindMismatch {
					t.Errorf("%s %s with client binding %q: ok=%v reason=%q", hash, cbType, bad, ok, reason)
				}
			}
			// A server without binding data (e.g. tls-unique over TLS 1.3) accepts nothing.
			cfg.CBData, c.cbData = nil, nil
			if _, ok, reason := run(t, cfg, c); ok || reason != ReasonCBindMismatch {
				t.Errorf("%s %s without server binding data: ok=%v reason=%q", hash, cbType, ok, reason)
			}
			// Cfg.CBData may be filled in after NewScram.
			x := NewScram(cfg)
			x.Cfg.CBData, c.cbData = cb, cb
			if err := x.ParseClientFirst(c.first()); err != nil {
				t.Fatal(err)
			}
			cf, _ := c.final(x.ServerFirst())
			if ok, reason := x.VerifyClientFinal(cf); !ok {
				t.Errorf("late CBData: %s (%s)", reason, x.Detail)
			}
			// wrong password over the right binding
			c.pass = "other"
			if _, ok, reason := run(t, x.Cfg, c); ok || reason != ReasonProofInvalid {
				t.Errorf("%s %s wrong password: ok=%v reason=%q", hash, cbType, ok, reason)
			}
		}
	}
	// A non-PLUS client-final carrying binding data, and a PLUS header on a plain mechanism.
	c := baseClient("SHA-1")
	c.cbData = []byte("x")
	if _, ok, reason := run(t, baseCfg("SHA-1"), c); ok || reason != ReasonCBindMismatch {
		t.Errorf("n,, with binding data: ok=%v reason=%q", ok, reason)
	}
}

func TestScramClientFinalChecks(t *testing.T) {
	for _, hash := range hashes {
		x := NewScram(baseCfg(hash))
		c := baseClient(hash)
		if ok, reason := x.VerifyClientFinal([]byte("c=biws,r=x,p=AAAA")); ok || reason != ReasonSyntax {
			t.Errorf("client-final before client-first: ok=%v reason=%q", ok, reason)
		}
		if err := x.ParseClientFirst(c.first()); err != nil {
			t.Fatal(err)
		}
		if ok, reason := x.VerifyClientFinal([]byte("c=biws,r=x,p=AAAA")); ok || reason != ReasonSyntax {
			t.Errorf("client-final before server-first: ok=%v reason=%q", ok, reason)
		}
		sf := x.ServerFirst()
		if want := "r=" + c.nonce + "SRVNONCE%)$,s=MDEyMzQ1Njc4OWFiY2RlZg==,i=64"; string(sf) != want {
			t.Fatalf("server-first %q, want %q", sf, want)
		}
		good, wantV := c.final(sf)
		g := string(good)
		i := strings.LastIndex(g, ",p=")
		noProof, proof := g[:i], g[i+3:]
		nonce := c.nonce + "SRVNONCE%)$"
		cases := []struct{ msg, reason string }{
			{g, ""},
			{noProof + ",x=ext,y=e=f,p=" + proof, ReasonProofInvalid}, // well-formed, but the proof covers another AuthMessage
			{strings.Replace(g, nonce, c.nonce, 1), ReasonNonceMismatch},
			{strings.Replace(g, nonce, nonce+"x", 1), ReasonNonceMismatch},
			{strings.Replace(g, nonce, "x"+nonce, 1), ReasonNonceMismatch},
			{strings.Replace(g, nonce, strings.ToLower(nonce), 1), ReasonNonceMismatch},
			{strings.Replace(g, "c=biws", "c=eSws", 1), ReasonCBindMismatch},
			{strings.Replace(g, "c=biws", "c=", 1), ReasonCBindMismatch},
			{strings.Replace(g, "c=biws", "c=biw=", 1), ReasonCBindMismatch},
			{noProof + ",p=" + base64.StdEncoding.EncodeToString(make([]byte, len(x.StoredKey))), ReasonProofInvalid},
			{noProof + ",p=" + proof[:len(proof)-4], ReasonProofInvalid}, // shorter, still valid base64 (SHA-1: 18 of 20 octets)
			{noProof + ",p=", ReasonProofInvalid},
			{noProof + ",p=AAAA" + proof, ReasonProofInvalid},
			{noProof + ",p=" + proof + "AAAA", ReasonSyntax}, // data after the padding
			{noProof, ReasonSyntax},
			{noProof + ",p", ReasonSyntax},
			{noProof + ",P=" + proof, ReasonSyntax},
			{noProof + ",p=" + strings.TrimRight(proof, "="), ReasonSyntax},
			{noProof + ",p=" + proof + "\r\n", ReasonSyntax},
			{noProof + ",p=" + proof[:4] + "\n" + proof[4:], ReasonSyntax},
			{noProof + ",p=" + proof + ",x=y", ReasonSyntax},
			{noProof + ",p=" + strings.NewReplacer("+", "-", "/", "_").Replace(proof) + "-", ReasonSyntax},
			{noProof + ",p= " + proof, ReasonSyntax},
			{g + " ", ReasonSyntax},
			{" " + g, ReasonSyntax},
			{"r=" + nonce + ",c=biws,p=" + proof, ReasonSyntax},
			{"c=biws,p=" + proof, ReasonSyntax},
			{"c=biws,r=,p=" + proof, ReasonSyntax},
			{"c=biws,r=a b,p=" + proof, ReasonSyntax},
			{"c=biw,r=" + nonce + ",p=" + proof, ReasonSyntax},
			{"c=bi ws,r=" + nonce + ",p=" + proof, ReasonSyntax},
			{"c=biwt,r=" + nonce + ",p=" + proof, ReasonCBindMismatch},
			{"c=biws,,r=" + nonce + ",p=" + proof, ReasonSyntax},
			{noProof + ",m=ext,p=" + proof, ReasonSyntax},
			{noProof + ",x,p=" + proof, ReasonSyntax},
			{noProof + ",c=biws,p=" + proof, ReasonSyntax},
			{noProof + ",x=\xff,p=" + proof, ReasonSyntax},
			{noProof + ",x=\x00,p=" + proof, ReasonSyntax},
			{"", ReasonSyntax},
			{g, ""}, // the exchange object still accepts the right message afterwards
		}
		for _, tc := range cases {
			ok, reason := x.VerifyClientFinal([]byte(tc.msg))
			if ok != (tc.reason == "") || reason != tc.reason {
				t.Errorf("%s VerifyClientFinal(%q) = %v, %q; want %q (%s)", hash, tc.msg, ok, reason, tc.reason, x.Detail)
			}
		}
		if got := string(x.ServerFinal()); got != wantV {
			t.Errorf("ServerFinal %q, want %q", got, wantV)
		}
		// "SHA-1: shorter proof" above relies on the padding; make sure a proof of a
		// foreign length is reported as invalid for both hashes.
		other := base64.StdEncoding.EncodeToString(make([]byte, 52-len(x.StoredKey)))
		if ok, reason := x.VerifyClientFinal([]byte(noProof + ",p=" + other)); ok || reason != ReasonProofInvalid {
			t.Errorf("%s proof of the other hash's length: ok=%v reason=%q", hash, ok, reason)
		}
	}
}

// Extensions in the client-final are part of AuthMessage; a client that signs
// them is accepted.
func TestScramClientFinalExtensionSigned(t *testing.T) {
	x := NewScram(baseCfg("SHA-256"))
	c := baseClient("SHA-256")
	if err := x.ParseClientFirst(append(c.first(), ",x=1"...)); err != nil {
		t.Fatal(err)
	}
	c.firstBare += ",x=1"
	sf := x.ServerFirst()
	noProof := "c=biws,r=" + c.nonce + x.Cfg.ServerNonce + ",q=ext"
	authMsg := c.firstBare + "," + string(sf) + "," + noProof
	sig := tHMAC("SHA-256", x.StoredKey, []byte(authMsg))
	for i := range sig {
		sig[i] ^= x.ClientKey[i]
	}
	if ok, reason := x.VerifyClientFinal([]byte(noProof + ",p=" + base64.StdEncoding.EncodeToString(sig))); !ok {
		t.Fatalf("rejected: %s (%s)", reason, x.Detail)
	}
	if x.AuthMessage != authMsg || x.ClientFinalNoProof != noProof {
		t.Errorf("AuthMessage %q", x.AuthMessage)
	}
}

// The driver may record an adversarial server-first; everything that follows
// is computed over it, with the keys of the server's real salt / count.
func TestScramSetServerFirstAndForgedFinals(t *testing.T) {
	for _, hash := range hashes {
		cfg, c := baseCfg(hash), baseClient(hash)
		x := NewScram(cfg)
		if err := x.ParseClientFirst(c.first()); err != nil {
			t.Fatal(err)
		}
		// "server-final over empty state" before anything else is known
		y := NewScram(cfg)
		if got, want := y.ServerFinal(), ScramServerFinal(hash, cfg.Password, cfg.Salt, cfg.Iterations, ",,"); !bytes.Equal(got, want) || y.AuthMessage != ",," {
			t.Errorf("ServerFinal of an empty exchange %q, want %q", got, want)
		}
		if got, want := x.ServerFinal(), ScramServerFinal(hash, cfg.Password, cfg.Salt, cfg.Iterations, c.firstBare+",,"); !bytes.Equal(got, want) {
			t.Errorf("ServerFinal after client-first %q, want %q", got, want)
		}

		// same salt and count, foreign nonce: a client that goes on is still
		// verified against what was sent
		foreign := "r=FOREIGN" + cfg.ServerNonce + ",s=" + base64.StdEncoding.EncodeToString(cfg.Salt) + ",i=64"
		x.SetServerFirst([]byte(foreign))
		cf, wantV := c.final([]byte(foreign))
		if ok, reason := x.VerifyClientFinal(cf); !ok {
			t.Errorf("%s: %s (%s)", hash, reason, x.Detail)
		}
		if got := string(x.ServerFinal()); got != wantV || !strings.Contains(x.AuthMessage, ","+foreign+",") {
			t.Errorf("ServerFinal %q, want %q", got, wantV)
		}
		// the server-final of the regular exchange is a different one
		x2 := NewScram(cfg)
		x2.ParseClientFirst(c.first())
		cf2, wantV2 := c.final(x2.ServerFirst())
		if ok, _ := x2.VerifyClientFinal(cf2); !ok || string(x2.ServerFinal()) != wantV2 || wantV2 == wantV {
			t.Errorf("regular exchange: %q vs %q", x2.ServerFinal(), wantV2)
		}
		// another key
		if bytes.Equal(ScramServerFinal(hash, []byte("other"), cfg.Salt, cfg.Iterations, x2.AuthMessage), x2.ServerFinal()) {
			t.Error("server-final does not depend on the password")
		}

		// other salt in the server-first: the client derives other keys
		x.SetServerFirst([]byte("r=" + c.nonce + "S,s=AAAA,i=64"))
		cf, _ = c.final([]byte(x.ServerFirstMsg))
		if ok, reason := x.VerifyClientFinal(cf); ok || reason != ReasonProofInvalid {
			t.Errorf("%s other salt: ok=%v reason=%q", hash, ok, reason)
		}
		// malformed server-first without nonce: nothing can match
		for _, sf := range []string{"junk", "", "s=AAAA,i=64", "m=x", "R=abc,s=AAAA,i=1"} {
			x.SetServerFirst([]byte(sf))
			if ok, reason := x.VerifyClientFinal([]byte("c=biws,r=abc,p=AAAA")); ok || (reason != ReasonNonceMismatch && reason != ReasonSyntax) {
				t.Errorf("%s server-first %q: ok=%v reason=%q", hash, sf, ok, reason)
			}
		}
		x.SetServerFirst([]byte("m=ext,r=abc,s=AAAA,i=1"))
		if ok, reason := x.VerifyClientFinal([]byte("c=biws,r=abc,p=AAAA")); ok || reason != ReasonProofInvalid {
			t.Errorf("%s nonce after m=: ok=%v reason=%q", hash, ok, reason)
		}

		// SetClientFinalNoProof
		x.SetServerFirst([]byte("SF"))
		x.SetClientFinalNoProof("CF")
		if got, want := x.ServerFinal(), ScramServerFinal(hash, cfg.Password, cfg.Salt, cfg.Iterations, c.firstBare+",SF,CF"); !bytes.Equal(got, want) {
			t.Errorf("ServerFinal %q, want %q", got, want)
		}
		// a new client-first forgets all of it
		if err := x.ParseClientFirst(c.first()); err != nil || x.ServerFirstMsg != "" || x.ClientFinalNoProof != "" || x.AuthMessage != "" {
			t.Errorf("state after second client-first: %v %+v", err, x)
		}
		// keys follow Cfg
		x.Cfg.Password = []byte("changed")
		c.pass = "changed"
		cf, wantV = c.final(x.ServerFirst())
		if ok, reason := x.VerifyClientFinal(cf); !ok || string(x.ServerFinal()) != wantV {
			t.Errorf("after password change: ok=%v reason=%q", ok, reason)
		}
	}
}

// Nothing panics, and no malformed or altered message is accepted.
func TestScramFuzz(t *testing.T) {
	rng := rand.New(rand.NewSource(4))
	cb := []byte("channel-binding-data")
	for n := 0; n < 6000; n++ {
		hash := hashes[n%2]
		cfg, c := baseCfg(hash), baseClient(hash)
		cfg.Iterations = 2
		if n%4 >= 2 {
			cfg.Plus, cfg.CBType, cfg.CBData = true, "tls-exporter", cb
			c.gs2, c.cbData = "p=tls-exporter,,", cb
		}
		first := c.first()

		// client-first: random, and mutated
		x := NewScram(cfg)
		var m []byte
		if n%3 == 0 {
			m = randBytes(rng, rng.Intn(40))
		} else {
			m = mutate(rng, first)
		}
		if err := x.ParseClientFirst(m); err == nil {
			// whatever was accepted re-serialises to itself
			re := x.GS2Header + x.ClientFirstBare
			if re != string(m) || !strings.HasPrefix(x.ClientFirstBare, "n="+x.UserRaw+",r="+x.ClientNonce) ||
				strings.ContainsAny(x.UserRaw+x.ClientNonce, ",\x00") || x.ClientNonce == "" || x.UserRaw == "" {
				t.Fatalf("ParseClientFirst(%q) accepted with state %+v", m, x)
			}
		} else {
			var se *ScramError
			if !errors.As(err, &se) || x.ClientFirstBare != "" {
				t.Fatalf("ParseClientFirst(%q): error %#v, state %+v", m, err, x)
			}
			x.ServerFirst()
			x.ServerFinal()
			if ok, _ := x.VerifyClientFinal(m); ok {
				t.Fatalf("accepted %q after failed client-first", m)
			}
		}

		// client-final: random, and mutated, against a good exchange
		x = NewScram(cfg)
		if err := x.ParseClientFirst(first); err != nil {
			t.Fatal(err)
		}
		good, wantV := c.final(x.ServerFirst())
		if n%3 == 0 {
			m = randBytes(rng, rng.Intn(60))
		} else {
			m = mutate(rng, good)
		}
		ok, reason := x.VerifyClientFinal(m)
		switch {
		case ok && !bytes.Equal(m, good):
			t.Fatalf("accepted altered client-final %q (good: %q)", m, good)
		case !ok && bytes.Equal(m, good):
			t.Fatalf("rejected good client-final: %s (%s)", reason, x.Detail)
		case !ok && !strings.Contains("syntax cbind-mismatch nonce-mismatch user-mismatch proof-invalid", reason):
			t.Fatalf("unknown reason %q", reason)
		}
		if v := x.ServerFinal(); !bytes.HasPrefix(v, []byte("v=")) || ok && string(v) != wantV {
			t.Fatalf("ServerFinal %q", v)
		}

		// adversarial server-first and hand-set parts never panic either
		x.SetServerFirst(randBytes(rng, rng.Intn(30)))
		x.VerifyClientFinal(good)
		x.SetClientFinalNoProof(string(randBytes(rng, rng.Intn(30))))
		x.ServerFinal()
		ScramServerFinal(hash, randBytes(rng, rng.Intn(8)), randBytes(rng, rng.Intn(8)), rng.Intn(4)-1, string(m))
		x.Cfg = ScramConfig{Hash: string(randBytes(rng, rng.Intn(6)))}
		x.ParseClientFirst(first)
		x.ServerFirst()
		x.VerifyClientFinal(good)
		x.ServerFinal()
		x.UserMatches()
	}
}
