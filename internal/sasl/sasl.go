//go:build verif

// Package sasl holds independent, RFC-conforming SERVER-side reference
// implementations of the SASL mechanisms PLAIN (RFC 4616), LOGIN
// (draft-murchison-sasl-login), CRAM-MD5 (RFC 2195), XOAUTH2 (Google) and
// SCRAM-SHA-1 / SCRAM-SHA-256 with their -PLUS variants (RFC 5802, RFC 7677,
// channel bindings per RFC 5929 / RFC 9266).
//
// They are used as oracles for a SASL *client* under test. Everything works on
// DECODED SASL messages: the caller does the "AUTH <mech> [b64]" / "334 <b64>"
// framing. Only the standard library is used and nothing is shared with the
// library under test. All parsers are deliberately strict (the grammar of the
// RFC and nothing else) and never panic, whatever bytes they are given.
package sasl

import (
	"bytes"
	"crypto/hmac"
	"crypto/md5"
	"crypto/subtle"
	"encoding/hex"
	"fmt"
	"unicode/utf8"
)

func eq(a, b []byte) bool { return subtle.ConstantTimeCompare(a, b) == 1 }

// VerifyPlain checks an RFC 4616 message
//
//	message = [authzid] UTF8NUL authcid UTF8NUL passwd
//	authcid = 1*SAFE, passwd = 1*SAFE, authzid = 1*SAFE   (SAFE: UTF-8 without NUL)
//
// It accepts iff the message has exactly two NULs, is valid UTF-8, authcid and
// passwd are non-empty (ABNF 1*SAFE), authzid is empty or equal to authcid (the
// only authorisation a server knowing just (user, pass) can grant), and
// authcid/passwd equal user/pass octet for octet.
func VerifyPlain(msg []byte, user, pass string) (ok bool, reason string) {
	parts := bytes.Split(msg, []byte{0})
	if len(parts) != 3 {
		return false, fmt.Sprintf("syntax: %d NUL separators, want exactly 2", len(parts)-1)
	}
	if !utf8.Valid(msg) {
		return false, "syntax: message is not valid UTF-8"
	}
	authzid, authcid, passwd := parts[0], parts[1], parts[2]
	if len(authcid) == 0 {
		return false, "syntax: empty authcid (RFC 4616: authcid = 1*SAFE)"
	}
	if len(passwd) == 0 {
		return false, "syntax: empty passwd (RFC 4616: passwd = 1*SAFE)"
	}
	if len(authzid) != 0 && !bytes.Equal(authzid, authcid) {
		return false, fmt.Sprintf("authzid %q is neither empty nor the authcid %q", authzid, authcid)
	}
	if !eq(authcid, []byte(user)) {
		return false, fmt.Sprintf("authcid mismatch: got %q", authcid)
	}
	if !eq(passwd, []byte(pass)) {
		return false, "password mismatch"
	}
	return true, ""
}

// VerifyLogin checks the two responses of the LOGIN mechanism: the user name
// and the password, each sent as-is (no escaping, no terminator).
func VerifyLogin(userResp, passResp []byte, user, pass string) (ok bool, reason string) {
	if !eq(userResp, []byte(user)) {
		return false, fmt.Sprintf("user mismatch: got %q", userResp)
	}
	if !eq(passResp, []byte(pass)) {
		return false, "password mismatch"
	}
	return true, ""
}

// VerifyCramMD5 checks an RFC 2195 response: user SP digest, where digest is
// HMAC-MD5(secret, challenge) as exactly 32 lower-case hexadecimal digits. The
// user name may itself contain spaces, so the split is at the LAST space.
func VerifyCramMD5(resp []byte, challenge []byte, user, secret string) (ok bool, reason string) {
	i := bytes.LastIndexByte(resp, ' ')
	if i < 0 {
		return false, "syntax: no space between user name and digest"
	}
	gotUser, digest := resp[:i], resp[i+1:]
	if len(digest) != 2*md5.Size {
		return false, fmt.Sprintf("syntax: digest has %d characters, want 32", len(digest))
	}
	for _, c := range digest {
		if !(c >= '0' && c <= '9' || c >= 'a' && c <= 'f') {
			return false, fmt.Sprintf("syntax: digest character %q is not a lower-case hex digit", c)
		}
	}
	if !eq(gotUser, []byte(user)) {
		return false, fmt.Sprintf("user mismatch: got %q", gotUser)
	}
	mac := hmac.New(md5.New, []byte(secret))
	mac.Write(challenge)
	want := make([]byte, 2*md5.Size)
	hex.Encode(want, mac.Sum(nil))
	if !eq(digest, want) {
		return false, "digest mismatch"
	}
	return true, ""
}

// VerifyXOAuth2 checks Google's XOAUTH2 initial response
//
//	"user=" user ^A "auth=Bearer " token ^A ^A
//
// The format has no escaping: the user ends at the first ^A and the token is
// everything between "auth=Bearer " and the final ^A^A.
func VerifyXOAuth2(msg []byte, user, token string) (ok bool, reason string) {
	const pfx, mid, sfx = "user=", "\x01auth=Bearer ", "\x01\x01"
	if !bytes.HasPrefix(msg, []byte(pfx)) {
		return false, `syntax: does not start with "user="`
	}
	rest := msg[len(pfx):]
	i := bytes.IndexByte(rest, 1)
	if i < 0 || !bytes.HasPrefix(rest[i:], []byte(mid)) {
		return false, `syntax: user name is not followed by ^A "auth=Bearer "`
	}
	gotUser, rest := rest[:i], rest[i+len(mid):]
	if !bytes.HasSuffix(rest, []byte(sfx)) {
		return false, "syntax: does not end with ^A^A"
	}
	gotToken := rest[:len(rest)-len(sfx)]
	if bytes.IndexByte(gotToken, 1) >= 0 {
		return false, "syntax: ^A inside the token (extra key/value pairs)"
	}
	if !eq(gotUser, []byte(user)) {
		return false, fmt.Sprintf("user mismatch: got %q", gotUser)
	}
	if !eq(gotToken, []byte(token)) {
		return false, "token mismatch"
	}
	return true, ""
}
