//go:build verif

package sasl

import (
	"encoding/base64"
	"encoding/hex"
	"fmt"
)

type scramVector struct {
	name, hash, user, password, salt64, serverNonce    string
	iterations                                         int
	clientFirst, serverFirst, clientFinal, serverFinal string
}

var scramVectors = []scramVector{
	{
		name: "RFC 5802 §5 SCRAM-SHA-1", hash: "SHA-1", user: "user", password: "pencil",
		salt64: "QSXCR+Q6sek8bf92", iterations: 4096, serverNonce: "3rfcNHYJY1ZVvWVs7j",
		clientFirst: "n,,n=user,r=fyko+d2lbbFgONRv9qkxdawL",
		serverFirst: "r=fyko+d2lbbFgONRv9qkxdawL3rfcNHYJY1ZVvWVs7j,s=QSXCR+Q6sek8bf92,i=4096",
		clientFinal: "c=biws,r=fyko+d2lbbFgONRv9qkxdawL3rfcNHYJY1ZVvWVs7j,p=v0X8v3Bz2T0CJGbJQyF0X+HI4Ts=",
		serverFinal: "v=rmF9pqV8S7suAoZWja4dJRkFsKQ=",
	},
	{
		name: "RFC 7677 §3 SCRAM-SHA-256", hash: "SHA-256", user: "user", password: "pencil",
		salt64: "W22ZaJ0SNY7soEsUEjb6gQ==", iterations: 4096, serverNonce: "%hvYDpWUa2RaTCAfuxFIlj)hNlF$k0",
		clientFirst: "n,,n=user,r=rOprNGfwEbeRWgbNEkqO",
		serverFirst: "r=rOprNGfwEbeRWgbNEkqO%hvYDpWUa2RaTCAfuxFIlj)hNlF$k0,s=W22ZaJ0SNY7soEsUEjb6gQ==,i=4096",
		clientFinal: "c=biws,r=rOprNGfwEbeRWgbNEkqO%hvYDpWUa2RaTCAfuxFIlj)hNlF$k0,p=dHzbZapWIk4jUhN+Ute9ytag9zjfMHgsqmmiz7AndVQ=",
		serverFinal: "v=6rriTRBi23WpRR/wtup+mMhUZUn/dB5nLTJRsjl95G4=",
	},
}

// runScramVector feeds the RFC's client messages through ParseClientFirst /
// ServerFirst / VerifyClientFinal / ServerFinal and compares what the server
// side produces with the RFC's server messages.
func runScramVector(v scramVector) error {
	salt, err := base64.StdEncoding.DecodeString(v.salt64)
	if err != nil {
		return fmt.Errorf("%s: salt: %v", v.name, err)
	}
	x := NewScram(ScramConfig{Hash: v.hash, User: v.user, Password: []byte(v.password),
		Salt: salt, Iterations: v.iterations, ServerNonce: v.serverNonce})
	if err := x.ParseClientFirst([]byte(v.clientFirst)); err != nil {
		return fmt.Errorf("%s: client-first rejected: %v", v.name, err)
	}
	if !x.UserMatches() {
		return fmt.Errorf("%s: user %q does not match", v.name, x.User)
	}
	if got := string(x.ServerFirst()); got != v.serverFirst {
		return fmt.Errorf("%s: server-first %q, want %q", v.name, got, v.serverFirst)
	}
	if ok, reason := x.VerifyClientFinal([]byte(v.clientFinal)); !ok {
		return fmt.Errorf("%s: client-final rejected: %s (%s)", v.name, reason, x.Detail)
	}
	if got := string(x.ServerFinal()); got != v.serverFinal {
		return fmt.Errorf("%s: server-final %q, want %q", v.name, got, v.serverFinal)
	}
	if got := string(ScramServerFinal(v.hash, []byte(v.password), salt, v.iterations, x.AuthMessage)); got != v.serverFinal {
		return fmt.Errorf("%s: ScramServerFinal %q, want %q", v.name, got, v.serverFinal)
	}
	// The same exchange must be refused when the server holds another password.
	y := NewScram(x.Cfg)
	y.Cfg.Password = []byte(v.password + "x")
	if err := y.ParseClientFirst([]byte(v.clientFirst)); err != nil {
		return fmt.Errorf("%s: client-first rejected on second run: %v", v.name, err)
	}
	y.ServerFirst()
	if ok, reason := y.VerifyClientFinal([]byte(v.clientFinal)); ok || reason != ReasonProofInvalid {
		return fmt.Errorf("%s: with another password: ok=%v reason=%q, want proof-invalid", v.name, ok, reason)
	}
	return nil
}

// SelfTest runs the published test vectors and returns an error naming the
// first failing one: RFC 5802 §5, RFC 7677 §3 (both through the step-wise SCRAM
// server), RFC 6070 PBKDF2-HMAC-SHA-1 (for Hi), RFC 2195 §2 (CRAM-MD5) and the
// RFC 4616 §4 PLAIN examples.
func SelfTest() error {
	for _, v := range []struct {
		iter int
		want string
	}{ // RFC 6070 §2, P="password", S="salt", dkLen=20
		{1, "0c60c80f961f0e71f3a9b524af6012062fe037a6"},
		{2, "ea6c014dc72d6f8ccd1ed92ace1d41f0d8de8957"},
		{4096, "4b007901b765489abead49d926f721d065a429c1"},
	} {
		if got := hex.EncodeToString(Hi("SHA-1", []byte("password"), []byte("salt"), v.iter)); got != v.want {
			return fmt.Errorf("RFC 6070 PBKDF2-HMAC-SHA-1 c=%d: %s, want %s", v.iter, got, v.want)
		}
	}
	for _, v := range scramVectors {
		if err := runScramVector(v); err != nil {
			return err
		}
	}

	const challenge, cramResp = "<1896.697170952@postoffice.reston.mci.net>", "tim b913a602c7eda7a495b4e6e7334d3890"
	if ok, reason := VerifyCramMD5([]byte(cramResp), []byte(challenge), "tim", "tanstaaftanstaaf"); !ok {
		return fmt.Errorf("RFC 2195 §2 CRAM-MD5: rejected: %s", reason)
	}
	if ok, _ := VerifyCramMD5([]byte(cramResp), []byte(challenge), "tim", "tanstaaftanstaag"); ok {
		return fmt.Errorf("RFC 2195 §2 CRAM-MD5: accepted with another secret")
	}

	if ok, reason := VerifyPlain([]byte("\x00tim\x00tanstaaftanstaaf"), "tim", "tanstaaftanstaaf"); !ok {
		return fmt.Errorf("RFC 4616 §4 PLAIN example 1: rejected: %s", reason)
	}
	if ok, _ := VerifyPlain([]byte("\x00tim\x00tanstaaftanstaaf"), "tim", "tanstaaf"); ok {
		return fmt.Errorf("RFC 4616 §4 PLAIN example 1: accepted with another password")
	}
	// Example 2: Kurt's credentials are right, but he asks to act as Ursel; a
	// server that knows of no such permission refuses (as in the RFC).
	if ok, _ := VerifyPlain([]byte("Ursel\x00Kurt\x00xipj3plmq"), "Kurt", "xipj3plmq"); ok {
		return fmt.Errorf("RFC 4616 §4 PLAIN example 2: accepted authzid Ursel for authcid Kurt")
	}
	if ok, reason := VerifyPlain([]byte("Kurt\x00Kurt\x00xipj3plmq"), "Kurt", "xipj3plmq"); !ok {
		return fmt.Errorf("RFC 4616 PLAIN with authzid = authcid: rejected: %s", reason)
	}
	return nil
}
