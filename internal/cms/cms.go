//go:build verif

// Package cms is an independent, standard-library-only verifier for detached
// CMS / PKCS#7 SignedData structures as carried by S/MIME multipart/signed.
// It deliberately shares no code with the library under test.
package cms

import (
	"bytes"
	"crypto"
	"crypto/ecdsa"
	"crypto/rsa"
	"crypto/sha256"
	"crypto/x509"
	"encoding/asn1"
	"fmt"
	"math/big"
	"time"
)

const (
	oidData              = "1.2.840.113549.1.7.1"
	oidSignedData        = "1.2.840.113549.1.7.2"
	oidAttrContentType   = "1.2.840.113549.1.9.3"
	oidAttrMessageDigest = "1.2.840.113549.1.9.4"
	oidAttrSigningTime   = "1.2.840.113549.1.9.5"
	oidSHA256            = "2.16.840.1.101.3.4.2.1"
	oidRSAEncryption     = "1.2.840.113549.1.1.1"
	oidSHA256WithRSA     = "1.2.840.113549.1.1.11"
	oidECDSAWithSHA256   = "1.2.840.10045.4.3.2"
)

// Info is what could be parsed out of the SignedData structure.
type Info struct {
	Version           int
	DigestAlgOIDs     []string            // dotted OIDs of SignedData.digestAlgorithms
	Detached          bool                // encapContentInfo has no eContent
	EContentType      string              // dotted OID
	Certificates      []*x509.Certificate // certificates carried in the structure, in order
	SignerCert        *x509.Certificate   // the carried cert matching the (single) SignerInfo, nil if none
	SignerDigestAlg   string              // dotted OID
	SignatureAlg      string              // dotted OID of signatureAlgorithm
	HasSignedAttrs    bool
	AttrContentType   string    // dotted OID value of the content-type attribute ("" if absent)
	AttrMessageDigest []byte    // value of the message-digest attribute (nil if absent)
	AttrSigningTime   time.Time // zero if absent
	SignedAttrsSorted bool      // the SET OF attributes is in DER order as emitted
	// EmptyUnsignedAttrs (addition to the requested API): an unsignedAttrs [1] element is present but
	// empty ("A1 00"), which violates SIZE (1..MAX) of RFC 5652 but is tolerated (not a problem).
	EmptyUnsignedAttrs bool
}

const (
	clsUniversal = asn1.ClassUniversal
	clsContext   = asn1.ClassContextSpecific
)

// reader walks a concatenation of definite-length TLVs.
type reader struct{ b []byte }

func (r *reader) empty() bool { return len(r.b) == 0 }

// peek reports whether the next TLV has the given class and (low) tag number.
func (r *reader) peek(class, tag int) bool {
	return len(r.b) > 0 && int(r.b[0]>>6) == class && int(r.b[0]&0x1f) == tag
}

func (r *reader) next(what string) (asn1.RawValue, error) {
	var v asn1.RawValue
	if len(r.b) == 0 {
		return v, fmt.Errorf("%s: missing", what)
	}
	rest, err := asn1.Unmarshal(r.b, &v)
	if err != nil {
		return v, fmt.Errorf("%s: %v", what, err)
	}
	r.b = rest
	return v, nil
}

func (r *reader) expect(class, tag int, compound bool, what string) (asn1.RawValue, error) {
	v, err := r.next(what)
	if err != nil {
		return v, err
	}
	if v.Class != class || v.Tag != tag || v.IsCompound != compound {
		return v, fmt.Errorf("%s: unexpected tag (class %d tag %d constructed %v)", what, v.Class, v.Tag, v.IsCompound)
	}
	return v, nil
}

func (r *reader) seq(what string) (reader, asn1.RawValue, error) {
	v, err := r.expect(clsUniversal, asn1.TagSequence, true, what)
	return reader{v.Bytes}, v, err
}

func (r *reader) done(what string) error {
	if len(r.b) != 0 {
		return fmt.Errorf("%s: %d unexpected trailing bytes", what, len(r.b))
	}
	return nil
}

func (r *reader) oid(what string) (string, error) {
	v, err := r.expect(clsUniversal, asn1.TagOID, false, what)
	if err != nil {
		return "", err
	}
	var o asn1.ObjectIdentifier
	if rest, err := asn1.Unmarshal(v.FullBytes, &o); err != nil || len(rest) != 0 {
		return "", fmt.Errorf("%s: bad OID: %v", what, err)
	}
	return o.String(), nil
}

func (r *reader) integer(what string) (*big.Int, error) {
	v, err := r.expect(clsUniversal, asn1.TagInteger, false, what)
	if err != nil {
		return nil, err
	}
	n := new(big.Int)
	if rest, err := asn1.Unmarshal(v.FullBytes, &n); err != nil || len(rest) != 0 {
		return nil, fmt.Errorf("%s: bad INTEGER: %v", what, err)
	}
	return n, nil
}

// algID reads an AlgorithmIdentifier and returns its OID; parameters (absent, NULL or anything) are ignored.
func (r *reader) algID(what string) (string, error) {
	s, _, err := r.seq(what)
	if err != nil {
		return "", err
	}
	return s.oid(what + ".algorithm")
}

type verifier struct {
	info     *Info
	problems []string
}

func (v *verifier) addf(format string, a ...any) {
	v.problems = append(v.problems, fmt.Sprintf(format, a...))
}

// Verify parses der (a ContentInfo with contentType signedData) and verifies it as a
// DETACHED signature over content. It returns the parsed Info (as far as parsing got,
// never nil) and the list of problems (empty = verifies). The part of a problem before
// the first ':' is a stable code: parse, not-signed-data, not-detached, signer-count,
// signer-cert-missing, digest-alg-unsupported, digest-alg-not-listed,
// attr-content-type-missing, attr-content-type-wrong, attr-message-digest-missing,
// digest-mismatch, attrs-not-der-sorted, sig-alg-unsupported, signature-invalid, trailing-data.
func Verify(der []byte, content []byte) (info *Info, problems []string) {
	v := &verifier{info: &Info{}}
	defer func() {
		if r := recover(); r != nil {
			v.addf("parse: internal panic: %v", r)
		}
		info, problems = v.info, v.problems
	}()
	if err := v.run(der, content); err != nil {
		v.addf("parse: %v", err)
	}
	return v.info, v.problems
}

func (v *verifier) run(der, content []byte) error {
	outer := reader{der}
	ci, _, err := outer.seq("ContentInfo")
	if err != nil {
		return err
	}
	if !outer.empty() {
		v.addf("trailing-data: %d bytes after ContentInfo", len(outer.b))
	}
	ct, err := ci.oid("ContentInfo.contentType")
	if err != nil {
		return err
	}
	if ct != oidSignedData {
		v.addf("not-signed-data: contentType is %s", ct)
		return nil
	}
	wrap, err := ci.expect(clsContext, 0, true, "ContentInfo.content")
	if err != nil {
		return err
	}
	if err := ci.done("ContentInfo"); err != nil {
		return err
	}
	wr := reader{wrap.Bytes}
	sd, _, err := wr.seq("SignedData")
	if err != nil {
		return err
	}
	if err := wr.done("ContentInfo.content"); err != nil {
		return err
	}

	ver, err := sd.integer("SignedData.version")
	if err != nil {
		return err
	}
	v.info.Version = int(ver.Int64())
	das, err := sd.expect(clsUniversal, asn1.TagSet, true, "SignedData.digestAlgorithms")
	if err != nil {
		return err
	}
	for dr := (reader{das.Bytes}); !dr.empty(); {
		o, err := dr.algID("SignedData.digestAlgorithms[]")
		if err != nil {
			return err
		}
		v.info.DigestAlgOIDs = append(v.info.DigestAlgOIDs, o)
	}

	eci, _, err := sd.seq("encapContentInfo")
	if err != nil {
		return err
	}
	if v.info.EContentType, err = eci.oid("encapContentInfo.eContentType"); err != nil {
		return err
	}
	v.info.Detached = eci.empty()
	if !v.info.Detached {
		if _, err := eci.expect(clsContext, 0, true, "encapContentInfo.eContent"); err != nil {
			return err
		}
		if err := eci.done("encapContentInfo"); err != nil {
			return err
		}
		v.addf("not-detached: encapContentInfo carries eContent")
	}

	if sd.peek(clsContext, 0) { // certificates [0] IMPLICIT CertificateSet
		cs, err := sd.expect(clsContext, 0, true, "SignedData.certificates")
		if err != nil {
			return err
		}
		for cr, i := (reader{cs.Bytes}), 0; !cr.empty(); i++ {
			c, err := cr.next(fmt.Sprintf("SignedData.certificates[%d]", i))
			if err != nil {
				return err
			}
			if c.Class != clsUniversal || c.Tag != asn1.TagSequence {
				continue // other CertificateChoices (attribute certs, ...) are of no interest
			}
			cert, err := x509.ParseCertificate(c.FullBytes)
			if err != nil {
				v.addf("parse: SignedData.certificates[%d]: %v", i, err)
				continue
			}
			v.info.Certificates = append(v.info.Certificates, cert)
		}
	}
	if sd.peek(clsContext, 1) { // crls [1] IMPLICIT, ignored
		if _, err := sd.expect(clsContext, 1, true, "SignedData.crls"); err != nil {
			return err
		}
	}
	sis, err := sd.expect(clsUniversal, asn1.TagSet, true, "SignedData.signerInfos")
	if err != nil {
		return err
	}
	if err := sd.done("SignedData"); err != nil {
		return err
	}
	var signers []reader
	for sr := (reader{sis.Bytes}); !sr.empty(); {
		s, _, err := sr.seq("SignerInfo")
		if err != nil {
			return err
		}
		signers = append(signers, s)
	}
	if len(signers) != 1 {
		v.addf("signer-count: %d SignerInfos, want exactly 1", len(signers))
		if len(signers) == 0 {
			return nil
		}
	}
	return v.signer(signers[0], content)
}

func (v *verifier) signer(si reader, content []byte) error {
	if _, err := si.integer("SignerInfo.version"); err != nil {
		return err
	}
	// sid: issuerAndSerialNumber, or [0] subjectKeyIdentifier (tolerated, matched against the certs' SKI).
	var sid string
	if si.peek(clsContext, 0) {
		ski, err := si.expect(clsContext, 0, false, "SignerInfo.sid.subjectKeyIdentifier")
		if err != nil {
			return err
		}
		sid = fmt.Sprintf("subjectKeyIdentifier %x", ski.Bytes)
		for _, c := range v.info.Certificates {
			if v.info.SignerCert == nil && len(c.SubjectKeyId) > 0 && bytes.Equal(c.SubjectKeyId, ski.Bytes) {
				v.info.SignerCert = c
			}
		}
	} else {
		ias, _, err := si.seq("SignerInfo.issuerAndSerialNumber")
		if err != nil {
			return err
		}
		_, issuer, err := ias.seq("issuerAndSerialNumber.issuer")
		if err != nil {
			return err
		}
		serial, err := ias.integer("issuerAndSerialNumber.serialNumber")
		if err != nil {
			return err
		}
		if err := ias.done("issuerAndSerialNumber"); err != nil {
			return err
		}
		sid = fmt.Sprintf("issuer %x serial %s", issuer.FullBytes, serial)
		for _, c := range v.info.Certificates {
			if v.info.SignerCert == nil && bytes.Equal(c.RawIssuer, issuer.FullBytes) && c.SerialNumber.Cmp(serial) == 0 {
				v.info.SignerCert = c
			}
		}
	}
	if v.info.SignerCert == nil {
		v.addf("signer-cert-missing: none of the %d carried certificates matches %s", len(v.info.Certificates), sid)
	}

	var err error
	if v.info.SignerDigestAlg, err = si.algID("SignerInfo.digestAlgorithm"); err != nil {
		return err
	}
	var signedAttrs []byte // raw [0] IMPLICIT encoding as emitted
	if si.peek(clsContext, 0) {
		sa, err := si.expect(clsContext, 0, true, "SignerInfo.signedAttrs")
		if err != nil {
			return err
		}
		signedAttrs = sa.FullBytes
		v.info.HasSignedAttrs = true
		if err := v.attrs(reader{sa.Bytes}); err != nil {
			return err
		}
	}
	if v.info.SignatureAlg, err = si.algID("SignerInfo.signatureAlgorithm"); err != nil {
		return err
	}
	sig, err := si.expect(clsUniversal, asn1.TagOctetString, false, "SignerInfo.signature")
	if err != nil {
		return err
	}
	if si.peek(clsContext, 1) { // unsignedAttrs [1] IMPLICIT, ignored
		ua, err := si.expect(clsContext, 1, true, "SignerInfo.unsignedAttrs")
		if err != nil {
			return err
		}
		v.info.EmptyUnsignedAttrs = len(ua.Bytes) == 0
	}
	if err := si.done("SignerInfo"); err != nil {
		return err
	}

	// Digest algorithm.
	listed := false
	for _, o := range v.info.DigestAlgOIDs {
		listed = listed || o == v.info.SignerDigestAlg
	}
	if !listed {
		v.addf("digest-alg-not-listed: SignerInfo.digestAlgorithm %s not in SignedData.digestAlgorithms %v", v.info.SignerDigestAlg, v.info.DigestAlgOIDs)
	}
	if v.info.SignerDigestAlg != oidSHA256 {
		v.addf("digest-alg-unsupported: %s (only SHA-256 is supported)", v.info.SignerDigestAlg)
		return nil // neither message-digest nor signature can be checked
	}
	contentDigest := sha256.Sum256(content)

	// Signed attributes.
	switch {
	case v.info.AttrContentType == "":
		v.addf("attr-content-type-missing: signedAttrs present=%v", v.info.HasSignedAttrs)
	case v.info.AttrContentType != oidData:
		v.addf("attr-content-type-wrong: %s, want id-data %s", v.info.AttrContentType, oidData)
	}
	switch {
	case v.info.AttrMessageDigest == nil:
		v.addf("attr-message-digest-missing: signedAttrs present=%v", v.info.HasSignedAttrs)
	case !bytes.Equal(v.info.AttrMessageDigest, contentDigest[:]):
		v.addf("digest-mismatch: message-digest attribute %x, SHA-256(content) %x", v.info.AttrMessageDigest, contentDigest)
	}
	if v.info.HasSignedAttrs && !v.info.SignedAttrsSorted {
		v.addf("attrs-not-der-sorted: signedAttrs SET OF is not in ascending DER order as emitted")
	}

	// Signature: over the signedAttrs re-tagged as SET OF, or (no signedAttrs) over the content itself.
	hashed := contentDigest
	if v.info.HasSignedAttrs {
		set := append([]byte{0x31}, signedAttrs[1:]...)
		hashed = sha256.Sum256(set)
	}
	if v.info.SignerCert == nil {
		return nil // already reported
	}
	switch v.info.SignatureAlg {
	case oidRSAEncryption, oidSHA256WithRSA:
		pub, ok := v.info.SignerCert.PublicKey.(*rsa.PublicKey)
		if !ok {
			v.addf("sig-alg-unsupported: signatureAlgorithm %s but signer key is %T", v.info.SignatureAlg, v.info.SignerCert.PublicKey)
		} else if err := rsa.VerifyPKCS1v15(pub, crypto.SHA256, hashed[:], sig.Bytes); err != nil {
			v.addf("signature-invalid: RSA PKCS#1 v1.5: %v", err)
		}
	case oidECDSAWithSHA256:
		pub, ok := v.info.SignerCert.PublicKey.(*ecdsa.PublicKey)
		if !ok {
			v.addf("sig-alg-unsupported: signatureAlgorithm %s but signer key is %T", v.info.SignatureAlg, v.info.SignerCert.PublicKey)
		} else if !ecdsa.VerifyASN1(pub, hashed[:], sig.Bytes) {
			v.addf("signature-invalid: ECDSA (DER Ecdsa-Sig-Value) verification failed")
		}
	default:
		v.addf("sig-alg-unsupported: signatureAlgorithm %s", v.info.SignatureAlg)
	}
	return nil
}

// attrs walks the content of the signedAttrs SET OF Attribute, records the three attributes of
// interest (first occurrence, first value) and whether the elements are in DER SET OF order.
func (v *verifier) attrs(ar reader) error {
	v.info.SignedAttrsSorted = true
	var prev []byte
	for i := 0; !ar.empty(); i++ {
		what := fmt.Sprintf("signedAttrs[%d]", i)
		a, raw, err := ar.seq(what)
		if err != nil {
			return err
		}
		if prev != nil && bytes.Compare(prev, raw.FullBytes) > 0 {
			v.info.SignedAttrsSorted = false
		}
		prev = raw.FullBytes
		typ, err := a.oid(what + ".attrType")
		if err != nil {
			return err
		}
		vals, err := a.expect(clsUniversal, asn1.TagSet, true, what+".attrValues")
		if err != nil {
			return err
		}
		if err := a.done(what); err != nil {
			return err
		}
		vr := reader{vals.Bytes}
		if vr.empty() {
			continue // an empty value set is treated like an absent attribute
		}
		switch typ {
		case oidAttrContentType:
			if v.info.AttrContentType == "" {
				if v.info.AttrContentType, err = vr.oid(what + " content-type"); err != nil {
					return err
				}
			}
		case oidAttrMessageDigest:
			if v.info.AttrMessageDigest == nil {
				md, err := vr.expect(clsUniversal, asn1.TagOctetString, false, what+" message-digest")
				if err != nil {
					return err
				}
				v.info.AttrMessageDigest = append([]byte{}, md.Bytes...)
			}
		case oidAttrSigningTime:
			if v.info.AttrSigningTime.IsZero() {
				tv, err := vr.next(what + " signing-time")
				if err != nil {
					return err
				}
				var t time.Time // accepts UTCTime and GeneralizedTime
				if rest, err := asn1.Unmarshal(tv.FullBytes, &t); err != nil || len(rest) != 0 {
					return fmt.Errorf("%s signing-time: %v", what, err)
				}
				v.info.AttrSigningTime = t
			}
		}
	}
	return nil
}
