//go:build verif

package cms

import (
	"bytes"
	"crypto"
	"crypto/ecdsa"
	"crypto/elliptic"
	"crypto/rand"
	"crypto/rsa"
	"crypto/sha256"
	"crypto/x509"
	"crypto/x509/pkix"
	"encoding/asn1"
	"encoding/pem"
	"math/big"
	mrand "math/rand"
	"os"
	"os/exec"
	"path/filepath"
	"strings"
	"testing"
	"time"
)

type ident struct {
	cert            *x509.Certificate
	key             crypto.Signer
	certPEM, keyPEM string // file paths
}

var serialCounter int64 = 1000

// newIdent creates a certificate for cn signed by parent (self-signed if parent == nil) and writes PEM files.
func newIdent(t *testing.T, dir, cn string, ec, isCA bool, parent *ident) *ident {
	t.Helper()
	var key crypto.Signer
	var err error
	if ec {
		key, err = ecdsa.GenerateKey(elliptic.P256(), rand.Reader)
	} else {
		key, err = rsa.GenerateKey(rand.Reader, 2048)
	}
	if err != nil {
		t.Fatal(err)
	}
	serialCounter++
	tmpl := &x509.Certificate{
		SerialNumber:          big.NewInt(serialCounter),
		Subject:               pkix.Name{CommonName: cn, Organization: []string{"verif"}},
		NotBefore:             time.Now().Add(-time.Hour),
		NotAfter:              time.Now().Add(24 * time.Hour),
		KeyUsage:              x509.KeyUsageDigitalSignature,
		ExtKeyUsage:           []x509.ExtKeyUsage{x509.ExtKeyUsageEmailProtection},
		EmailAddresses:        []string{"signer@example.com"},
		BasicConstraintsValid: true,
		IsCA:                  isCA,
		SubjectKeyId:          []byte(cn + "-ski"),
	}
	if isCA {
		tmpl.KeyUsage |= x509.KeyUsageCertSign
	}
	signerCert, signerKey := tmpl, key
	if parent != nil {
		signerCert, signerKey = parent.cert, parent.key
	}
	der, err := x509.CreateCertificate(rand.Reader, tmpl, signerCert, key.Public(), signerKey)
	if err != nil {
		t.Fatal(err)
	}
	cert, err := x509.ParseCertificate(der)
	if err != nil {
		t.Fatal(err)
	}
	kb, err := x509.MarshalPKCS8PrivateKey(key)
	if err != nil {
		t.Fatal(err)
	}
	id := &ident{cert: cert, key: key, certPEM: filepath.Join(dir, cn+".crt.pem"), keyPEM: filepath.Join(dir, cn+".key.pem")}
	if err := os.WriteFile(id.certPEM, pem.EncodeToMemory(&pem.Block{Type: "CERTIFICATE", Bytes: der}), 0o600); err != nil {
		t.Fatal(err)
	}
	if err := os.WriteFile(id.keyPEM, pem.EncodeToMemory(&pem.Block{Type: "PRIVATE KEY", Bytes: kb}), 0o600); err != nil {
		t.Fatal(err)
	}
	return id
}

func opensslPath(t *testing.T) string {
	t.Helper()
	p, err := exec.LookPath("openssl")
	if err != nil {
		t.Skip("openssl binary not found")
	}
	return p
}

// opensslSign runs `openssl <sub> -sign -binary ... -outform DER` and returns the DER SignedData.
func opensslSign(t *testing.T, sub string, id *ident, content []byte, extra ...string) []byte {
	t.Helper()
	bin := opensslPath(t)
	dir := t.TempDir()
	in, out := filepath.Join(dir, "content.bin"), filepath.Join(dir, "sig.der")
	if err := os.WriteFile(in, content, 0o600); err != nil {
		t.Fatal(err)
	}
	args := append([]string{sub, "-sign", "-binary", "-in", in, "-signer", id.certPEM, "-inkey", id.keyPEM,
		"-outform", "DER", "-out", out, "-md", "sha256"}, extra...)
	if b, err := exec.Command(bin, args...).CombinedOutput(); err != nil {
		t.Fatalf("openssl %s: %v\n%s", strings.Join(args, " "), err, b)
	}
	sig, err := os.ReadFile(out)
	if err != nil {
		t.Fatal(err)
	}
	return sig
}

func codes(problems []string) []string {
	var out []string
	for _, p := range problems {
		out = append(out, strings.SplitN(p, ":", 2)[0])
	}
	return out
}

func hasCode(problems []string, code string) bool {
	for _, c := range codes(problems) {
		if c == code {
			return true
		}
	}
	return false
}

func wantOnly(t *testing.T, problems []string, code string) {
	t.Helper()
	if len(problems) != 1 || !hasCode(problems, code) {
		t.Errorf("want exactly [%s], got %q", code, problems)
	}
}

var testContent = []byte("Content-Type: text/plain; charset=UTF-8\r\n\r\nHello, detached world!\r\n\x00\xff binary tail")

func TestOpenSSLDetached(t *testing.T) {
	opensslPath(t)
	dir := t.TempDir()
	for _, tc := range []struct {
		name, sub, sigAlg string
		ec                bool
	}{
		{"rsa-smime", "smime", oidRSAEncryption, false},
		{"rsa-cms", "cms", oidRSAEncryption, false},
		{"ecdsa-smime", "smime", oidECDSAWithSHA256, true},
		{"ecdsa-cms", "cms", oidECDSAWithSHA256, true},
	} {
		t.Run(tc.name, func(t *testing.T) {
			id := newIdent(t, dir, tc.name, tc.ec, false, nil)
			sig := opensslSign(t, tc.sub, id, testContent)
			info, problems := Verify(sig, testContent)
			if len(problems) != 0 {
				t.Fatalf("good signature reported problems: %q", problems)
			}
			if !info.Detached || info.EContentType != oidData || info.SignerDigestAlg != oidSHA256 ||
				info.SignatureAlg != tc.sigAlg || !info.HasSignedAttrs || info.AttrContentType != oidData ||
				!info.SignedAttrsSorted || len(info.DigestAlgOIDs) != 1 || info.DigestAlgOIDs[0] != oidSHA256 || info.EmptyUnsignedAttrs {
				t.Errorf("unexpected info: %+v", info)
			}
			if info.SignerCert == nil || !info.SignerCert.Equal(id.cert) || len(info.Certificates) != 1 {
				t.Errorf("signer cert not identified: %v / %d certs", info.SignerCert, len(info.Certificates))
			}
			want := sha256.Sum256(testContent)
			if !bytes.Equal(info.AttrMessageDigest, want[:]) {
				t.Errorf("message-digest attr %x, want %x", info.AttrMessageDigest, want)
			}
			if d := time.Since(info.AttrSigningTime); d < -5*time.Minute || d > 5*time.Minute {
				t.Errorf("signing time %v is not about now", info.AttrSigningTime)
			}

			// flipped content byte
			bad := append([]byte{}, testContent...)
			bad[len(bad)/2] ^= 0x01
			_, problems = Verify(sig, bad)
			wantOnly(t, problems, "digest-mismatch")

			// flipped signature byte: the signature OCTET STRING is the tail of the structure
			for _, off := range []int{1, 9} {
				badSig := append([]byte{}, sig...)
				badSig[len(badSig)-off] ^= 0x40
				_, problems = Verify(badSig, testContent)
				wantOnly(t, problems, "signature-invalid")
			}

			// a flipped bit inside the signed attributes (message-digest value) breaks both checks
			badSig := append([]byte{}, sig...)
			i := bytes.Index(badSig, want[:])
			if i < 0 {
				t.Fatal("digest not found in signature")
			}
			badSig[i+5] ^= 0x80
			_, problems = Verify(badSig, testContent)
			if !hasCode(problems, "digest-mismatch") || !hasCode(problems, "signature-invalid") || len(problems) != 2 {
				t.Errorf("tampered attrs: got %q", problems)
			}

			// trailing data
			_, problems = Verify(append(append([]byte{}, sig...), 0x00, 0x00), testContent)
			wantOnly(t, problems, "trailing-data")

			// every truncation must fail to parse and never panic
			for n := 0; n < len(sig); n += 1 + n/40 {
				nfo, problems := Verify(sig[:n], testContent)
				if nfo == nil || !hasCode(problems, "parse") {
					t.Fatalf("truncated to %d bytes: info=%v problems=%q", n, nfo, problems)
				}
			}
		})
	}
}

func TestOpenSSLVariants(t *testing.T) {
	opensslPath(t)
	dir := t.TempDir()
	id := newIdent(t, dir, "variants", false, false, nil)

	t.Run("nodetach", func(t *testing.T) {
		info, problems := Verify(opensslSign(t, "smime", id, testContent, "-nodetach"), testContent)
		wantOnly(t, problems, "not-detached")
		if info.Detached {
			t.Error("Detached should be false")
		}
	})
	t.Run("nocerts", func(t *testing.T) {
		info, problems := Verify(opensslSign(t, "smime", id, testContent, "-nocerts"), testContent)
		wantOnly(t, problems, "signer-cert-missing")
		if info.SignerCert != nil || len(info.Certificates) != 0 {
			t.Errorf("unexpected certs: %+v", info)
		}
	})
	t.Run("noattr", func(t *testing.T) {
		info, problems := Verify(opensslSign(t, "smime", id, testContent, "-noattr"), testContent)
		if info.HasSignedAttrs || len(problems) != 2 || !hasCode(problems, "attr-content-type-missing") || !hasCode(problems, "attr-message-digest-missing") {
			t.Errorf("got %q", problems) // the signature itself (directly over the content) is valid
		}
		_, problems = Verify(opensslSign(t, "smime", id, testContent, "-noattr"), []byte("other"))
		if !hasCode(problems, "signature-invalid") {
			t.Errorf("got %q", problems)
		}
	})
	t.Run("sha1", func(t *testing.T) {
		sig := opensslSign(t, "cms", id, testContent, "-md", "sha1") // later -md overrides
		info, problems := Verify(sig, testContent)
		if info.SignerDigestAlg == oidSHA256 {
			t.Skip("openssl ignored -md sha1")
		}
		wantOnly(t, problems, "digest-alg-unsupported")
	})
	t.Run("keyid", func(t *testing.T) {
		info, problems := Verify(opensslSign(t, "cms", id, testContent, "-keyid"), testContent)
		if len(problems) != 0 || info.SignerCert == nil || info.Version != 3 {
			t.Errorf("subjectKeyIdentifier sid: version %d problems %q", info.Version, problems)
		}
	})
	t.Run("two-signers", func(t *testing.T) {
		id2 := newIdent(t, dir, "second", true, false, nil)
		_, problems := Verify(opensslSign(t, "cms", id, testContent, "-signer", id2.certPEM, "-inkey", id2.keyPEM), testContent)
		wantOnly(t, problems, "signer-count")
	})
}

func TestOpenSSLIntermediate(t *testing.T) {
	opensslPath(t)
	dir := t.TempDir()
	for _, ec := range []bool{false, true} {
		ca := newIdent(t, dir, "ca", ec, true, nil)
		leaf := newIdent(t, dir, "leaf", ec, false, ca)
		sig := opensslSign(t, "smime", leaf, testContent, "-certfile", ca.certPEM)
		info, problems := Verify(sig, testContent)
		if len(problems) != 0 {
			t.Fatalf("ec=%v: problems %q", ec, problems)
		}
		if len(info.Certificates) != 2 {
			t.Fatalf("ec=%v: %d certificates carried, want 2", ec, len(info.Certificates))
		}
		if info.SignerCert == nil || !info.SignerCert.Equal(leaf.cert) || info.SignerCert.Subject.CommonName != "leaf" {
			t.Errorf("ec=%v: SignerCert is %v, want the leaf", ec, info.SignerCert)
		}
	}
}

// --- a minimal in-test signer mimicking the shape the library under test emits -------------------

type tAttr struct {
	Type  asn1.ObjectIdentifier
	Value asn1.RawValue `asn1:"set"`
}

type tAlg struct{ Algorithm asn1.ObjectIdentifier }

func mustMarshal(t *testing.T, v any, params ...string) []byte {
	t.Helper()
	b, err := asn1.MarshalWithParams(v, strings.Join(params, ","))
	if err != nil {
		t.Fatal(err)
	}
	return b
}

func tlv(tag byte, parts ...[]byte) []byte {
	body := bytes.Join(parts, nil)
	b, _ := asn1.Marshal(asn1.RawValue{Class: int(tag >> 6), Tag: int(tag & 0x1f), IsCompound: tag&0x20 != 0, Bytes: body})
	return b
}

// goSign builds a detached SignedData with the signed attributes in the given order (no sorting) and
// signs exactly the emitted bytes re-tagged as SET, so only the ordering can be wrong.
func goSign(t *testing.T, id *ident, content []byte, sigAlg asn1.ObjectIdentifier, order []int, mutate func(attrs [][]byte) [][]byte) []byte {
	t.Helper()
	oid := func(s ...int) asn1.ObjectIdentifier { return s }
	sha := oid(2, 16, 840, 1, 101, 3, 4, 2, 1)
	digest := sha256.Sum256(content)
	mk := func(typ asn1.ObjectIdentifier, val any) []byte {
		return mustMarshal(t, tAttr{typ, asn1.RawValue{Tag: 17, IsCompound: true, Bytes: mustMarshal(t, val)}})
	}
	all := [][]byte{
		mk(oid(1, 2, 840, 113549, 1, 9, 3), oid(1, 2, 840, 113549, 1, 7, 1)),
		mk(oid(1, 2, 840, 113549, 1, 9, 4), digest[:]),
		mk(oid(1, 2, 840, 113549, 1, 9, 5), time.Now().UTC()),
	}
	var attrs [][]byte
	for _, i := range order {
		attrs = append(attrs, all[i])
	}
	if mutate != nil {
		attrs = mutate(attrs)
	}
	h := sha256.Sum256(tlv(0x31, attrs...))
	sig, err := id.key.Sign(rand.Reader, h[:], crypto.SHA256)
	if err != nil {
		t.Fatal(err)
	}
	signerInfo := tlv(0x30,
		mustMarshal(t, 1),
		tlv(0x30, id.cert.RawIssuer, mustMarshal(t, id.cert.SerialNumber)),
		mustMarshal(t, tAlg{sha}),
		tlv(0xA0, attrs...),
		mustMarshal(t, tAlg{sigAlg}),
		mustMarshal(t, sig),
		tlv(0xA1), // the library under test may emit an empty unsignedAttrs [1]; must be tolerated
	)
	signedData := tlv(0x30,
		mustMarshal(t, 1),
		tlv(0x31, mustMarshal(t, tAlg{sha})),
		tlv(0x30, mustMarshal(t, oid(1, 2, 840, 113549, 1, 7, 1))),
		tlv(0xA0, id.cert.Raw),
		tlv(0x31, signerInfo),
	)
	return tlv(0x30, mustMarshal(t, oid(1, 2, 840, 113549, 1, 7, 2)), tlv(0xA0, signedData))
}

func TestGoBuiltShapes(t *testing.T) {
	dir := t.TempDir()
	rsaID := newIdent(t, dir, "go-rsa", false, false, nil)
	ecID := newIdent(t, dir, "go-ec", true, false, nil)
	rsa256 := asn1.ObjectIdentifier{1, 2, 840, 113549, 1, 1, 11}
	ecdsa256 := asn1.ObjectIdentifier{1, 2, 840, 10045, 4, 3, 2}

	for _, tc := range []struct {
		id  *ident
		alg asn1.ObjectIdentifier
	}{{rsaID, rsa256}, {ecID, ecdsa256}} {
		// DER order of the three attributes: content-type (short), signing-time, message-digest
		// (sorted by encoded bytes => by total length byte first).
		info, problems := Verify(goSign(t, tc.id, testContent, tc.alg, []int{0, 2, 1}, nil), testContent)
		if len(problems) != 0 || !info.SignedAttrsSorted || info.SignatureAlg != tc.alg.String() || info.Version != 1 || !info.EmptyUnsignedAttrs {
			t.Errorf("%v sorted: info %+v problems %q", tc.alg, info, problems)
		}
		info, problems = Verify(goSign(t, tc.id, testContent, tc.alg, []int{0, 1, 2}, nil), testContent)
		wantOnly(t, problems, "attrs-not-der-sorted")
		if info.SignedAttrsSorted {
			t.Error("SignedAttrsSorted should be false")
		}
	}

	// key type / algorithm mismatch and unknown algorithm
	_, problems := Verify(goSign(t, rsaID, testContent, ecdsa256, []int{0, 2, 1}, nil), testContent)
	wantOnly(t, problems, "sig-alg-unsupported")
	_, problems = Verify(goSign(t, rsaID, testContent, asn1.ObjectIdentifier{1, 2, 840, 113549, 1, 1, 5}, []int{0, 2, 1}, nil), testContent)
	wantOnly(t, problems, "sig-alg-unsupported")

	// missing attributes
	_, problems = Verify(goSign(t, rsaID, testContent, rsa256, []int{2, 1}, nil), testContent)
	wantOnly(t, problems, "attr-content-type-missing")
	_, problems = Verify(goSign(t, rsaID, testContent, rsa256, []int{0, 2}, nil), testContent)
	wantOnly(t, problems, "attr-message-digest-missing")

	// wrong content-type attribute value (signedData instead of data)
	_, problems = Verify(goSign(t, rsaID, testContent, rsa256, []int{2, 1}, func(a [][]byte) [][]byte {
		ct := mustMarshal(t, tAttr{asn1.ObjectIdentifier{1, 2, 840, 113549, 1, 9, 3},
			asn1.RawValue{Tag: 17, IsCompound: true, Bytes: mustMarshal(t, asn1.ObjectIdentifier{1, 2, 840, 113549, 1, 7, 2})}})
		return append([][]byte{ct}, a...)
	}), testContent)
	wantOnly(t, problems, "attr-content-type-wrong")

	// not SignedData at all
	_, problems = Verify(tlv(0x30, mustMarshal(t, asn1.ObjectIdentifier{1, 2, 840, 113549, 1, 7, 1}), tlv(0xA0, mustMarshal(t, []byte("x")))), nil)
	wantOnly(t, problems, "not-signed-data")
}

func TestGarbageNeverPanics(t *testing.T) {
	dir := t.TempDir()
	id := newIdent(t, dir, "fuzz", true, false, nil)
	good := goSign(t, id, testContent, asn1.ObjectIdentifier{1, 2, 840, 10045, 4, 3, 2}, []int{0, 2, 1}, nil)
	rng := mrand.New(mrand.NewSource(1))
	for _, in := range [][]byte{nil, {}, {0x30}, {0x30, 0x80}, {0x30, 0x84, 0xff, 0xff, 0xff, 0xff}, []byte("-----BEGIN PKCS7-----"), bytes.Repeat([]byte{0x30, 0x82}, 100)} {
		info, problems := Verify(in, testContent)
		if info == nil || !hasCode(problems, "parse") {
			t.Errorf("input %x: info=%v problems=%q", in, info, problems)
		}
	}
	for i := 0; i < 2000; i++ {
		buf := make([]byte, rng.Intn(300))
		rng.Read(buf)
		info, problems := Verify(buf, testContent)
		if info == nil || len(problems) == 0 {
			t.Fatalf("random input %x verified?! info=%v", buf, info)
		}
	}
	// single-byte mutations of a good structure: must never panic and never verify cleanly against
	// different content; against the right content a mutation may be benign only if it verifies fully.
	for i := 0; i < len(good); i++ {
		m := append([]byte{}, good...)
		m[i] ^= byte(1 << uint(rng.Intn(8)))
		if info, _ := Verify(m, testContent); info == nil {
			t.Fatalf("nil info at mutation %d", i)
		}
		if _, problems := Verify(m, []byte("different")); len(problems) == 0 {
			t.Fatalf("mutation at %d verifies different content", i)
		}
	}
}
