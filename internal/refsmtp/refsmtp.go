//go:build verif

// Package refsmtp is the reference SMTP server of the harness: scripted replies, an
// online RFC 5321 sequencing automaton (Postfix-like strictness), a commit log of
// everything accepted at end-of-data, a byte tap, STARTTLS and pluggable AUTH.
// It monitors the client from the far end of the connection.
package refsmtp

import (
	"bufio"
	"bytes"
	"context"
	"crypto/tls"
	"encoding/base64"
	"errors"
	"fmt"
	"io"
	"net"
	"strings"
	"sync"
	"time"

	"verif/internal/faultio"
	"verif/internal/rfc5321"
)

type ActionKind int

const (
	Default ActionKind = iota // the normal, positive reply
	Reply                     // a custom reply (Code, Text)
	Drop                      // close the connection without replying
	Stall                     // go silent, hold the connection open
	Raw                       // write Text verbatim (not an SMTP reply), e.g. garbage
	Mute                      // never reply again, but keep reading (and recording) what the client sends
)

type Action struct {
	Kind ActionKind
	Code int
	Text string // may contain \n for multi-line replies
}

// Step describes the position at which the server has to decide a reply.
type Step struct {
	Index int    // 0 = greeting, then 1.. for every command / end-of-data
	Verb  string // GREETING EHLO HELO STARTTLS AUTH MAIL RCPT DATA DATA-END RSET NOOP QUIT VRFY OTHER
	Line  string
	Sess  *Session
}

// AuthIO lets an AUTH handler talk to the client.
type AuthIO interface {
	// Challenge sends "334 <base64(data)>" and returns the decoded client answer.
	Challenge(data []byte) (resp []byte, cancel bool, err error)
	// ChallengeRaw sends "334 <text>" verbatim (for malformed challenges).
	ChallengeRaw(text string) (resp []byte, cancel bool, err error)
	Session() *Session
}

// AuthHandler runs one AUTH exchange and returns the final action (Default = 235).
type AuthHandler func(io AuthIO, mech string, initial []byte, hasInitial bool) Action

type Config struct {
	Greeting string
	// Caps returns the EHLO keywords; ehloN counts EHLO commands on this connection (1-based).
	Caps func(ehloN int, tlsOn bool) []string
	// Decide picks the reply at every step (nil = always Default).
	Decide func(st Step) Action
	// RefuseEHLO answers EHLO with 502 (HELO fallback).
	RefuseEHLO bool
	TLS        *tls.Config
	// TLSHandshake overrides the server side of the handshake (C07 garbage); nil = tls.Server handshake.
	TLSGarbage bool
	// TLSStall: after "220 ready" the server never starts the handshake and holds the connection.
	TLSStall bool
	Auth     AuthHandler
	// Delay is called before every reply is written (latency jitter).
	Delay func(verb string) time.Duration
	// DataReadDelay slows down reading of DATA content (per read call).
	DataReadDelay time.Duration
	// StallDataAfter >= 0: stop reading DATA content after that many bytes and hold the connection.
	StallDataAfter int
	// ProbePreGreeting waits briefly before the greeting and records bytes the client sent early.
	ProbePreGreeting bool
	Hostname         string
	AllowUTF8        bool
	// Multiline: every reply that would be a single line (except 334 and the EHLO reply) is sent as a
	// two-line reply "code-... / code ..." (RFC 5321, section 4.2.1: any reply may be multi-line).
	Multiline bool
}

// CmdRecord is one command (or end-of-data) with the reply it got.
type CmdRecord struct {
	Tick        int64            `json:"tick"`
	Index       int              `json:"index"`
	Verb        string           `json:"verb"`
	Line        string           `json:"line"`
	ReplyCode   int              `json:"reply_code"`
	Reply       string           `json:"reply"`
	Token       string           `json:"token"`
	TLS         bool             `json:"tls"`
	StateBefore string           `json:"state_before"`
	Dropped     bool             `json:"dropped,omitempty"`
	Stalled     bool             `json:"stalled,omitempty"`
	SyntaxErr   string           `json:"syntax_err,omitempty"`
	Parsed      *rfc5321.Command `json:"-"`
}

// Commit is one end-of-data.
type Commit struct {
	Tick     int64    `json:"tick"`
	From     string   `json:"from"`
	FromLine string   `json:"from_line"`
	Rcpts    []string `json:"rcpts"` // accepted forward-paths (mailbox form)
	Data     []byte   `json:"-"`
	Size     int      `json:"size"`
	Code     int      `json:"code"`
	Accepted bool     `json:"accepted"` // 2yz at end-of-data
	// ReplyLost: the server took the message (it counts as accepted) but the connection went down before the
	// 2yz reply left: Action{Kind: Drop, Code: 2yz} at DATA-END
	ReplyLost bool `json:"reply_lost,omitempty"`
	Complete  bool `json:"complete"` // terminating CRLF.CRLF was received
}

type Session struct {
	ID  int
	Cfg *Config

	mu             sync.Mutex
	Cmds           []CmdRecord
	Commits        []Commit
	Violations     []string // protocol violations seen by the automaton ("code: detail")
	States         map[string]int
	Trans          map[string]int
	ClearBytes     []byte // every byte received before TLS started (or all bytes if TLS never started)
	TLSStarted     bool
	TLSOK          bool
	TLSErr         string
	TLSState       *tls.ConnectionState
	PostTLSAppData int    // application-data bytes decrypted after the handshake
	PostFailBytes  []byte // raw bytes received after a failed/garbled handshake
	HandshakeBytes []byte // raw bytes received during the handshake (TLS records)
	RawBytes       []byte // implicit TLS: every raw byte received on the wire
	Implicit       bool
	EarlyBytes     []byte
	ClientEOF      bool
	Quit           bool
	Done           chan struct{}
	stop           chan struct{}

	// automaton
	state          string // start, ready, mail, rcpt, unknown, quit
	heloDone       bool
	ehloN          int
	lastCaps       map[string]bool
	heloOnly       bool
	txFrom         string
	txFromLine     string
	txRcptOK       []string
	txRcptRejected int
	txRcptSent     int
	step           int
	conn           net.Conn
	br             *bufio.Reader
	tap            *tapConn
}

type tapConn struct {
	net.Conn
	s *Session
}

func (t *tapConn) Read(p []byte) (int, error) {
	n, err := t.Conn.Read(p)
	if n > 0 {
		t.s.mu.Lock()
		if !t.s.TLSStarted {
			t.s.ClearBytes = append(t.s.ClearBytes, p[:n]...)
		}
		t.s.mu.Unlock()
	}
	return n, err
}

func (s *Session) violate(code, detail string) {
	s.mu.Lock()
	s.Violations = append(s.Violations, code+": "+detail)
	s.mu.Unlock()
}

func (s *Session) setState(n string) {
	s.mu.Lock()
	if s.States == nil {
		s.States, s.Trans = map[string]int{}, map[string]int{}
	}
	s.Trans[s.state+">"+n]++
	s.States[n]++
	s.state = n
	s.mu.Unlock()
}

// Snapshot returns copies of the recorded logs.
func (s *Session) Snapshot() (cmds []CmdRecord, commits []Commit, viol []string) {
	s.mu.Lock()
	defer s.mu.Unlock()
	return append([]CmdRecord(nil), s.Cmds...), append([]Commit(nil), s.Commits...), append([]string(nil), s.Violations...)
}

func (s *Session) Clear() []byte {
	s.mu.Lock()
	defer s.mu.Unlock()
	return append([]byte(nil), s.ClearBytes...)
}

// Transcript renders the dialogue compactly (verbs and codes), for distinct counting.
func (s *Session) Transcript() string {
	s.mu.Lock()
	defer s.mu.Unlock()
	var sb strings.Builder
	for _, c := range s.Cmds {
		fmt.Fprintf(&sb, "%s:%d", c.Verb, c.ReplyCode)
		if c.Dropped {
			sb.WriteString("X")
		}
		sb.WriteByte(' ')
	}
	return sb.String()
}

// Stop releases a stalled session.
func (s *Session) Stop() {
	select {
	case <-s.stop:
	default:
		close(s.stop)
	}
	if s.conn != nil {
		_ = s.conn.Close()
	}
}

func defaultCaps(int, bool) []string {
	return []string{"8BITMIME", "SMTPUTF8", "DSN", "ENHANCEDSTATUSCODES"}
}

// ServeImplicitTLS accepts TLS immediately on raw (implicit TLS / SMTPS) and then serves SMTP on top.
// Every raw byte received is recorded in Session.RawBytes; handshake result in TLSOK/TLSErr.
func ServeImplicitTLS(raw net.Conn, cfg *Config, id int) *Session {
	s := &Session{ID: id, Cfg: cfg, Done: make(chan struct{}), stop: make(chan struct{}), state: "start", States: map[string]int{}, Trans: map[string]int{}}
	if cfg.Caps == nil {
		cfg.Caps = defaultCaps
	}
	if cfg.Hostname == "" {
		cfg.Hostname = "ref.verif.example"
	}
	s.Implicit = true
	rt := &rawTap{Conn: raw, s: s}
	go func() {
		defer close(s.Done)
		defer func() { _ = raw.Close() }()
		if cfg.TLSGarbage {
			_, _ = raw.Write([]byte("220 this is not TLS\r\n"))
			s.tap = &tapConn{Conn: rt, s: s}
			s.mu.Lock()
			s.TLSStarted = true
			s.mu.Unlock()
			s.drainAfterFailedTLS()
			return
		}
		if cfg.TLSStall {
			// never answer the ClientHello, hold the connection
			s.mu.Lock()
			s.TLSStarted = true
			s.mu.Unlock()
			<-s.stop
			return
		}
		tc := tls.Server(rt, cfg.TLS)
		_ = tc.SetDeadline(time.Now().Add(10 * time.Second))
		err := tc.Handshake()
		_ = tc.SetDeadline(time.Time{})
		s.mu.Lock()
		s.TLSStarted = true
		s.mu.Unlock()
		if err != nil {
			s.mu.Lock()
			s.TLSErr = err.Error()
			s.mu.Unlock()
			s.tap = &tapConn{Conn: rt, s: s}
			s.drainAfterFailedTLS()
			return
		}
		st := tc.ConnectionState()
		s.mu.Lock()
		s.TLSOK = true
		s.TLSState = &st
		s.mu.Unlock()
		s.tap = &tapConn{Conn: tc, s: s}
		s.conn = &countConn{Conn: tc, s: s}
		s.br = bufio.NewReaderSize(s.conn, 4096)
		s.run()
	}()
	return s
}

// rawTap records every raw byte below an implicit-TLS session.
type rawTap struct {
	net.Conn
	s *Session
}

func (t *rawTap) Read(p []byte) (int, error) {
	n, err := t.Conn.Read(p)
	if n > 0 {
		t.s.mu.Lock()
		if len(t.s.RawBytes) < 1<<16 {
			t.s.RawBytes = append(t.s.RawBytes, p[:n]...)
		}
		t.s.mu.Unlock()
	}
	return n, err
}

// Serve runs the server side on conn in a new goroutine.
func Serve(conn net.Conn, cfg *Config, id int) *Session {
	s := &Session{ID: id, Cfg: cfg, Done: make(chan struct{}), stop: make(chan struct{}), state: "start", States: map[string]int{}, Trans: map[string]int{}}
	s.tap = &tapConn{Conn: conn, s: s}
	s.conn = s.tap
	s.br = bufio.NewReaderSize(s.conn, 4096)
	if cfg.Caps == nil {
		cfg.Caps = defaultCaps
	}
	if cfg.Hostname == "" {
		cfg.Hostname = "ref.verif.example"
	}
	go func() {
		defer close(s.Done)
		defer func() { _ = conn.Close() }()
		s.run()
	}()
	return s
}

func (s *Session) decide(verb, line string) Action {
	s.step++
	if s.Cfg.Decide == nil {
		return Action{}
	}
	return s.Cfg.Decide(Step{Index: s.step - 1, Verb: verb, Line: line, Sess: s})
}

var errStop = errors.New("session stopped")

// reply writes a reply and records it with the command.
func (s *Session) reply(rec *CmdRecord, code int, text string) error {
	if d := s.Cfg.Delay; d != nil {
		if dur := d(rec.Verb); dur > 0 {
			time.Sleep(dur)
		}
	}
	rec.Token = fmt.Sprintf("tok-c%d-s%d", s.ID, rec.Index)
	lines := strings.Split(text, "\n")
	if s.Cfg.Multiline && code != 334 && rec.Verb != "EHLO" && len(lines) == 1 {
		first := "continued"
		if f := strings.Fields(text); len(f) > 0 && len(f[0]) >= 5 && f[0][1] == '.' && strings.Count(f[0], ".") == 2 && f[0][0] >= '2' && f[0][0] <= '5' {
			first = f[0] + " continued" // the enhanced status code is repeated on every line (RFC 2034)
		}
		lines = []string{first, lines[0]}
	}
	// the token goes on the last line so that it never disturbs EHLO keyword lines
	lines[len(lines)-1] = strings.TrimRight(lines[len(lines)-1]+" ["+rec.Token+"]", " ")
	if rec.Verb == "EHLO" && code == 250 && len(lines) > 1 {
		// keep keyword lines clean: token on the first (greeting) line
		lines[len(lines)-1] = strings.TrimSuffix(lines[len(lines)-1], " ["+rec.Token+"]")
		lines[0] += " [" + rec.Token + "]"
	}
	var sb strings.Builder
	for i, l := range lines {
		sep := "-"
		if i == len(lines)-1 {
			sep = " "
		}
		fmt.Fprintf(&sb, "%d%s%s\r\n", code, sep, l)
	}
	rec.ReplyCode, rec.Reply = code, strings.Join(lines, "\n")
	rec.Tick = faultio.Tick()
	s.mu.Lock()
	s.Cmds = append(s.Cmds, *rec)
	s.mu.Unlock()
	_, err := io.WriteString(s.conn, sb.String())
	return err
}

func (s *Session) record(rec *CmdRecord) {
	rec.Tick = faultio.Tick()
	s.mu.Lock()
	s.Cmds = append(s.Cmds, *rec)
	s.mu.Unlock()
}

// act applies a scripted action; returns handled=true when the default path must be skipped.
func (s *Session) act(rec *CmdRecord, a Action) (handled bool, err error) {
	switch a.Kind {
	case Reply:
		return true, s.reply(rec, a.Code, a.Text)
	case Drop:
		rec.Dropped = true
		s.record(rec)
		_ = s.conn.Close()
		return true, errStop
	case Stall:
		rec.Stalled = true
		s.record(rec)
		<-s.stop
		return true, errStop
	case Mute:
		rec.Stalled = true
		s.record(rec)
		for {
			line, err := s.readLine()
			if err != nil {
				<-s.stop
				return true, errStop
			}
			s.record(&CmdRecord{Index: s.step, Verb: "MUTED", Line: line, TLS: s.tlsOn(), StateBefore: "muted"})
		}
	case Raw:
		rec.ReplyCode, rec.Reply = 0, a.Text
		s.record(rec)
		_, err := io.WriteString(s.conn, a.Text)
		return true, err
	}
	return false, nil
}

// readLine reads up to CRLF; bare CR / LF stay inside the line.
func (s *Session) readLine() (string, error) {
	var line []byte
	for {
		b, err := s.br.ReadByte()
		if err != nil {
			if len(line) > 0 {
				return string(line), io.ErrUnexpectedEOF
			}
			return "", err
		}
		line = append(line, b)
		n := len(line)
		if n >= 2 && line[n-2] == '\r' && line[n-1] == '\n' {
			return string(line[:n-2]), nil
		}
		if n > 100000 {
			return string(line), errors.New("line too long")
		}
	}
}

func (s *Session) run() {
	cfg := s.Cfg
	if cfg.ProbePreGreeting {
		_ = s.conn.SetReadDeadline(time.Now().Add(3 * time.Millisecond))
		if b, err := s.br.Peek(1); err == nil && len(b) > 0 {
			n := s.br.Buffered()
			eb, _ := s.br.Peek(n)
			s.mu.Lock()
			s.EarlyBytes = append([]byte(nil), eb...)
			s.mu.Unlock()
			s.violate("bytes-before-greeting", fmt.Sprintf("%q", eb))
		}
		_ = s.conn.SetReadDeadline(time.Time{})
	}
	grec := &CmdRecord{Index: 0, Verb: "GREETING", StateBefore: "start"}
	a := s.decide("GREETING", "")
	greetOK := true
	if handled, err := s.act(grec, a); handled {
		if err != nil {
			return
		}
		greetOK = a.Code == 220
	} else {
		g := cfg.Greeting
		if g == "" {
			g = cfg.Hostname + " ESMTP verif reference server"
		}
		if err := s.reply(grec, 220, g); err != nil {
			return
		}
	}
	if greetOK {
		s.setState("greeted")
	} else {
		s.setState("refused")
	}
	for {
		line, err := s.readLine()
		if err != nil {
			s.mu.Lock()
			s.ClientEOF = true
			s.mu.Unlock()
			if line != "" {
				s.violate("truncated-line", fmt.Sprintf("%q", line))
			}
			return
		}
		if s.handle(line) != nil {
			return
		}
		s.mu.Lock()
		q := s.Quit
		s.mu.Unlock()
		if q {
			// anything after QUIT is a violation; see whether the client sends more
			wait := 2 * time.Millisecond
			if s.tlsOn() {
				// a TLS client says goodbye with a close_notify record: over the unbuffered in-memory pipe that write
				// fails if this side has hung up already. Wait for the client's end of the stream (it comes at once).
				wait = 5 * time.Second
			}
			_ = s.conn.SetReadDeadline(time.Now().Add(wait))
			if l, err := s.readLine(); err == nil || l != "" {
				s.violate("command-after-quit", fmt.Sprintf("%q", l))
			}
			return
		}
	}
}

func (s *Session) tlsOn() bool {
	s.mu.Lock()
	defer s.mu.Unlock()
	return s.TLSOK
}

func (s *Session) handle(line string) error {
	cfg := s.Cfg
	s.mu.Lock()
	stBefore := s.state
	s.mu.Unlock()
	rec := &CmdRecord{Index: s.step, Line: line, TLS: s.tlsOn(), StateBefore: stBefore}
	cmd, perr := rfc5321.ParseLine([]byte(line), cfg.AllowUTF8)
	if perr != nil {
		rec.SyntaxErr = perr.Error()
		rec.Verb = "OTHER"
		up := strings.ToUpper(line)
		for _, v := range []string{"EHLO", "HELO", "MAIL", "RCPT", "DATA", "RSET", "NOOP", "QUIT", "STARTTLS", "AUTH"} {
			if strings.HasPrefix(up, v) {
				rec.Verb = v
			}
		}
		s.violate("syntax", fmt.Sprintf("%q: %v", line, perr))
		rec.Index = s.step
		a := s.decide(rec.Verb, line)
		if handled, err := s.act(rec, a); handled {
			return err
		}
		return s.reply(rec, 500, "5.5.2 Syntax error")
	}
	rec.Verb = cmd.Verb
	rec.Parsed = &cmd
	if stBefore == "refused" && cmd.Verb != "QUIT" {
		s.violate("command-after-refused-greeting", line)
	}
	rec.Index = s.step
	a := s.decide(cmd.Verb, line)

	needHelo := func() bool {
		if !s.heloDone {
			s.violate("no-helo", fmt.Sprintf("%s before EHLO/HELO", cmd.Verb))
			return true
		}
		return false
	}
	checkParams := func(ps []rfc5321.Param, which string) {
		for _, p := range ps {
			k := strings.ToUpper(p.Key)
			need := ""
			switch k {
			case "BODY":
				need = "8BITMIME"
			case "SMTPUTF8":
				need = "SMTPUTF8"
			case "RET", "ENVID", "NOTIFY", "ORCPT":
				need = "DSN"
			case "SIZE":
				need = "SIZE"
			default:
				need = k
			}
			if s.heloOnly || !s.lastCaps[need] {
				s.violate("param-not-advertised", fmt.Sprintf("%s parameter %s but %s is not in the latest EHLO reply (helo-only=%t)", which, k, need, s.heloOnly))
			}
		}
		var err error
		if which == "MAIL" {
			_, err = rfc5321.CheckMailParams(ps)
		} else {
			_, err = rfc5321.CheckRcptParams(ps)
		}
		if err != nil {
			s.violate("param-syntax", fmt.Sprintf("%s: %v", which, err))
		}
	}

	switch cmd.Verb {
	case "EHLO", "HELO":
		if handled, err := s.act(rec, a); handled {
			if err == nil && a.Code/100 == 2 {
				s.afterHelo(cmd.Verb, nil)
			}
			return err
		}
		if cmd.Verb == "EHLO" && cfg.RefuseEHLO {
			return s.reply(rec, 502, "5.5.1 EHLO not implemented")
		}
		if cmd.Verb == "HELO" {
			s.afterHelo("HELO", nil)
			return s.reply(rec, 250, cfg.Hostname)
		}
		s.ehloN++
		caps := cfg.Caps(s.ehloN, s.tlsOn())
		s.afterHelo("EHLO", caps)
		if len(caps) == 0 {
			return s.reply(rec, 250, cfg.Hostname) // bare greeting line: no extension at all
		}
		return s.reply(rec, 250, cfg.Hostname+"\n"+strings.Join(caps, "\n"))
	case "STARTTLS":
		needHelo()
		if !s.lastCaps["STARTTLS"] {
			s.violate("starttls-not-advertised", line)
		}
		if handled, err := s.act(rec, a); handled {
			if err == nil && a.Code == 220 {
				return s.startTLS()
			}
			return err
		}
		if err := s.reply(rec, 220, "2.0.0 Ready to start TLS"); err != nil {
			return err
		}
		return s.startTLS()
	case "AUTH":
		needHelo()
		if handled, err := s.act(rec, a); handled {
			return err
		}
		return s.doAuth(rec, cmd)
	case "MAIL":
		needHelo()
		switch stBefore {
		case "mail", "rcpt":
			s.violate("nested-mail", fmt.Sprintf("MAIL while a transaction is open (state %s): %s", stBefore, line))
		}
		checkParams(cmd.Params, "MAIL")
		if handled, err := s.act(rec, a); handled {
			if err == nil && a.Code/100 == 2 {
				s.beginTx(cmd, line)
			}
			return err
		}
		if stBefore == "mail" || stBefore == "rcpt" {
			return s.reply(rec, 503, "5.5.1 Error: nested MAIL command")
		}
		s.beginTx(cmd, line)
		return s.reply(rec, 250, "2.1.0 Ok")
	case "RCPT":
		needHelo()
		if stBefore != "mail" && stBefore != "rcpt" && stBefore != "unknown" {
			s.violate("rcpt-without-mail", fmt.Sprintf("RCPT in state %s: %s", stBefore, line))
			if handled, err := s.act(rec, a); handled {
				return err
			}
			return s.reply(rec, 503, "5.5.1 Error: need MAIL command")
		}
		checkParams(cmd.Params, "RCPT")
		s.txRcptSent++
		if handled, err := s.act(rec, a); handled {
			if err == nil && a.Code/100 == 2 {
				s.txRcptOK = append(s.txRcptOK, cmd.Path.Mailbox())
				s.setState("rcpt")
			} else {
				s.txRcptRejected++
			}
			return err
		}
		s.txRcptOK = append(s.txRcptOK, cmd.Path.Mailbox())
		s.setState("rcpt")
		return s.reply(rec, 250, "2.1.5 Ok")
	case "DATA":
		needHelo()
		if stBefore != "rcpt" && stBefore != "mail" && stBefore != "unknown" {
			s.violate("data-without-transaction", fmt.Sprintf("DATA in state %s", stBefore))
			if handled, err := s.act(rec, a); handled {
				return err
			}
			return s.reply(rec, 503, "5.5.1 Error: need RCPT command")
		}
		if s.txRcptRejected > 0 {
			s.violate("data-after-rejected-rcpt", fmt.Sprintf("DATA although %d of %d RCPT were rejected", s.txRcptRejected, s.txRcptSent))
		}
		if len(s.txRcptOK) == 0 {
			s.violate("data-without-rcpt", "DATA with no accepted recipient")
			if handled, err := s.act(rec, a); handled {
				return err
			}
			return s.reply(rec, 554, "5.5.1 Error: no valid recipients")
		}
		if handled, err := s.act(rec, a); handled {
			if err != nil || a.Code != 354 {
				return err // transaction stays open after a refused DATA
			}
		} else if err := s.reply(rec, 354, "End data with <CR><LF>.<CR><LF>"); err != nil {
			return err
		}
		return s.readData()
	case "RSET":
		needHelo()
		if handled, err := s.act(rec, a); handled {
			if err == nil {
				if a.Code/100 == 2 {
					s.resetTx()
					s.setState("ready")
				} else {
					// RFC 5321 gives RSET no failure mode: what the server state is now is open
					s.setState("unknown")
				}
			}
			return err
		}
		s.resetTx()
		if s.heloDone {
			s.setState("ready")
		}
		return s.reply(rec, 250, "2.0.0 Ok")
	case "NOOP":
		if handled, err := s.act(rec, a); handled {
			return err
		}
		return s.reply(rec, 250, "2.0.0 Ok")
	case "QUIT":
		s.mu.Lock()
		s.Quit = true
		s.mu.Unlock()
		if handled, err := s.act(rec, a); handled {
			return err
		}
		err := s.reply(rec, 221, "2.0.0 Bye")
		s.setState("quit")
		return err
	default:
		if handled, err := s.act(rec, a); handled {
			return err
		}
		return s.reply(rec, 502, "5.5.1 Command not implemented")
	}
}

func (s *Session) afterHelo(verb string, caps []string) {
	s.heloDone = true
	s.resetTx()
	s.heloOnly = verb == "HELO"
	m := map[string]bool{}
	for _, c := range caps {
		k, _, _ := strings.Cut(c, " ")
		m[strings.ToUpper(k)] = true
	}
	if verb == "EHLO" && caps == nil {
		// scripted positive EHLO reply without our capability list: parse nothing
	}
	s.lastCaps = m
	s.setState("ready")
}

func (s *Session) beginTx(cmd rfc5321.Command, line string) {
	s.resetTx()
	if cmd.Path != nil {
		s.txFrom = cmd.Path.Mailbox()
	}
	s.txFromLine = line
	s.setState("mail")
}

func (s *Session) resetTx() {
	s.txFrom, s.txFromLine, s.txRcptOK, s.txRcptRejected, s.txRcptSent = "", "", nil, 0, 0
}

// readData consumes the content up to CRLF.CRLF, un-stuffs dots and decides the end-of-data reply.
func (s *Session) readData() error {
	cfg := s.Cfg
	var raw []byte
	complete := false
	buf := make([]byte, 2048)
	pushBack := func(rest []byte) {
		if len(rest) > 0 {
			s.violate("pipelined-after-data", fmt.Sprintf("%q", rest))
			s.br = bufio.NewReaderSize(io.MultiReader(bytes.NewReader(append([]byte(nil), rest...)), s.br), 4096)
		}
	}
	for {
		if cfg.StallDataAfter > 0 && len(raw) >= cfg.StallDataAfter {
			rec := &CmdRecord{Index: s.step, Verb: "DATA-CONTENT", Stalled: true}
			s.record(rec)
			<-s.stop
			return errStop
		}
		if cfg.DataReadDelay > 0 {
			time.Sleep(cfg.DataReadDelay)
		}
		max := len(buf)
		if cfg.StallDataAfter > 0 && cfg.StallDataAfter-len(raw) < max {
			max = cfg.StallDataAfter - len(raw)
		}
		n, err := s.br.Read(buf[:max])
		raw = append(raw, buf[:n]...)
		if bytes.HasPrefix(raw, []byte(".\r\n")) {
			// the terminator directly after 354: empty content
			pushBack(raw[3:])
			raw = raw[:0]
			complete = true
			break
		}
		if i := bytes.Index(raw, []byte("\r\n.\r\n")); i >= 0 {
			pushBack(raw[i+5:])
			raw = raw[:i+2] // keep the CRLF that ends the last line
			complete = true
			break
		}
		if err != nil {
			break
		}
	}
	data := unstuff(raw)
	c := Commit{From: s.txFrom, FromLine: s.txFromLine, Rcpts: append([]string(nil), s.txRcptOK...), Data: data, Size: len(data), Complete: complete}
	if !complete {
		c.Tick = faultio.Tick()
		s.mu.Lock()
		s.Commits = append(s.Commits, c)
		s.ClientEOF = true
		s.mu.Unlock()
		return io.ErrUnexpectedEOF
	}
	rec := &CmdRecord{Index: s.step, Verb: "DATA-END", Line: fmt.Sprintf("(%d bytes)", len(data)), TLS: s.tlsOn(), StateBefore: "data"}
	a := s.decide("DATA-END", "")
	var err error
	if handled, aerr := s.act(rec, a); handled {
		err = aerr
		if a.Kind == Reply {
			c.Code = a.Code
		}
		if a.Kind == Drop && a.Code/100 == 2 {
			c.Code, c.ReplyLost = a.Code, true
		}
	} else {
		c.Code = 250
		err = s.reply(rec, 250, "2.0.0 Ok: queued")
	}
	c.Accepted = c.Code/100 == 2
	c.Tick = rec.Tick
	s.mu.Lock()
	s.Commits = append(s.Commits, c)
	s.mu.Unlock()
	s.resetTx()
	s.setState("ready")
	return err
}

func unstuff(b []byte) []byte {
	var out []byte
	start := true
	for i := 0; i < len(b); i++ {
		c := b[i]
		if start && c == '.' {
			start = false
			continue
		}
		start = false
		out = append(out, c)
		if c == '\n' && i > 0 && b[i-1] == '\r' {
			start = true
		}
	}
	return out
}

func (s *Session) startTLS() error {
	s.mu.Lock()
	s.TLSStarted = true
	s.mu.Unlock()
	if s.br.Buffered() > 0 {
		b, _ := s.br.Peek(s.br.Buffered())
		s.violate("bytes-after-starttls-before-handshake", fmt.Sprintf("%d buffered bytes", len(b)))
	}
	if s.Cfg.TLSStall {
		s.record(&CmdRecord{Index: s.step, Verb: "TLS-HANDSHAKE", Stalled: true})
		<-s.stop
		return errStop
	}
	if s.Cfg.TLSGarbage {
		_, _ = s.conn.Write([]byte("this is not a TLS server hello at all, sorry\r\n"))
		// keep reading whatever the client sends now and record it
		s.drainAfterFailedTLS()
		return errStop
	}
	if s.Cfg.TLS == nil {
		return errors.New("no TLS config")
	}
	tc := tls.Server(&rawAfterTLS{Conn: s.tap.Conn, s: s}, s.Cfg.TLS)
	_ = tc.SetDeadline(time.Now().Add(10 * time.Second))
	err := tc.Handshake()
	_ = tc.SetDeadline(time.Time{})
	if err != nil {
		s.mu.Lock()
		s.TLSErr = err.Error()
		s.mu.Unlock()
		// after a failed handshake: record whether the client sends anything more
		s.drainAfterFailedTLS()
		return err
	}
	st := tc.ConnectionState()
	s.mu.Lock()
	s.TLSOK = true
	s.TLSState = &st
	s.mu.Unlock()
	s.conn = &countConn{Conn: tc, s: s}
	s.br = bufio.NewReaderSize(s.conn, 4096)
	// RFC 3207: the server discards knowledge from before the handshake
	s.heloDone = false
	s.lastCaps = map[string]bool{}
	s.resetTx()
	s.setState("greeted")
	return nil
}

// drainAfterFailedTLS records every raw byte the client still sends after a
// failed or garbled handshake (a correct client sends at most TLS alerts).
func (s *Session) drainAfterFailedTLS() {
	raw := s.tap.Conn
	buf := make([]byte, 4096)
	_ = raw.SetReadDeadline(time.Now().Add(150 * time.Millisecond))
	for {
		n, err := raw.Read(buf)
		if n > 0 {
			s.mu.Lock()
			s.PostFailBytes = append(s.PostFailBytes, buf[:n]...)
			s.mu.Unlock()
		}
		if err != nil {
			break
		}
	}
}

// rawAfterTLS passes raw bytes below the TLS layer.
type rawAfterTLS struct {
	net.Conn
	s *Session
}

func (r *rawAfterTLS) Read(p []byte) (int, error) {
	n, err := r.Conn.Read(p)
	if n > 0 {
		r.s.mu.Lock()
		if len(r.s.HandshakeBytes) < 1<<16 {
			r.s.HandshakeBytes = append(r.s.HandshakeBytes, p[:n]...)
		}
		r.s.mu.Unlock()
	}
	return n, err
}

// countConn counts decrypted application data.
type countConn struct {
	net.Conn
	s *Session
}

func (c *countConn) Read(p []byte) (int, error) {
	n, err := c.Conn.Read(p)
	if n > 0 {
		c.s.mu.Lock()
		c.s.PostTLSAppData += n
		c.s.mu.Unlock()
	}
	return n, err
}

type authIO struct {
	s   *Session
	rec *CmdRecord
	n   int
}

func (a *authIO) Session() *Session { return a.s }

func (a *authIO) Challenge(data []byte) ([]byte, bool, error) {
	return a.ChallengeRaw(base64.StdEncoding.EncodeToString(data))
}

func (a *authIO) ChallengeRaw(text string) ([]byte, bool, error) {
	rec := &CmdRecord{Index: a.s.step, Verb: a.rec.Verb, Line: a.rec.Line, TLS: a.s.tlsOn(), StateBefore: "auth", Parsed: a.rec.Parsed}
	if a.n > 0 {
		rec.Parsed = nil
		rec.Verb = "AUTH-CONT"
		rec.Line = "(continuation)"
	}
	a.n++
	// reply() appends the token; for 334 the token would corrupt the base64 challenge, so write directly
	if d := a.s.Cfg.Delay; d != nil {
		if dur := d("AUTH"); dur > 0 {
			time.Sleep(dur)
		}
	}
	rec.ReplyCode, rec.Reply = 334, text
	a.s.record(rec)
	if _, err := io.WriteString(a.s.conn, "334 "+text+"\r\n"); err != nil {
		return nil, false, err
	}
	line, err := a.s.readLine()
	if err != nil {
		return nil, false, err
	}
	a.s.mu.Lock()
	a.s.Cmds = append(a.s.Cmds, CmdRecord{Tick: faultio.Tick(), Index: a.s.step, Verb: "AUTH-RESP", Line: line, TLS: a.s.TLSOK, StateBefore: "auth"})
	a.s.mu.Unlock()
	dec, cancel, perr := rfc5321.ParseAuthContinuation([]byte(line))
	if perr != nil {
		a.s.violate("auth-continuation-syntax", fmt.Sprintf("%q: %v", line, perr))
		return nil, false, fmt.Errorf("bad continuation: %w", perr)
	}
	return dec, cancel, nil
}

func (s *Session) doAuth(rec *CmdRecord, cmd rfc5321.Command) error {
	if s.Cfg.Auth == nil {
		return s.reply(rec, 504, "5.5.4 Unrecognized authentication type")
	}
	var initial []byte
	has := false
	if cmd.AuthInitial != "" {
		has = true
		if cmd.AuthInitial != "=" {
			initial, _ = base64.StdEncoding.DecodeString(cmd.AuthInitial)
		}
	}
	aio := &authIO{s: s, rec: rec}
	act := s.Cfg.Auth(aio, cmd.Arg, initial, has)
	final := &CmdRecord{Index: s.step, Verb: rec.Verb, Line: rec.Line, TLS: s.tlsOn(), StateBefore: "auth", Parsed: rec.Parsed}
	if aio.n > 0 {
		final.Parsed = nil
		final.Verb = "AUTH-END"
		final.Line = "(final)"
	}
	switch act.Kind {
	case Default:
		return s.reply(final, 235, "2.7.0 Authentication successful")
	case Reply:
		return s.reply(final, act.Code, act.Text)
	case Drop:
		final.Dropped = true
		s.record(final)
		_ = s.conn.Close()
		return errStop
	case Stall:
		final.Stalled = true
		s.record(final)
		<-s.stop
		return errStop
	}
	return nil
}

// Farm hands out client connections whose far end is a reference server session.
type Farm struct {
	// NewConfig returns the configuration of the n-th connection (0-based).
	NewConfig func(n int) *Config
	// TCP: use real loopback TCP instead of net.Pipe.
	TCP bool

	mu       sync.Mutex
	Sessions []*Session
	Conns    []*faultio.TrackConn
	// Wrap lets the caller configure the tracking conn before it is handed to the client.
	Wrap func(n int, tc *faultio.TrackConn)
	// ImplicitTLS != nil: the server side speaks TLS from the first byte (Config.TLS must be set) and Dial hands out
	// tls.Client(<tracking conn>, ImplicitTLS): what a dial function for WithSSL has to return. The handshake runs
	// inside the client's first Read/Write, on top of the tracking conn.
	ImplicitTLS *tls.Config
}

// Dial has the signature of mail.DialContextFunc.
func (f *Farm) Dial(_ context.Context, network, address string) (net.Conn, error) {
	return f.dial()
}

func (f *Farm) dial() (net.Conn, error) {
	f.mu.Lock()
	n := len(f.Sessions)
	f.mu.Unlock()
	cfg := f.NewConfig(n)
	var cl, sv net.Conn
	if f.TCP {
		ln, err := net.Listen("tcp", "127.0.0.1:0")
		if err != nil {
			return nil, err
		}
		ch := make(chan net.Conn, 1)
		go func() {
			c, err := ln.Accept()
			if err == nil {
				ch <- c
			} else {
				close(ch)
			}
			_ = ln.Close()
		}()
		c, err := net.Dial("tcp", ln.Addr().String())
		if err != nil {
			return nil, err
		}
		cl = c
		sv = <-ch
		if sv == nil {
			return nil, errors.New("accept failed")
		}
	} else {
		cl, sv = net.Pipe()
	}
	tc := faultio.NewTrackConn(cl, n)
	f.mu.Lock()
	// re-read n under the lock to keep Sessions and Conns aligned
	n = len(f.Sessions)
	tc.ID = n
	var sess *Session
	if f.ImplicitTLS != nil {
		sess = ServeImplicitTLS(sv, cfg, n)
	} else {
		sess = Serve(sv, cfg, n)
	}
	f.Sessions = append(f.Sessions, sess)
	f.Conns = append(f.Conns, tc)
	f.mu.Unlock()
	if f.Wrap != nil {
		f.Wrap(n, tc)
	}
	if f.ImplicitTLS != nil {
		return tls.Client(tc, f.ImplicitTLS), nil
	}
	return tc, nil
}

// Snapshot returns the sessions and conns created so far.
func (f *Farm) Snapshot() ([]*Session, []*faultio.TrackConn) {
	f.mu.Lock()
	defer f.mu.Unlock()
	return append([]*Session(nil), f.Sessions...), append([]*faultio.TrackConn(nil), f.Conns...)
}

// Shutdown stops all sessions and waits for them.
func (f *Farm) Shutdown() {
	ss, cs := f.Snapshot()
	for _, c := range cs {
		_ = c.Conn.Close()
	}
	for _, s := range ss {
		s.Stop()
	}
	for _, s := range ss {
		select {
		case <-s.Done:
		case <-time.After(5 * time.Second):
		}
	}
}
