#!/usr/bin/env python3
"""Validate a seeded breaking change and run the checks against it.

usage: seed_eval.py <source dir with seeded_patch.diff + seeded_* demo files> <property id> <name> [check ids...]

Steps (all in a scratch worktree under /tmp, removed afterwards):
  1. demo passes on the unchanged tree, 2. patch applies, compiles, demo fails,
  3. the pinned suite still passes with the patch (tools/baseline.sh),
then the patch is applied to /repo, the named checks (default: the property's own, quick tier)
are run, and /repo is restored (git checkout -- .). Results go to /verif/seeded/<name>/.
"""
import json, os, shutil, subprocess, sys, glob, time

ENV = dict(os.environ, GOFLAGS="-mod=mod", GOPROXY="off", GOSUMDB="off", GOTOOLCHAIN="local")

def run(cmd, cwd=None, timeout=1800):
    p = subprocess.run(cmd, cwd=cwd, shell=True, env=ENV, stdout=subprocess.PIPE, stderr=subprocess.STDOUT, text=True, timeout=timeout)
    return p.returncode, p.stdout

def main():
    src, prop, name = sys.argv[1], sys.argv[2], sys.argv[3]
    checks = sys.argv[4:] or [prop]
    tier = os.environ.get("SEED_TIER", "quick")
    patch = os.path.join(src, "seeded_patch.diff")
    demos = [f for f in glob.glob(os.path.join(src, "**", "seeded_*"), recursive=True) if f.endswith(".go")]
    out = os.path.join("/verif/seeded", name)
    os.makedirs(out, exist_ok=True)
    meta = {"property": prop, "name": name, "ran_at": time.strftime("%Y-%m-%dT%H:%M:%SZ", time.gmtime()), "steps": {}}
    wt = "/tmp/seedval-" + name
    run("git -C /repo worktree remove --force %s" % wt)
    rc, o = run("git -C /repo worktree add -q --detach %s HEAD" % wt)
    try:
        # copy demo files to the same relative place
        rels = []
        for d in demos:
            rel = os.path.relpath(d, src)
            rels.append(rel)
            os.makedirs(os.path.dirname(os.path.join(wt, rel)) or wt, exist_ok=True)
            shutil.copy(d, os.path.join(wt, rel))
        pkgs = sorted(set("./" + (os.path.dirname(r) or ".") for r in rels))
        demo_cmd = "go test -vet=off -count=1 -run TestSeededDemo %s" % " ".join(pkgs)
        rc0, o0 = run(demo_cmd, cwd=wt)
        meta["steps"]["demo_without_change"] = {"cmd": demo_cmd, "exit": rc0, "tail": o0[-600:]}
        rca, oa = run("git apply --whitespace=nowarn %s" % patch, cwd=wt)
        meta["steps"]["apply"] = {"exit": rca, "out": oa[-400:]}
        rcb, ob = run("go build ./...", cwd=wt)
        meta["steps"]["build_with_change"] = {"exit": rcb, "out": ob[-400:]}
        rc1, o1 = run(demo_cmd, cwd=wt)
        for _ in range(3):  # schedule-dependent demos: the change counts as demonstrated when one run fails
            if rc1 != 0:
                break
            rc1, o1 = run(demo_cmd, cwd=wt)
        meta["steps"]["demo_with_change"] = {"exit": rc1, "tail": o1[-900:]}
        # suite with change (demo files removed so that they do not count)
        for r in rels:
            os.remove(os.path.join(wt, r))
        rcs, os_ = run("/verif/tools/baseline.sh %s" % wt, timeout=1800)
        meta["steps"]["suite_with_change"] = {"exit": rcs, "out": os_[-600:]}
        valid = rc0 == 0 and rca == 0 and rcb == 0 and rc1 != 0 and rcs == 0
        meta["valid_seed"] = valid
    finally:
        run("git -C /repo worktree remove --force %s" % wt)
        run("rm -rf %s" % wt)
    shutil.copy(patch, os.path.join(out, "patch.diff"))
    for d in demos:
        shutil.copy(d, os.path.join(out, os.path.basename(d) + ".txt" if False else os.path.basename(d)))
    for nm in ("seeded_meta.txt", "seeded_notes.txt"):
        mt = os.path.join(src, nm)
        if os.path.exists(mt):
            meta["author_notes"] = open(mt).read()
    meta["checks"] = {}
    if meta.get("valid_seed"):
        rc, o = run("git -C /repo status --porcelain")
        if o.strip():
            print("refusing: /repo working tree is not clean"); sys.exit(2)
        rc, o = run("git -C /repo apply --whitespace=nowarn %s" % patch)
        try:
            for c in checks:
                t0 = time.time()
                rc, o = run("./check %s %s" % (c, tier), cwd="/verif", timeout=7200)
                lines = [l for l in o.splitlines() if l.startswith(("VIOLATION", "KNOWN", "SUMMARY", "HARNESS", "OBSERVED", "INCONCL", "BUILD", "  key="))]
                meta["checks"][c] = {"tier": tier, "exit": rc, "detected": rc == 1 and any(l.startswith("VIOLATION") for l in lines), "wall_s": round(time.time() - t0, 1), "lines": [l[:400] for l in lines[:14]]}
        finally:
            run("git -C /repo checkout -- .")
            rc, o = run("git -C /repo status --porcelain")
            if o.strip():
                print("WARNING: /repo not clean after restore:", o)
    json.dump(meta, open(os.path.join(out, "meta.json"), "w"), indent=1)
    print(json.dumps({"name": name, "valid_seed": meta.get("valid_seed"), "checks": {k: (v["detected"], v["exit"]) for k, v in meta["checks"].items()}}))
    if not meta.get("valid_seed"):
        print(json.dumps(meta["steps"], indent=1)[:3000])

if __name__ == "__main__":
    main()
