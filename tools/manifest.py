#!/usr/bin/env python3
"""Generates /verif/MANIFEST.json from the table below (one entry per built check)."""
import json, os
ROOT = os.path.dirname(os.path.dirname(os.path.abspath(__file__)))
ALL = ["C%02d" % i for i in range(1, 21)]
SUITE = "cd /repo && GOFLAGS=-mod=mod GOPROXY=off GOSUMDB=off GOTOOLCHAIN=local go test -mod=mod -json -vet=off -count=1 -timeout 25m ./..."

CHECKS = json.load(open(os.path.join(ROOT, "tools", "checks.json")))
NA_REASON = "check not built yet in this session (work in progress; see DESIGN.md §4 for the planned monitor)"

def main():
    checks = []
    for pid in ALL:
        if pid not in CHECKS:
            continue
        c = CHECKS[pid]
        checks.append({
            "property_id": pid,
            "quick_cmd": "./check %s quick" % pid,
            "thorough_cmd": "./check %s thorough" % pid,
            "evidence_file": "evidence/%s.json" % pid,
            "replay_cmd_template": "./check %s --replay {path}" % pid,
            "engine": "vcheck",
            "level_claimed": {"category": c["cat"], "text": c["text"], "design_ref": c["ref"]},
            "level_note": c["note"],
            "technique": c["technique"],
        })
    m = {
        "version": 1,
        "setup_cmd": "./check --setup",
        "hooks": {
            "guard": "verif",
            "enable": "go build -tags verif (the tag is carried by the harness sources under /verif only; no file under /repo is instrumented - all monitors sit at public boundaries)",
            "baseline_off_cmd": SUITE,
            "source_commits": [],
            "add_only": True,
        },
        "engines": [{"name": "vcheck", "path": "cmd/vcheck", "serves_properties": sorted(CHECKS), 
                     "kind_free_text": "Go binary rebuilt by ./check against /repo's working tree (go.mod replace => /repo); runs the real library under seeded hostile workloads with monitors at io.Writer / net.Conn / reference SMTP server / logger boundaries; -race build for C13 and the thorough network slices"}],
        "checks": checks,
        "notes": "Verdicts are 'held on the executions observed'. known_findings.json lists genuine defects (known = recorded, fixed = repaired by a fix: commit in /repo). Exit codes of ./check: 0 held, 1 violation (VIOLATION line), 2 harness/build error, 3 observed nothing, 4 too many inconclusive cases.",
        "not_applicable": [{"property_id": p, "reason": NA_REASON} for p in ALL if p not in CHECKS],
    }
    with open(os.path.join(ROOT, "MANIFEST.json"), "w") as f:
        json.dump(m, f, indent=1)
    print("MANIFEST.json written: %d checks, %d not_applicable" % (len(checks), len(m["not_applicable"])))

if __name__ == "__main__":
    main()
