#!/bin/bash
# Runs the repository's pinned test suite with the guard tag OFF and compares the
# set of passing tests with /root/.vp/BASELINE.json (stable_pass). Exit 0 iff every
# stable_pass test passes.
export GOFLAGS=-mod=mod GOPROXY=off GOSUMDB=off GOTOOLCHAIN=local
OUT=$(mktemp /tmp/baseline.XXXXXX.json)
(cd "${1:-/repo}" && go test -mod=mod -json -vet=off -count=1 -timeout 25m ./... > "$OUT" 2>/dev/null)
python3 - "$OUT" <<'PY'
import json,sys
passed=set(); failed=set()
for l in open(sys.argv[1]):
    try: e=json.loads(l)
    except Exception: continue
    if e.get('Test') and e.get('Action') in('pass','fail'):
        (passed if e['Action']=='pass' else failed).add(e['Package']+'::'+e['Test'])
b=json.load(open('/root/.vp/BASELINE.json'))
stable=set(b['stable_pass'])
missing=sorted(stable-passed)
print(f"stable_pass={len(stable)} passed_now={len(passed)} failed_now={len(failed)} stable_missing={len(missing)}")
for m in missing[:40]: print("  NOT PASSING:",m)
newfail=sorted(failed-set(b.get('always_fail',[])))
for m in newfail[:40]: print("  NEW FAIL:",m)
sys.exit(1 if missing else 0)
PY
rc=$?
rm -f "$OUT"
exit $rc
