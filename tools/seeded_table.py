#!/usr/bin/env python3
"""Regenerates the seeded-changes table in DESIGN.md (between the markers) from seeded/index.json and seeded/*/meta.json."""
import json, os, re
ROOT = os.path.dirname(os.path.dirname(os.path.abspath(__file__)))
idx = json.load(open(os.path.join(ROOT, "seeded", "index.json")))
rows = ["| seed | property | change | needs to manifest | caught by (quick tier) | first run |", "|---|---|---|---|---|---|"]
for name in sorted(idx):
    mp = os.path.join(ROOT, "seeded", name, "meta.json")
    det = "?"
    if os.path.exists(mp):
        m = json.load(open(mp))
        d = sorted(k for k, v in m.get("checks", {}).items() if v.get("detected"))
        det = " ".join(d) if d else "none"
        prop = m.get("property", name[:3])
    else:
        prop = name[:3]
    e = idx[name]
    if e.get("void"):
        det = e["void"]  # the change no longer breaks the property on the current tree (e.g. after a fix)
    rows.append("| `%s` | %s | %s | %s | %s | %s |" % (name, prop, e["change"].replace("|", "\\|"), e["needs"].replace("|", "\\|"), det, e["first"].replace("|", "\\|")))
table = "\n".join(rows)
p = os.path.join(ROOT, "DESIGN.md")
s = open(p).read()
begin, end = "<!-- SEEDED-TABLE-BEGIN -->", "<!-- SEEDED-TABLE-END -->"
if "SEEDED_TABLE_PLACEHOLDER" in s:
    s = s.replace("SEEDED_TABLE_PLACEHOLDER", begin + "\n" + table + "\n" + end)
else:
    s = re.sub(re.escape(begin) + r".*?" + re.escape(end), lambda m: begin + "\n" + table + "\n" + end, s, flags=re.S)
open(p, "w").write(s)
print("table with %d rows written" % (len(rows) - 2))
