#!/usr/bin/env python3
"""Re-run checks against an already validated seeded change: seed_recheck.py <seeded name> [check ids...]
Applies seeded/<name>/patch.diff to /repo, runs the checks (default: the seed's property, quick tier), restores /repo,
and updates seeded/<name>/meta.json ("checks")."""
import json, os, subprocess, sys, time
ENV = dict(os.environ, GOFLAGS="-mod=mod", GOPROXY="off", GOSUMDB="off", GOTOOLCHAIN="local")
def run(cmd, cwd=None, timeout=7200):
    p = subprocess.run(cmd, cwd=cwd, shell=True, env=ENV, stdout=subprocess.PIPE, stderr=subprocess.STDOUT, text=True, timeout=timeout)
    return p.returncode, p.stdout
name = sys.argv[1]
d = os.path.join("/verif/seeded", name)
meta = json.load(open(os.path.join(d, "meta.json")))
checks = sys.argv[2:] or [meta["property"]]
tier = os.environ.get("SEED_TIER", "quick")
rc, o = run("git -C /repo status --porcelain")
if o.strip():
    print("refusing: /repo working tree is not clean"); sys.exit(2)
rc, o = run("git -C /repo apply --whitespace=nowarn %s" % os.path.join(d, "patch.diff"))
if rc != 0:
    print("patch does not apply:", o); sys.exit(2)
res = {}
try:
    for c in checks:
        t0 = time.time()
        rc, o = run("./check %s %s" % (c, tier), cwd="/verif")
        lines = [l for l in o.splitlines() if l.startswith(("VIOLATION", "KNOWN", "SUMMARY", "HARNESS", "OBSERVED", "INCONCL", "BUILD", "  key="))]
        meta.setdefault("checks", {})[c] = {"tier": tier, "exit": rc, "detected": rc == 1 and any(l.startswith("VIOLATION") for l in lines), "wall_s": round(time.time() - t0, 1), "lines": [l[:400] for l in lines[:14]]}
        res[c] = (meta["checks"][c]["detected"], rc)
finally:
    run("git -C /repo checkout -- .")
meta["rechecked_at"] = time.strftime("%Y-%m-%dT%H:%M:%SZ", time.gmtime())
json.dump(meta, open(os.path.join(d, "meta.json"), "w"), indent=1)
print(json.dumps({"name": name, "checks": res}))
