#!/bin/bash
# usage: tools/sweep.sh <tier> <seed>...   runs every check at the given seeds on the current tree
cd "$(dirname "$0")/.."
TIER=$1; shift
for s in "$@"; do
  for i in $(seq -w 1 20); do
    out=$(VERIF_SEED=$s ./check C$i $TIER 2>&1); rc=$?
    echo "seed=$s C$i rc=$rc $(echo "$out" | grep -E '^SUMMARY' | sed 's/SUMMARY property=C[0-9]* //' | cut -c1-150)"
    if [ $rc -ne 0 ]; then echo "$out" | grep -E '^(VIOLATION|HARNESS|OBSERVED|INCONCL|BUILD|  key|---)' | cut -c1-400 | head -12; fi
  done
done
