//go:build verif

package main

import (
	"bytes"
	"encoding/json"
	"fmt"
	mrand "math/rand"
	"os"
	"path/filepath"
	"runtime/debug"
	"strings"
	"time"
	"unicode/utf8"

	mail "github.com/wneessen/go-mail"

	"verif/internal/ev"
	"verif/internal/gen"
	"verif/internal/mimeread"
)

func init() { register("C10", "exploration", runC10) }

type c10Case struct {
	Spec gen.MsgSpec `json:"spec"`
	Date string      `json:"date"`
	// Entry: how the rendering reaches the parser: "" EMLToMsgFromString | reader: EMLToMsgFromReader | file: the message
	// is written with WriteToFile and parsed with EMLToMsgFromFile
	Entry string `json:"entry,omitempty"`
}

type c10Part struct {
	Type, Charset string
	Content       []byte
}
type c10File struct {
	Name, Kind string
	Content    []byte
}
type c10Model struct {
	Subject string
	From    maddr
	To, Cc  []maddr
	Date    string
	Parts   []c10Part
	Files   []c10File
}

var c10Subjects = []string{"plain subject", "Grüße aus München", "日本語の件名", "with  two blanks", "semi; colon = equals", "a very long subject line that will certainly be folded by the header writer because it exceeds the limit ÄÖÜ", "quotes \"inside\" subject", "emoji 😀 subject"}
var c10FileNames = []string{"file.txt", "image.png", "with space.txt", "ümlaut.txt", "日本語.pdf", "semi;colon.txt", "equals=sign.txt", "a;b=c;d.bin", "comma,name.txt", "paren(1).txt", "percent%20.txt", "UPPER.TXT", "noext", "emoji😀.png", "dot.", "a-very-long-file-name-that-goes-on-and-on-and-on-for-more-than-seventy-characters-in-total.txt",
	"длинное-имя-файла-которое-превышает-семьдесят-пять-символов-в-кодировке.txt", "Übergrößenträger Änderungsübersicht für Österreich und Zürich überarbeitet.pdf", "日本語のとても長いファイル名でエンコードされた単語が複数に分割される例.pdf", "long name with spaces and ümlauts äöü that needs several encoded words to fit.txt"}

// display names: the C06 set plus pure-ASCII names with list separators (written as quoted-strings, not encoded-words)
var c10Names = append(append([]string{}, c06Names[:9]...), "Doe, John", "Smith; Jane: Dr.", "a,b,c", "Last, First \"Nick\" Middle")

func genC10(r *mrand.Rand, id string) c10Case {
	np := gen.Pick(r, []int{1, 1, 2, 2, 3})
	ne := gen.Pick(r, []int{0, 0, 1, 2})
	na := gen.Pick(r, []int{0, 1, 1, 2})
	s := gen.MsgSpec{ID: "", Enc: gen.Pick(r, []string{"quoted-printable", "base64", "8bit", "7bit"}), Subject: gen.Pick(r, c10Subjects)}
	s.From = gen.AddrSpec{Name: gen.Pick(r, c10Names[1:]), Addr: "sender@example.com"}
	for i := 0; i < 1+r.Intn(3); i++ {
		s.To = append(s.To, gen.AddrSpec{Name: gen.Pick(r, c10Names), Addr: fmt.Sprintf("to%d@example.net", i)})
	}
	for i := 0; i < r.Intn(3); i++ {
		s.Cc = append(s.Cc, gen.AddrSpec{Name: gen.Pick(r, c10Names), Addr: fmt.Sprintf("cc%d@example.org", i)})
	}
	textFor := func(enc string) []byte {
		var c []byte
		switch enc {
		case "7bit":
			c = []byte("Seven bit line one\r\nline two\r\n")
			if r.Intn(2) == 0 {
				c = []byte("no final newline")
			}
		default:
			c = gen.CanonLF(stripLoneCR(gen.Content(r, gen.Pick(r, []string{"ascii", "crlf-lines", "utf8", "trailing-ws", "leading-dots", "equals", "no-final-newline", "long-77", "wrap-edge", "tabs", "boundary-like"}))))
		}
		if len(c) == 0 {
			c = []byte("x")
		}
		if r.Intn(12) == 0 {
			c = []byte{} // a body part without content is a body part
		}
		return c
	}
	for i := 0; i < np; i++ {
		p := gen.PartSpec{Type: "text/plain"}
		if i%2 == 1 {
			p.Type = "text/html"
		}
		if r.Intn(3) == 0 {
			p.Enc = gen.Pick(r, []string{"quoted-printable", "base64", "8bit"})
		}
		p.Content = textFor(effEnc(s.Enc, p.Enc))
		s.Parts = append(s.Parts, p)
	}
	file := func() gen.FileSpec {
		f := gen.FileSpec{Name: gen.Pick(r, c10FileNames), Enc: gen.Pick(r, []string{"", "", "base64"})}
		f.Content = gen.Content(r, gen.Pick(r, []string{"ascii", "binary", "binary-nul", "b64-edge", "crlf-lines", "utf8", "empty"}))
		if r.Intn(5) == 0 {
			// a text file with the line ends of its platform, carried as it is (8bit): its octets are its content
			f.Enc = "8bit"
			f.Content = []byte(gen.Pick(r, []string{"unix line one\nline two\n\nlast line without a break", "mixed\r\nline ends\nin one file\n", "\nleading break\n"}))
		}
		if r.Intn(4) == 0 {
			// a Content-ID of the caller's choosing, on embeds and on attachments alike
			f.CID = gen.Pick(r, []string{"<cid-1@example.com>", "<image001>", "<a.b.c@verif>", "<report@example.com>"})
		}
		if r.Intn(6) == 0 {
			f.Desc = gen.Pick(r, []string{"a description", "Beschreibung mit Ümlaut"})
		}
		return f
	}
	for i := 0; i < ne; i++ {
		s.Embeds = append(s.Embeds, file())
	}
	for i := 0; i < na; i++ {
		s.Attach = append(s.Attach, file())
	}
	if r.Intn(5) == 0 {
		// a caller-defined boundary; some need quoting in the Content-Type parameter
		s.Boundary = gen.Pick(r, []string{"----=_NextPart_000_0001", "next part 0001", "simple-boundary-1", "b(1)?=x:y", strings.Repeat("Z", 64)})
	}
	return c10Case{Spec: s, Date: "Tue, 03 Mar 2026 10:11:12 +0100", Entry: gen.Pick(r, []string{"", "", "reader", "file"})}
}

func c10Expected(c *c10Case) c10Model {
	s := &c.Spec
	m := c10Model{Subject: s.Subject, From: maddr{s.From.Name, s.From.Addr}, Date: c.Date}
	for _, a := range s.To {
		m.To = append(m.To, maddr{a.Name, a.Addr})
	}
	for _, a := range s.Cc {
		m.Cc = append(m.Cc, maddr{a.Name, a.Addr})
	}
	for _, p := range s.Parts {
		cs := "UTF-8"
		m.Parts = append(m.Parts, c10Part{Type: p.Type, Charset: cs, Content: p.Content})
	}
	for _, f := range s.Embeds {
		m.Files = append(m.Files, c10File{Name: gen.SanitizeName(f.Name), Kind: "embed", Content: f.Content})
	}
	for _, f := range s.Attach {
		m.Files = append(m.Files, c10File{Name: gen.SanitizeName(f.Name), Kind: "attach", Content: f.Content})
	}
	return m
}

// c10FromMsg extracts the model from the getters of a parsed Msg.
func c10FromMsg(m *mail.Msg) (c10Model, error) {
	var o c10Model
	if v := m.GetGenHeader(mail.HeaderSubject); len(v) > 0 {
		o.Subject, _ = mimeread.DecodeWords(v[0])
	}
	if f := m.GetFrom(); len(f) > 0 {
		o.From = maddr{f[0].Name, f[0].Address}
	}
	for _, a := range m.GetTo() {
		o.To = append(o.To, maddr{a.Name, a.Address})
	}
	for _, a := range m.GetCc() {
		o.Cc = append(o.Cc, maddr{a.Name, a.Address})
	}
	if v := m.GetGenHeader(mail.HeaderDate); len(v) > 0 {
		o.Date = v[0]
	}
	for _, p := range m.GetParts() {
		c, err := p.GetContent()
		if err != nil {
			return o, err
		}
		o.Parts = append(o.Parts, c10Part{Type: string(p.GetContentType()), Charset: string(p.GetCharset()), Content: c})
	}
	rd := func(fs []*mail.File, kind string) error {
		for _, f := range fs {
			var b bytes.Buffer
			if _, err := f.Writer(&b); err != nil {
				return err
			}
			o.Files = append(o.Files, c10File{Name: f.Name, Kind: kind, Content: b.Bytes()})
		}
		return nil
	}
	if err := rd(m.GetEmbeds(), "embed"); err != nil {
		return o, err
	}
	if err := rd(m.GetAttachments(), "attach"); err != nil {
		return o, err
	}
	return o, nil
}

// c10FromBytes extracts the model from rendered bytes with the harness reader.
func c10FromBytes(raw []byte) (c10Model, []string) {
	var o c10Model
	var probs []string
	root := mimeread.Parse(raw)
	for _, p := range root.AllProblems() {
		if structuralCodes[p.Code] {
			probs = append(probs, "structure:"+p.Code)
		}
	}
	// duplicated singleton fields in any header section
	root.Walk(func(e *mimeread.Entity) {
		seen := map[string]int{}
		for _, f := range e.Fields {
			seen[strings.ToLower(f.Name)]++
		}
		for n, k := range seen {
			if k > 1 {
				switch n {
				case "content-type", "mime-version", "content-transfer-encoding", "subject", "from", "to", "cc", "date", "message-id", "content-disposition", "content-id":
					where := "top"
					if e.Depth > 0 {
						where = "part"
					}
					probs = append(probs, "duplicate-field:"+where+":"+n)
				}
			}
		}
	})
	o.Subject, _ = mimeread.DecodeWords(root.Get1("Subject"))
	if as, err := mimeread.ParseAddressList(root.Get1("From")); err == nil && len(as) > 0 {
		o.From = maddr{as[0].Name, as[0].Spec()}
	}
	if v := root.Get1("To"); v != "" {
		if as, err := mimeread.ParseAddressList(v); err == nil {
			for _, a := range as {
				o.To = append(o.To, maddr{a.Name, a.Spec()})
			}
		}
	}
	if v := root.Get1("Cc"); v != "" {
		if as, err := mimeread.ParseAddressList(v); err == nil {
			for _, a := range as {
				o.Cc = append(o.Cc, maddr{a.Name, a.Spec()})
			}
		}
	}
	o.Date = root.Get1("Date")
	for _, l := range root.Leaves() {
		content, _ := l.DecodeLeaf()
		disp := l.Get1("Content-Disposition")
		if disp == "" {
			cs, _ := mimeread.GetParam(l.CTParams, "charset")
			o.Parts = append(o.Parts, c10Part{Type: l.MediaType, Charset: cs, Content: content})
			continue
		}
		dmain, dps, _ := mimeread.ParseParamHeader(disp)
		fnRaw, _ := mimeread.GetParam(dps, "filename")
		fn, _ := mimeread.DecodeWords(fnRaw)
		// a reader that honours the charset label of the encoded-words has to arrive at the same name: a label
		// that contradicts the octets (UTF-8 octets under us-ascii) makes the name unreadable
		if byLabel, labels := mimeread.DecodeWordsByLabel(fnRaw); len(labels) > 0 && byLabel != fn && utf8.ValidString(fn) {
			probs = append(probs, fmt.Sprintf("file-name-charset-label: the file name %q is written under the charset label(s) %v, a reader honouring them gets %q", fn, labels, byLabel))
		}
		kind := "attach"
		if strings.EqualFold(dmain, "inline") {
			kind = "embed"
		}
		o.Files = append(o.Files, c10File{Name: fn, Kind: kind, Content: content})
	}
	return o, probs
}

func sameDate(a, b string) bool {
	ta, ea := time.Parse(time.RFC1123Z, a)
	tb, eb := time.Parse(time.RFC1123Z, b)
	return ea == nil && eb == nil && ta.Equal(tb)
}

func c10Compare(stage string, want, got c10Model, spec *gen.MsgSpec, viol func(key, what string, obs any)) {
	ws := func(s string) string { return mimeread.CollapseWS(s) }
	if ws(got.Subject) != ws(want.Subject) {
		viol(stage+":subject", fmt.Sprintf("subject is %q, expected %q", got.Subject, want.Subject), nil)
	}
	if got.From.Addr != want.From.Addr || ws(got.From.Name) != ws(want.From.Name) {
		viol(stage+":from", fmt.Sprintf("From is %q <%s>, expected %q <%s>", got.From.Name, got.From.Addr, want.From.Name, want.From.Addr), nil)
	}
	cmpList := func(n string, g, w []maddr) {
		if len(g) != len(w) {
			viol(stage+":"+n+"-count", fmt.Sprintf("%s has %d addresses, expected %d", n, len(g), len(w)), nil)
			return
		}
		for i := range g {
			if g[i].Addr != w[i].Addr || ws(g[i].Name) != ws(w[i].Name) {
				viol(stage+":"+n, fmt.Sprintf("%s[%d] is %q <%s>, expected %q <%s>", n, i, g[i].Name, g[i].Addr, w[i].Name, w[i].Addr), nil)
			}
		}
	}
	cmpList("to", got.To, want.To)
	cmpList("cc", got.Cc, want.Cc)
	if !sameDate(got.Date, want.Date) {
		viol(stage+":date", fmt.Sprintf("date is %q, expected %q", got.Date, want.Date), nil)
	}
	if len(got.Parts) != len(want.Parts) {
		shape := fmt.Sprintf("parts=%d,embeds=%d,attach=%d", len(spec.Parts), len(spec.Embeds), len(spec.Attach))
		var ts []string
		for _, p := range got.Parts {
			ts = append(ts, fmt.Sprintf("%s(%d bytes)", p.Type, len(p.Content)))
		}
		viol(stage+":part-count:"+shape, fmt.Sprintf("%d body parts %v, expected %d", len(got.Parts), ts, len(want.Parts)), nil)
	} else {
		for i := range got.Parts {
			g, w := got.Parts[i], want.Parts[i]
			if !strings.EqualFold(g.Type, w.Type) {
				viol(stage+":part-type", fmt.Sprintf("part %d type %q, expected %q", i, g.Type, w.Type), nil)
			}
			if !strings.EqualFold(g.Charset, w.Charset) {
				viol(stage+":part-charset", fmt.Sprintf("part %d charset %q, expected %q", i, g.Charset, w.Charset), nil)
			}
			enc := effEnc(spec.Enc, spec.Parts[i].Enc)
			if !bytes.Equal(g.Content, w.Content) {
				viol(stage+":part-content:"+enc, fmt.Sprintf("part %d (%s) content %s, expected %s", i, enc, ev.Q(g.Content, 200), ev.Q(w.Content, 200)), nil)
			}
		}
	}
	if len(got.Files) != len(want.Files) {
		viol(stage+":file-count", fmt.Sprintf("%d files, expected %d", len(got.Files), len(want.Files)), nil)
	} else {
		for i := range got.Files {
			g, w := got.Files[i], want.Files[i]
			if g.Kind != w.Kind {
				viol(stage+":file-kind", fmt.Sprintf("file %d is %s, expected %s", i, g.Kind, w.Kind), nil)
			}
			if g.Name != w.Name {
				viol(stage+":file-name:"+nameClass(w.Name), fmt.Sprintf("file %d name %q, expected %q", i, g.Name, w.Name), nil)
			}
			if !bytes.Equal(g.Content, w.Content) {
				viol(stage+":file-content", fmt.Sprintf("file %d content %s, expected %s", i, ev.Q(g.Content, 120), ev.Q(w.Content, 120)), nil)
			}
		}
	}
}

func nameClass(n string) string {
	switch {
	case strings.ContainsAny(n, ";"):
		return "semicolon"
	case strings.ContainsAny(n, "="):
		return "equals"
	case !isASCII(n):
		return "non-ascii"
	case strings.Contains(n, " "):
		return "blank"
	case len(n) > 60:
		return "long"
	}
	return "plain"
}

func isASCII(s string) bool {
	for i := 0; i < len(s); i++ {
		if s[i] >= 0x80 {
			return false
		}
	}
	return true
}

func runC10Case(r *ev.Run, c c10Case) {
	viol := func(key, what string, obs any) {
		r.Violate(ev.Violation{Key: key, What: what, Case: c, Observed: obs})
	}
	m, err := c.Spec.Build(&gen.Env{})
	if err != nil {
		r.HarnessError("C10 build: " + err.Error())
		return
	}
	t, _ := time.Parse(time.RFC1123Z, c.Date)
	m.SetDateWithValue(t)
	var b1 bytes.Buffer
	if _, err := m.WriteTo(&b1); err != nil {
		viol("render-error", err.Error(), nil)
		return
	}
	want := c10Expected(&c)
	// sanity: the harness reader must read M0 back from the first rendering (otherwise the spec is outside what C01 guarantees)
	if m0, _ := c10FromBytes(b1.Bytes()); true {
		bad := 0
		c10Compare("first-render", want, m0, &c.Spec, func(string, string, any) { bad++ })
		if bad > 0 {
			r.Count("first_render_not_faithful_skipped", 1)
			return
		}
	}
	var parsed *mail.Msg
	var perr error
	func() {
		defer func() {
			if p := recover(); p != nil {
				perr = fmt.Errorf("panic: %v\n%s", p, debug.Stack())
			}
		}()
		switch c.Entry {
		case "reader":
			parsed, perr = mail.EMLToMsgFromReader(bytes.NewReader(b1.Bytes()))
		case "file":
			dir, err := os.MkdirTemp("", "verif-c10-")
			if err != nil {
				perr = fmt.Errorf("harness: %w", err)
				return
			}
			defer os.RemoveAll(dir)
			fn := filepath.Join(dir, "message.eml")
			if err := os.WriteFile(fn, b1.Bytes(), 0o600); err != nil {
				perr = fmt.Errorf("harness: %w", err)
				return
			}
			parsed, perr = mail.EMLToMsgFromFile(fn)
		default:
			parsed, perr = mail.EMLToMsgFromString(b1.String())
		}
	}()
	if perr != nil {
		viol("parse-error:"+errClass(perr), "parsing the library's own rendering failed: "+ev.Trunc(perr.Error(), 300), ev.Q(b1.Bytes(), 1500))
		return
	}
	r.Count("messages_parsed", 1)
	m1, err := c10FromMsg(parsed)
	if err != nil {
		viol("parsed-getter-error", err.Error(), nil)
		return
	}
	c10Compare("parsed", want, m1, &c.Spec, viol)
	var b2 bytes.Buffer
	var rerr error
	func() {
		defer func() {
			if p := recover(); p != nil {
				rerr = fmt.Errorf("panic: %v", p)
			}
		}()
		_, rerr = parsed.WriteTo(&b2)
	}()
	if rerr != nil {
		viol("rerender-error", "rendering the parsed message failed: "+rerr.Error(), nil)
		return
	}
	r.Count("messages_rerendered", 1)
	m2, probs := c10FromBytes(b2.Bytes())
	seen := map[string]bool{}
	for _, p := range probs {
		if !seen[p] {
			seen[p] = true
			viol("rerender-malformed:"+p, "the re-rendered message is not well-formed: "+p, ev.Q(b2.Bytes(), 1800))
		}
	}
	c10Compare("rerendered", want, m2, &c.Spec, viol)
	r.Eval(c.Spec.Shape()+c.Spec.Subject, len(c.Spec.Parts)+len(c.Spec.Embeds)+len(c.Spec.Attach) > 1)
}

func runC10(r *ev.Run, rep *ev.ReplayDoc) ev.Summary {
	sum := ev.Summary{
		Rule: "seeded messages within the parser's feature set (UTF-8 text/plain and text/html bodies and alternatives, 0-2 embeds, 0-2 attachments, QP/base64/8bit/7bit, subjects and display names needing RFC 2047, file names over printable Unicode incl. blanks, ';' and '=', caller-defined boundaries incl. ones that need quoting) are rendered, parsed with EMLToMsgFromString / EMLToMsgFromReader / EMLToMsgFromFile, and rendered again. Model M0 from the spec, M1 from the parsed Msg's getters, M2 from the re-rendered bytes via the harness reader; M1 == M0 and M2 == M0 with nothing added, re-rendered message without duplicated singleton fields, structural problems or file names whose charset label contradicts their octets. non-trivial = >=2 leaves; distinct by (shape, subject)",
		Assumptions: []string{
			"a case is only judged if the harness reader reads M0 back from the first rendering (C01's guarantee); header text compares after RFC 2047 decoding and blank-run collapsing; dates compare as instants",
		},
		Floors: []ev.Floor{{Counter: "messages_parsed", Min: 500}, {Counter: "messages_rerendered", Min: 500}},
	}
	if rep != nil {
		var c c10Case
		if err := json.Unmarshal(rep.Case, &c); err != nil {
			r.HarnessError("bad replay case: " + err.Error())
			return sum
		}
		runC10Case(r, c)
		return sum
	}
	n := r.Pick(10000, 300000)
	r.Parallel(n, func(i int) {
		c := genC10(r.Rng("c10", i), fmt.Sprintf("c10-%d", i))
		if i%499 == 0 {
			r.Sample(map[string]any{"shape": c.Spec.Shape(), "subject": c.Spec.Subject})
		}
		runC10Case(r, c)
	})
	return sum
}
