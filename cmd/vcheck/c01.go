//go:build verif

package main

import (
	"bytes"
	"encoding/base64"
	"encoding/json"
	"fmt"
	"io"
	mrand "math/rand"
	"mime"
	"mime/multipart"
	netmail "net/mail"
	"path/filepath"
	"strconv"
	"strings"

	mail "github.com/wneessen/go-mail"

	"verif/internal/ev"
	"verif/internal/faultio"
	"verif/internal/gen"
	"verif/internal/mimeread"
)

func init() { register("C01", "exploration", runC01) }

var msgEncs = []string{"quoted-printable", "base64", "8bit"}

func effEnc(msgEnc, partEnc string) string {
	if partEnc != "" {
		return partEnc
	}
	return msgEnc
}

// genContentFor picks content suitable for a transfer encoding: quoted-printable
// carries text (CRLF/LF line breaks), base64 and 8bit carry anything.
func genContentFor(r *mrand.Rand, enc string, file bool) []byte {
	if enc == "quoted-printable" {
		return gen.Content(r, gen.Pick(r, gen.TextClasses))
	}
	if file || r.Intn(3) == 0 {
		all := append(append([]string{}, gen.TextClasses...), gen.BinaryClasses...)
		return gen.Content(r, gen.Pick(r, all))
	}
	return gen.Content(r, gen.Pick(r, gen.TextClasses))
}

var fileSources = []string{"reader", "readseeker", "osfile", "osfile-rs", "iofs", "texttpl", "writer", "bbuf", "reader-consumed", "sreader-consumed"}

func genFile(r *mrand.Rand, canonOnly bool) gen.FileSpec {
	f := gen.FileSpec{
		Name:   gen.Pick(r, gen.FileNames),
		Enc:    gen.Pick(r, []string{"", "", "base64", "8bit", "quoted-printable"}),
		Source: gen.Pick(r, fileSources),
	}
	if r.Intn(4) == 0 {
		f.CType = gen.Pick(r, []string{"application/pdf", "image/png", "text/csv", "application/x-custom"})
	}
	if r.Intn(5) == 0 {
		f.Desc = gen.Pick(r, []string{"a description", "Beschreibung mit Ümlaut", "desc with  two blanks"})
	}
	if r.Intn(5) == 0 {
		f.CID = gen.Pick(r, []string{"<cid-1@example.com>", "<image001>", "<a.b.c@verif>"})
	}
	f.Content = genContentFor(r, "file", true)
	if r.Intn(5) == 0 {
		// handed over under another name (another extension) and renamed: the leaf is declared by its final name
		f.OrigName = gen.Pick(r, []string{"logo.gif", "page.html", "scan.jpeg", "data.csv", "notes.txt", "blob", "paper.pdf"})
		f.RenameVia = gen.Pick(r, []string{"option", "field"})
	}
	if f.Source == "writer" && r.Intn(2) == 0 {
		f.Chunk = gen.Pick(r, []int{1, 2, 3, 7, 57, 76, 100})
	}
	if canonOnly {
		f.Content = gen.CanonLF(stripLoneCR(f.Content))
	}
	return f
}

// shareReadSeeker: two files of the message (if it has two) become the same content behind ONE io.ReadSeeker of the
// caller's - the same image embedded inline and attached as download.
func shareReadSeeker(r *mrand.Rand, s *gen.MsgSpec) bool {
	var fs []*gen.FileSpec
	for i := range s.Embeds {
		fs = append(fs, &s.Embeds[i])
	}
	for i := range s.Attach {
		fs = append(fs, &s.Attach[i])
	}
	if len(fs) < 2 {
		return false
	}
	a := r.Intn(len(fs))
	b := (a + 1 + r.Intn(len(fs)-1)) % len(fs)
	fs[a].Source, fs[a].Chunk = "readseeker-shared", 0
	fs[b].Source, fs[b].Chunk = "readseeker-shared", 0
	fs[b].Content = fs[a].Content
	if r.Intn(3) == 0 {
		for _, f := range fs { // every file of the message is that one reader
			f.Source, f.Chunk, f.Content = "readseeker-shared", 0, fs[a].Content
		}
	}
	return true
}

func stripLoneCR(b []byte) []byte {
	var out []byte
	for i, c := range b {
		if c == '\r' && (i+1 >= len(b) || b[i+1] != '\n') {
			continue
		}
		out = append(out, c)
	}
	return out
}

// genSpec draws a random message spec.
func genSpec(r *mrand.Rand, id string, msgEnc string, nparts, nemb, natt int) gen.MsgSpec {
	if msgEnc == "" {
		msgEnc = gen.Pick(r, msgEncs)
	}
	s := gen.MsgSpec{
		ID: id, Enc: msgEnc, Subject: "verif " + id,
		From: gen.AddrSpec{Addr: "sender@example.com"}, To: []gen.AddrSpec{{Addr: "rcpt@example.net"}},
	}
	if r.Intn(6) == 0 {
		s.Charset = gen.Pick(r, []string{"ISO-8859-1", "US-ASCII", "UTF-8"})
	}
	if r.Intn(5) == 0 {
		// a caller-defined boundary (never a line of the content: contents do not contain this token)
		// of every legal length class: RFC 2046 allows 1..70 characters, nested containers derive theirs from it
		switch r.Intn(4) {
		case 0:
			s.Boundary = gen.Pick(r, []string{"verif-Custom_Boundary.0123", "b", strings.Repeat("B", 66)})
		default:
			n := gen.Pick(r, []int{1, 2, 20, 40, 56, 57, 58, 59, 60, 62, 64, 66, 67, 68, 69, 70})
			const bchars = "ABCDEFGHIJKLMNOPQRSTUVWXYZabcdefghijklmnopqrstuvwxyz0123456789_-."
			b := make([]byte, n)
			for i := range b {
				b[i] = bchars[r.Intn(len(bchars))]
			}
			// generated contents never hold the token "vbX0" at the start of a "--" line; short boundaries stay alphanumeric
			if n >= 8 {
				copy(b, "vbX0")
				if r.Intn(3) == 0 {
					// the boundary characters that are no token characters: the parameter has to be quoted
					const special = "'()+,/:=? "
					for k := 0; k < 1+r.Intn(3); k++ {
						b[4+r.Intn(n-5)] = special[r.Intn(len(special))]
					}
				}
			} else {
				for i := range b {
					b[i] = bchars[r.Intn(62)]
				}
			}
			s.Boundary = string(b)
		}
	}
	for i := 0; i < nparts; i++ {
		p := gen.PartSpec{Type: "text/plain"}
		if i%2 == 1 || (i == 0 && r.Intn(4) == 0) {
			p.Type = "text/html"
		}
		p.Enc = gen.Pick(r, []string{"", "", "quoted-printable", "base64", "8bit"})
		if r.Intn(6) == 0 {
			p.Charset = gen.Pick(r, []string{"ISO-8859-15", "US-ASCII", "UTF-8"})
		}
		p.Content = genContentFor(r, effEnc(s.Enc, p.Enc), false)
		switch r.Intn(5) {
		case 0:
			p.Via = "writer"
			p.Chunk = gen.Pick(r, []int{0, 1, 3, 5, 57, 76})
		case 1:
			if p.Type == "text/plain" {
				p.Via = "tpl"
			}
		}
		s.Parts = append(s.Parts, p)
	}
	for i := 0; i < nemb; i++ {
		s.Embeds = append(s.Embeds, genFile(r, false))
	}
	for i := 0; i < natt; i++ {
		s.Attach = append(s.Attach, genFile(r, false))
	}
	return s
}

type xnode struct {
	kind     string // mixed related alternative leaf
	children []*xnode
	leaf     int
}

// expectedTree is fixed by the property for messages with at least one body part.
func expectedTree(p, e, a int) *xnode {
	idx := 0
	leaf := func() *xnode { n := &xnode{kind: "leaf", leaf: idx}; idx++; return n }
	var inner *xnode
	if p >= 2 {
		inner = &xnode{kind: "alternative"}
		for i := 0; i < p; i++ {
			inner.children = append(inner.children, leaf())
		}
	} else {
		inner = leaf()
	}
	if e >= 1 {
		n := &xnode{kind: "related", children: []*xnode{inner}}
		for i := 0; i < e; i++ {
			n.children = append(n.children, leaf())
		}
		inner = n
	}
	if a >= 1 {
		n := &xnode{kind: "mixed", children: []*xnode{inner}}
		for i := 0; i < a; i++ {
			n.children = append(n.children, leaf())
		}
		inner = n
	}
	return inner
}

func treeString(e *mimeread.Entity) string {
	if !e.IsMultipart() {
		return "L"
	}
	var cs []string
	for _, c := range e.Children {
		cs = append(cs, treeString(c))
	}
	return strings.TrimPrefix(e.MediaType, "multipart/") + "[" + strings.Join(cs, ",") + "]"
}

func xtreeString(n *xnode) string {
	if n.kind == "leaf" {
		return "L"
	}
	var cs []string
	for _, c := range n.children {
		cs = append(cs, xtreeString(c))
	}
	return n.kind + "[" + strings.Join(cs, ",") + "]"
}

var structuralCodes = map[string]bool{
	"no-boundary": true, "no-delimiter": true, "delimiter-after-close": true, "no-close-delimiter": true,
	"empty-part": true, "no-parts": true, "no-header-end": true, "not-a-field": true,
	"orphan-continuation": true, "content-type-syntax": true, "too-deep": true, "no-crlf-at-end": true,
}

type leafExpect struct {
	kind    string // part embed attach
	idx     int
	media   string
	charset string
	enc     string
	content []byte
	name    string // sanitised
	cid     string
	desc    string
	qpText  bool
}

func expectedLeaves(s *gen.MsgSpec) []leafExpect {
	var out []leafExpect
	msgCharset := s.Charset
	if msgCharset == "" {
		msgCharset = "UTF-8"
	}
	for i, p := range s.Parts {
		cs := p.Charset
		if cs == "" {
			cs = msgCharset
		}
		out = append(out, leafExpect{kind: "part", idx: i, media: p.Type, charset: cs, enc: effEnc(s.Enc, p.Enc), content: p.Content, desc: p.Desc})
	}
	file := func(kind string, i int, f gen.FileSpec) leafExpect {
		le := leafExpect{kind: kind, idx: i, content: f.Content, name: gen.SanitizeName(f.Name), desc: f.Desc}
		le.enc = "base64"
		if f.Enc != "" && f.Enc != "quoted-printable" {
			le.enc = f.Enc
		}
		mt := mime.TypeByExtension(filepath.Ext(f.Name))
		if mt == "" {
			mt = "application/octet-stream"
		}
		if f.CType != "" {
			mt = f.CType
		}
		main, _, _ := mimeread.ParseParamHeader(mt)
		le.media = strings.ToLower(main)
		if kind == "embed" {
			le.cid = "<" + le.name + ">"
			if f.CID != "" {
				le.cid = f.CID
			}
		}
		return le
	}
	for i, f := range s.Embeds {
		out = append(out, file("embed", i, f))
	}
	for i, f := range s.Attach {
		out = append(out, file("attach", i, f))
	}
	return out
}

type c01Case struct {
	Spec gen.MsgSpec `json:"spec"`
	// Before: what happened to the assembled message before the judged render: "render" = rendered once already,
	// "fail:<k>" = a render whose destination failed after k bytes (the caller retries after a failed write)
	Before []string `json:"before,omitempty"`
	// Edits: builder calls made after the spec has been assembled, mirrored on the expectation: reverse-attachments /
	// reverse-embeds (Get + Set in reverse order), unset-attachments, unset-embeds, unset-parts (then a new body),
	// delete-part:<i> (Part.Delete), part-content:<i> (Part.SetContent), new-body (SetBodyString replaces all parts),
	// add-attachment / add-embed / add-alternative after the other edits
	Edits []string `json:"edits,omitempty"`
}

// c01ApplyEdits performs the edits on the message and returns the spec that describes what the message now holds.
func c01ApplyEdits(m *mail.Msg, s *gen.MsgSpec, edits []string) *gen.MsgSpec {
	eff := *s
	eff.Parts = append([]gen.PartSpec(nil), s.Parts...)
	eff.Embeds = append([]gen.FileSpec(nil), s.Embeds...)
	eff.Attach = append([]gen.FileSpec(nil), s.Attach...)
	// live[i]: index in m.GetParts() of the i-th part that is still part of the message (Delete only marks a part)
	live := make([]int, len(eff.Parts))
	for i := range live {
		live[i] = i
	}
	for _, e := range edits {
		name, arg, _ := strings.Cut(e, ":")
		idxStr, val, _ := strings.Cut(arg, "=")
		idx, _ := strconv.Atoi(idxStr)
		switch name {
		case "render":
			// the message is rendered between the edits: later edits act on a Msg that has been written before
			func() {
				defer func() { _ = recover() }()
				_, _ = m.WriteTo(io.Discard)
			}()
		case "part-enc":
			if idx < len(eff.Parts) {
				if val == "quoted-printable" {
					// quoted-printable carries text (line breaks are CRLF): a part that may hold arbitrary octets gets a text
					// content along with the encoding
					txt := "text for the re-encoded part =3D with an equals sign\r\nsecond line, trailing blank \r\n"
					m.GetParts()[live[idx]].SetContent(txt)
					eff.Parts[idx].Content = []byte(txt)
				}
				m.GetParts()[live[idx]].SetEncoding(mail.Encoding(val))
				eff.Parts[idx].Enc = val
			}
		case "part-charset":
			if idx < len(eff.Parts) {
				m.GetParts()[live[idx]].SetCharset(mail.Charset(val))
				eff.Parts[idx].Charset = val
			}
		case "part-type":
			if idx < len(eff.Parts) {
				m.GetParts()[live[idx]].SetContentType(mail.ContentType(val))
				eff.Parts[idx].Type = val
			}
		case "part-desc":
			if idx < len(eff.Parts) {
				m.GetParts()[live[idx]].SetDescription("description set after assembly")
				eff.Parts[idx].Desc = "description set after assembly"
			}
		case "reverse-attachments":
			fs := m.GetAttachments()
			rev := make([]*mail.File, len(fs))
			for i := range fs {
				rev[len(fs)-1-i] = fs[i]
			}
			m.SetAttachments(rev)
			for i, j := 0, len(eff.Attach)-1; i < j; i, j = i+1, j-1 {
				eff.Attach[i], eff.Attach[j] = eff.Attach[j], eff.Attach[i]
			}
		case "reverse-embeds":
			fs := m.GetEmbeds()
			rev := make([]*mail.File, len(fs))
			for i := range fs {
				rev[len(fs)-1-i] = fs[i]
			}
			m.SetEmbeds(rev)
			for i, j := 0, len(eff.Embeds)-1; i < j; i, j = i+1, j-1 {
				eff.Embeds[i], eff.Embeds[j] = eff.Embeds[j], eff.Embeds[i]
			}
		case "unset-attachments":
			m.UnsetAllAttachments()
			eff.Attach = nil
		case "unset-embeds":
			m.UnsetAllEmbeds()
			eff.Embeds = nil
		case "unset-parts":
			// UnsetAllParts removes the attachments and the embeds (not the body parts)
			m.UnsetAllParts()
			eff.Attach, eff.Embeds = nil, nil
		case "delete-part":
			if idx < len(eff.Parts) {
				m.GetParts()[live[idx]].Delete()
				eff.Parts = append(eff.Parts[:idx:idx], eff.Parts[idx+1:]...)
				live = append(live[:idx:idx], live[idx+1:]...)
			}
		case "part-content":
			if idx < len(eff.Parts) {
				m.GetParts()[live[idx]].SetContent("content set through Part.SetContent\r\nsecond line =3D with an equals sign\r\n")
				eff.Parts[idx].Content = []byte("content set through Part.SetContent\r\nsecond line =3D with an equals sign\r\n")
			}
		case "set-charset":
			// parts that exist keep the charset they were created with; only later parts use the new one
			old := eff.Charset
			if old == "" {
				old = "UTF-8"
			}
			for i := range eff.Parts {
				if eff.Parts[i].Charset == "" {
					eff.Parts[i].Charset = old
				}
			}
			m.SetCharset(mail.Charset(arg))
			eff.Charset = arg
		case "new-body":
			m.SetBodyString(mail.TypeTextPlain, "a new body that replaces every part\r\n")
			eff.Parts = []gen.PartSpec{{Type: "text/plain", Content: []byte("a new body that replaces every part\r\n")}}
			live = []int{len(m.GetParts()) - 1}
		case "add-alternative":
			m.AddAlternativeString(mail.TypeTextHTML, "<p>added alternative</p>\r\n")
			eff.Parts = append(eff.Parts, gen.PartSpec{Type: "text/html", Content: []byte("<p>added alternative</p>\r\n")})
			live = append(live, len(m.GetParts())-1)
		case "add-attachment":
			_ = m.AttachReader("added.bin", bytes.NewReader([]byte("added attachment \x00\x01\xff\r\n")))
			eff.Attach = append(eff.Attach, gen.FileSpec{Name: "added.bin", Content: []byte("added attachment \x00\x01\xff\r\n")})
		case "add-embed":
			_ = m.EmbedReader("added.png", bytes.NewReader([]byte("added embed\r\n")))
			eff.Embeds = append(eff.Embeds, gen.FileSpec{Name: "added.png", Content: []byte("added embed\r\n")})
		}
	}
	return &eff
}

// checkRendered is the C01 oracle over one rendered message.
func checkRendered(s *gen.MsgSpec, out []byte, viol func(key, what string, obs any)) (stats map[string]int64) {
	stats = map[string]int64{}
	shape := fmt.Sprintf("parts=%d,embeds=%d,attach=%d", len(s.Parts), len(s.Embeds), len(s.Attach))
	root := mimeread.Parse(out)
	for _, p := range root.AllProblems() {
		if structuralCodes[p.Code] {
			viol("structure:"+p.Code+":"+shape, "independent reader: "+p.String(), ev.Q(out, 1500))
		}
	}
	exp := expectedLeaves(s)
	leaves := root.Leaves()
	stats["leaves_decoded"] = int64(len(leaves))
	if len(leaves) != len(exp) {
		viol("leaf-count:"+shape, fmt.Sprintf("independent reader finds %d leaves (tree %s), caller supplied %d", len(leaves), treeString(root), len(exp)), ev.Q(out, 1500))
		return
	}
	// nesting
	if len(s.Parts) >= 1 {
		want := xtreeString(expectedTree(len(s.Parts), len(s.Embeds), len(s.Attach)))
		if got := treeString(root); got != want {
			viol("nesting:"+shape, fmt.Sprintf("nesting is %s, expected %s", got, want), nil)
		}
	} else {
		rank := map[string]int{"multipart/mixed": 3, "multipart/related": 2, "multipart/alternative": 1}
		var walk func(e *mimeread.Entity, max int)
		walk = func(e *mimeread.Entity, max int) {
			if !e.IsMultipart() {
				return
			}
			rk, ok := rank[e.MediaType]
			if !ok || rk >= max {
				viol("nesting-illegal:"+shape, fmt.Sprintf("container %s illegally nested in tree %s", e.MediaType, treeString(root)), nil)
				return
			}
			for _, c := range e.Children {
				walk(c, rk)
			}
		}
		walk(root, 4)
	}
	// boundaries delimit what they announce
	root.Walk(func(e *mimeread.Entity) {
		if !e.IsMultipart() {
			return
		}
		stats["containers"]++
		if !e.Closed {
			viol("boundary-not-closed:"+shape, "container "+e.MediaType+" has no close delimiter", nil)
		}
		if len(bytes.TrimSpace(e.Preamble)) != 0 {
			viol("preamble-content:"+shape, "content before the first delimiter of "+e.MediaType+": "+ev.Q(e.Preamble, 200), nil)
		}
		if len(bytes.TrimSpace(e.Epilogue)) != 0 {
			viol("epilogue-content:"+shape, "content after the close delimiter of "+e.MediaType+": "+ev.Q(e.Epilogue, 200), nil)
		}
	})
	// leaves
	for i, le := range exp {
		l := leaves[i]
		tag := fmt.Sprintf("%s%d", le.kind, le.idx)
		if l.MediaType != le.media {
			viol("media-type:"+le.kind, fmt.Sprintf("%s: media type %q, expected %q", tag, l.MediaType, le.media), nil)
		}
		if l.CTE != le.enc {
			viol("cte-label:"+le.kind+":"+le.enc, fmt.Sprintf("%s: Content-Transfer-Encoding %q, expected %q", tag, l.CTE, le.enc), nil)
		}
		content, probs := l.DecodeLeaf()
		for _, p := range probs {
			if p == "qp-trailing-ws" || p == "qp-bad-escape" || p == "qp-raw-byte" || p == "qp-bare-cr" || p == "qp-bare-lf" ||
				strings.HasPrefix(p, "b64-") && p != "b64-no-final-crlf" && p != "b64-line-too-long" {
				viol("decode:"+p+":"+le.kind, fmt.Sprintf("%s: %s body is not a clean encoding (%s)", tag, l.CTE, p), ev.Q(l.Body, 600))
			}
		}
		want := le.content
		if le.kind == "part" && le.enc == "quoted-printable" {
			want = gen.CanonLF(want)
		}
		if !bytes.Equal(content, want) {
			viol("content:"+le.kind+":"+le.enc, fmt.Sprintf("%s (%s): decoded content differs from what the caller supplied: got %s want %s", tag, le.enc, ev.Q(content, 300), ev.Q(want, 300)), ev.Q(l.Body, 600))
		}
		stats["content_bytes_compared"] += int64(len(want))
		if le.kind == "part" {
			cs, _ := mimeread.GetParam(l.CTParams, "charset")
			if !strings.EqualFold(cs, le.charset) {
				viol("charset", fmt.Sprintf("%s: charset %q, expected %q", tag, cs, le.charset), nil)
			}
			if d := l.Get("Content-Disposition"); len(d) > 0 {
				viol("part-has-disposition", tag+": body part carries a Content-Disposition", nil)
			}
			continue
		}
		// files
		disp := l.Get1("Content-Disposition")
		dmain, dparams, derr := mimeread.ParseParamHeader(disp)
		if derr != nil {
			viol("disposition-syntax", fmt.Sprintf("%s: Content-Disposition %q: %v", tag, disp, derr), nil)
		}
		wantDisp := "inline"
		if le.kind == "attach" {
			wantDisp = "attachment"
		}
		if strings.ToLower(dmain) != wantDisp {
			viol("disposition:"+le.kind, fmt.Sprintf("%s: disposition %q, expected %q", tag, dmain, wantDisp), nil)
		}
		fn, _ := mimeread.GetParam(dparams, "filename")
		nm, _ := mimeread.GetParam(l.CTParams, "name")
		for which, v := range map[string]string{"filename": fn, "name": nm} {
			dec, _ := mimeread.DecodeWords(v)
			if dec != le.name {
				if mimeread.CollapseWS(dec) == mimeread.CollapseWS(le.name) {
					stats["names_equal_modulo_ws"]++
				} else {
					viol("file-name:"+which, fmt.Sprintf("%s: %s parameter decodes to %q, expected %q", tag, which, dec, le.name), nil)
				}
			}
		}
		if le.kind == "embed" {
			if cid := l.Get1("Content-ID"); cid != le.cid {
				dec, _ := mimeread.DecodeWords(cid)
				if dec != le.cid {
					viol("content-id", fmt.Sprintf("%s: Content-ID %q, expected %q", tag, cid, le.cid), nil)
				}
			}
		}
	}
	// cross-reader (stdlib)
	sl, serr := stdlibLeaves(out)
	if serr != nil {
		viol("stdlib-reader-error:"+shape, "net/mail + mime/multipart cannot read the message: "+serr.Error(), ev.Q(out, 800))
	} else if len(sl) != len(exp) {
		viol("stdlib-leaf-count:"+shape, fmt.Sprintf("net/mail + mime/multipart finds %d leaves, caller supplied %d", len(sl), len(exp)), nil)
	} else {
		for i := range sl {
			mine, _ := leaves[i].DecodeLeaf()
			if !bytes.Equal(sl[i], mine) {
				viol("reader-disagreement", fmt.Sprintf("leaf %d: the two independent readers decode different content (own %s, stdlib %s)", i, ev.Q(mine, 200), ev.Q(sl[i], 200)), nil)
			}
		}
		stats["crosschecked_leaves"] += int64(len(sl))
	}
	return stats
}

// stdlibLeaves reads the message with net/mail + mime/multipart and returns the decoded leaf contents.
func stdlibLeaves(out []byte) ([][]byte, error) {
	m, err := netmail.ReadMessage(bytes.NewReader(out))
	if err != nil {
		return nil, err
	}
	var leaves [][]byte
	var walk func(ct, cte string, body io.Reader, depth int) error
	walk = func(ct, cte string, body io.Reader, depth int) error {
		mt, params, err := mime.ParseMediaType(ct)
		if ct == "" {
			mt, err = "text/plain", nil
		}
		if err != nil {
			return fmt.Errorf("media type %q: %w", ct, err)
		}
		if strings.HasPrefix(mt, "multipart/") && depth < 20 {
			mr := multipart.NewReader(body, params["boundary"])
			for {
				p, err := mr.NextRawPart()
				if err == io.EOF {
					return nil
				}
				if err != nil {
					return err
				}
				if err := walk(p.Header.Get("Content-Type"), p.Header.Get("Content-Transfer-Encoding"), p, depth+1); err != nil {
					return err
				}
			}
		}
		raw, err := io.ReadAll(body)
		if err != nil {
			return err
		}
		switch strings.ToLower(cte) {
		case "base64":
			clean := bytes.ReplaceAll(raw, []byte("\r\n"), nil)
			dec, err := base64.StdEncoding.DecodeString(string(clean))
			if err != nil {
				return fmt.Errorf("base64: %w", err)
			}
			raw = dec
		case "quoted-printable":
			raw, _ = mimeread.DecodeQP(raw) // the stdlib QP reader is lenient about line endings; structure is what is cross-checked
		}
		leaves = append(leaves, raw)
		return nil
	}
	err = walk(m.Header.Get("Content-Type"), m.Header.Get("Content-Transfer-Encoding"), m.Body, 0)
	return leaves, err
}

func runC01Case(r *ev.Run, c c01Case, env *gen.Env) {
	s := &c.Spec
	viol := func(key, what string, obs any) {
		r.Violate(ev.Violation{Key: key, What: what, Case: c, Observed: obs})
	}
	m, err := s.Build(env)
	if err != nil {
		r.HarnessError(fmt.Sprintf("C01: cannot build spec %s: %v", s.ID, err))
		return
	}
	if len(c.Edits) > 0 {
		s = c01ApplyEdits(m, s, c.Edits)
		if len(s.Parts)+len(s.Embeds)+len(s.Attach) == 0 {
			r.Count("edited_to_empty_message_skipped", 1)
			return
		}
		r.Count("messages_edited_after_assembly", 1)
	}
	for _, b := range c.Before {
		func() {
			defer func() { _ = recover() }()
			if k, ok := strings.CutPrefix(b, "fail:"); ok {
				lim, _ := strconv.ParseInt(k, 10, 64)
				_, _ = m.WriteTo(&faultio.Sink{Limit: lim})
				r.Count("failed_renders_before_the_judged_one", 1)
			} else {
				_, _ = m.WriteTo(io.Discard)
			}
		}()
	}
	var buf bytes.Buffer
	var werr error
	func() {
		defer func() {
			if p := recover(); p != nil {
				werr = fmt.Errorf("panic: %v", p)
			}
		}()
		_, werr = m.WriteTo(&buf)
	}()
	if werr != nil {
		viol("render-error", "WriteTo failed on a fault-free render: "+werr.Error(), nil)
		return
	}
	st := checkRendered(s, buf.Bytes(), viol)
	for k, v := range st {
		r.Count(k, v)
	}
	r.Count("rendered_bytes", int64(buf.Len()))
	nontrivial := len(s.Parts)+len(s.Embeds)+len(s.Attach) >= 2
	if !nontrivial {
		for _, p := range s.Parts {
			if gen.ContentClass(p.Content) != "plain" {
				nontrivial = true
			}
		}
	}
	r.Eval(s.Shape(), nontrivial)
	r.Seen("trees", treeString(mimeread.Parse(buf.Bytes())))
}

func runC01(r *ev.Run, rep *ev.ReplayDoc) ev.Summary {
	env := &gen.Env{}
	defer env.Cleanup()
	sum := ev.Summary{
		Rule: "seeded message specs (0-4 body parts x 0-3 embeds x 0-3 attachments, message/part/file encodings, content byte-string classes, all file sources (also ONE io.ReadSeeker of the caller behind several files of a message), caller-defined boundaries of every length and character class; a share of the messages edited after assembly - files re-ordered / removed / added, parts deleted, replaced or given new content - or rendered before, completely or into a failing destination) rendered with Msg.WriteTo and decoded by the harness' own MIME reader, cross-checked with net/mail+mime/multipart; thorough additionally enumerates every shape (parts 0-3 x embeds 0-2 x attach 0-2) x message encoding. non-trivial = >=2 leaves or non-plain content; distinct by (encodings, sources, content classes) signature",
		Assumptions: []string{
			"the harness MIME reader (internal/mimeread) implements RFC 2045/2046/2047 correctly; it is cross-checked against the Go stdlib readers on every message",
			"expected media type of files without explicit type comes from the same mime.TypeByExtension table the process uses",
			"8bit content never contains the message's own (random) boundary line",
		},
		Floors: []ev.Floor{{Counter: "evaluations", Min: 100}, {Counter: "leaves_decoded", Min: 200}, {Counter: "trees", Min: 8}},
	}
	if rep != nil {
		var c c01Case
		if err := json.Unmarshal(rep.Case, &c); err != nil {
			r.HarnessError("bad replay case: " + err.Error())
			return sum
		}
		runC01Case(r, c, env)
		return sum
	}
	n := r.Pick(4000, 300000)
	if ev.RaceBuild() {
		n /= 20
	}
	// enumerated shapes
	type shp struct{ p, e, a int }
	var shapes []shp
	if r.Thorough() {
		for p := 0; p <= 3; p++ {
			for e := 0; e <= 2; e++ {
				for a := 0; a <= 2; a++ {
					if p+e+a > 0 {
						shapes = append(shapes, shp{p, e, a})
					}
				}
			}
		}
	} else {
		for p := 0; p <= 2; p++ {
			for e := 0; e <= 1; e++ {
				for a := 0; a <= 1; a++ {
					if p+e+a > 0 {
						shapes = append(shapes, shp{p, e, a})
					}
				}
			}
		}
	}
	reps := r.Pick(3, 40)
	enumN := len(shapes) * reps
	r.Parallel(enumN+n, func(i int) {
		rng := r.Rng("c01", i)
		var s gen.MsgSpec
		if i < enumN {
			sh := shapes[i%len(shapes)]
			s = genSpec(rng, fmt.Sprintf("c01-e%d", i), msgEncs[(i/len(shapes))%3], sh.p, sh.e, sh.a)
		} else {
			np := gen.Pick(rng, []int{0, 1, 1, 1, 2, 2, 3, 4})
			ne := gen.Pick(rng, []int{0, 0, 0, 1, 1, 2, 3})
			na := gen.Pick(rng, []int{0, 0, 0, 1, 1, 2, 3})
			if np+ne+na == 0 {
				np = 1
			}
			s = genSpec(rng, fmt.Sprintf("c01-r%d", i), "", np, ne, na)
		}
		if i >= enumN && i%9 == 4 && shareReadSeeker(rng, &s) {
			r.Count("messages_with_one_readseeker_behind_several_files", 1)
		}
		c := c01Case{Spec: s}
		if i >= enumN && rng.Intn(5) == 0 {
			// the message has a history: an earlier complete render, or one that failed at some offset
			if rng.Intn(3) == 0 {
				c.Before = []string{"render"}
			} else {
				c.Before = []string{fmt.Sprintf("fail:%d", gen.Pick(rng, []int{0, 100, 400, 700, 1000, 1500, 2200, 3000, 5000, 9000, rng.Intn(12000)}))}
				if rng.Intn(4) == 0 {
					c.Before = append(c.Before, fmt.Sprintf("fail:%d", rng.Intn(6000)))
				}
			}
		}
		if i >= enumN && rng.Intn(5) == 1 {
			ne := 1 + rng.Intn(3)
			for k := 0; k < ne; k++ {
				e := gen.Pick(rng, []string{"reverse-attachments", "reverse-embeds", "unset-attachments", "unset-embeds", "unset-parts", "delete-part", "delete-part", "part-content", "new-body", "add-alternative", "add-attachment", "add-embed"})
				if e == "delete-part" || e == "part-content" {
					e += fmt.Sprintf(":%d", rng.Intn(3))
				}
				if rng.Intn(6) == 0 {
					e = "set-charset:" + gen.Pick(rng, []string{"ISO-8859-1", "UTF-8", "KOI8-R", "US-ASCII", "ISO-8859-15"})
				}
				if rng.Intn(5) == 0 {
					e = gen.Pick(rng, []string{"part-enc:%d=base64", "part-enc:%d=quoted-printable", "part-charset:%d=ISO-8859-15", "part-charset:%d=UTF-8", "part-type:%d=text/html", "part-desc:%d"})
					e = fmt.Sprintf(e, rng.Intn(3))
				}
				if rng.Intn(3) == 0 {
					c.Edits = append(c.Edits, "render")
				}
				c.Edits = append(c.Edits, e)
			}
		}
		if i%997 == 0 {
			r.Sample(map[string]any{"shape": s.Shape(), "subject": s.Subject})
		}
		runC01Case(r, c, env)
	})
	// every single edit (and the deletion of every body part) on every small shape
	var ecases []c01Case
	en := 0
	for p := 0; p <= 2; p++ {
		for e := 0; e <= 2; e++ {
			for a := 0; a <= 2; a++ {
				if p+e+a == 0 {
					continue
				}
				for _, ed := range [][]string{{"reverse-attachments"}, {"reverse-embeds"}, {"unset-attachments"}, {"unset-embeds"}, {"unset-parts"}, {"delete-part:0"}, {"delete-part:1"}, {"delete-part:0", "delete-part:0"},
					{"part-content:0"}, {"part-content:1"}, {"set-charset:ISO-8859-1"}, {"set-charset:KOI8-R", "add-alternative"}, {"set-charset:UTF-8"}, {"new-body"}, {"add-alternative"}, {"add-attachment"}, {"add-embed"}, {"delete-part:0", "add-alternative"}, {"unset-attachments", "add-attachment"}, {"delete-part:0", "delete-part:0", "add-embed"},
					{"render", "part-enc:0=base64"}, {"render", "part-enc:1=quoted-printable"}, {"part-enc:0=quoted-printable"}, {"render", "part-charset:0=ISO-8859-15"}, {"part-charset:1=US-ASCII"},
					{"render", "part-type:0=text/html"}, {"render", "part-desc:0"}, {"render", "part-content:0"}, {"render", "part-content:1"}, {"render", "delete-part:0"}, {"render", "add-alternative"},
					{"render", "add-attachment"}, {"render", "unset-attachments"}, {"render", "set-charset:ISO-8859-1", "add-alternative"}, {"render", "part-enc:1=base64", "render", "part-enc:1=quoted-printable"}} {
					en++
					rng := r.Rng("c01edit", en)
					ecases = append(ecases, c01Case{Spec: genSpec(rng, fmt.Sprintf("c01-x%d", en), msgEncs[en%3], p, e, a), Edits: ed})
				}
			}
		}
	}
	r.Parallel(len(ecases), func(i int) { runC01Case(r, ecases[i], env) })
	sum.Extra = map[string]any{"enumerated_shapes": len(shapes), "enumerated_edit_cases": len(ecases)}
	return sum
}
