//go:build verif

package main

import (
	"bytes"
	"context"
	"encoding/base64"
	"encoding/hex"
	"encoding/json"
	"fmt"
	mrand "math/rand"
	"strings"
	"sync"
	"sync/atomic"
	"time"

	mail "github.com/wneessen/go-mail"
	"github.com/wneessen/go-mail/log"
	"github.com/wneessen/go-mail/smtp"

	"verif/internal/ev"
	"verif/internal/gen"
	"verif/internal/refsmtp"
)

func init() { register("C16", "exploration", runC16) }

type c16Case struct {
	Mech        string `json:"mech"`
	User        string `json:"user"`
	Pass        string `json:"pass"`
	Fault       string `json:"fault,omitempty"` // "" | 535 | 454 | malformed | extra | drop
	FaultStep   int    `json:"fault_step"`
	Logger      string `json:"logger"`       // custom | std | json
	OptIn       bool   `json:"opt_in"`       // WithLogAuthData: secrets are expected to be visible (observability control)
	ExplicitOff bool   `json:"explicit_off"` // SetLogAuthData(false) called explicitly
	TLS         bool   `json:"tls"`
	WrongPass   bool   `json:"wrong_pass"`
	Via         string `json:"via,omitempty"` // "" mail.Client | direct: smtp.Client with Auth as the first command (implicit EHLO inside Auth) | custom: mail.Client with WithSMTPAuthCustom
	// Advertise: what the server says about AUTH in its EHLO reply: "" = "AUTH <mech>" | none = no AUTH keyword | other = AUTH with
	// other mechanisms only | helo = EHLO refused, HELO only. The server accepts the AUTH command in every case.
	Advertise string `json:"advertise,omitempty"`
	// Retry (direct only): when the first exchange has failed, Auth is called again on the same smtp.Client with a new
	// Auth value; the server fault only hits the first exchange
	Retry bool `json:"retry_on_same_client,omitempty"`
}

// closingAuth wraps a mechanism: right before the response of step At is handed to the client, another goroutine
// closes (or quits) the smtp.Client - an exchange aborted from the client side (watchdog, shutdown handler).
type closingAuth struct {
	smtp.Auth
	at, n  int
	closer func()
}

func (a *closingAuth) Next(fromServer []byte, more bool) ([]byte, error) {
	if a.n == a.at && a.closer != nil {
		done := make(chan struct{})
		go func() { defer close(done); a.closer() }()
		<-done
	}
	a.n++
	return a.Auth.Next(fromServer, more)
}

func c16Auth(c c16Case) smtp.Auth {
	switch c.Mech {
	case "PLAIN":
		return smtp.PlainAuth("", c.User, c.Pass, netHost, true)
	case "LOGIN":
		return smtp.LoginAuth(c.User, c.Pass, netHost, true)
	case "CRAM-MD5":
		return smtp.CRAMMD5Auth(c.User, c.Pass)
	case "XOAUTH2":
		return smtp.XOAuth2Auth(c.User, c.Pass)
	case "SCRAM-SHA-1":
		return smtp.ScramSHA1Auth(c.User, c.Pass)
	}
	return smtp.ScramSHA256Auth(c.User, c.Pass)
}

type capLogger struct {
	mu   sync.Mutex
	recs []log.Log
}

func (c *capLogger) add(l log.Log) {
	c.mu.Lock()
	c.recs = append(c.recs, l)
	c.mu.Unlock()
}
func (c *capLogger) Debugf(l log.Log) { c.add(l) }
func (c *capLogger) Infof(l log.Log)  { c.add(l) }
func (c *capLogger) Warnf(l log.Log)  { c.add(l) }
func (c *capLogger) Errorf(l log.Log) { c.add(l) }

type lockedBuf struct {
	mu sync.Mutex
	b  bytes.Buffer
}

func (l *lockedBuf) Write(p []byte) (int, error) {
	l.mu.Lock()
	defer l.mu.Unlock()
	return l.b.Write(p)
}
func (l *lockedBuf) String() string {
	l.mu.Lock()
	defer l.mu.Unlock()
	return l.b.String()
}

func genSecret(r *mrand.Rand) string {
	const alpha = "abcdefghijklmnopqrstuvwxyzABCDEFGHIJKLMNOPQRSTUVWXYZ0123456789"
	b := make([]byte, 14)
	for i := range b {
		b[i] = alpha[r.Intn(len(alpha))]
	}
	s := string(b)
	switch r.Intn(5) {
	case 0:
		s = s[:7] + "%s%d" + s[7:]
	case 1:
		s = s[:5] + " " + s[5:]
	case 2:
		s = s[:6] + "ü€" + s[6:]
	case 3:
		s = s[:4] + "=+/" + s[4:]
	}
	return s
}

func authTypeNoEnc(mech string) mail.SMTPAuthType {
	switch mech {
	case "PLAIN":
		return mail.SMTPAuthPlainNoEnc
	case "LOGIN":
		return mail.SMTPAuthLoginNoEnc
	}
	return authTypeFor(mech)
}

// secretForms returns every encoding of the secret that must not occur in the log.
func secretForms(secret string) map[string]string {
	f := map[string]string{"raw": secret}
	f["base64"] = base64.StdEncoding.EncodeToString([]byte(secret))
	f["base64url"] = base64.URLEncoding.EncodeToString([]byte(secret))
	f["base64raw"] = base64.RawStdEncoding.EncodeToString([]byte(secret))
	f["hex"] = hex.EncodeToString([]byte(secret))
	f["HEX"] = strings.ToUpper(f["hex"])
	f["go-quoted"] = strings.Trim(fmt.Sprintf("%q", secret), `"`)
	return f
}

func runC16Case(r *ev.Run, c c16Case) {
	viol := func(key, what string, obs any) {
		r.Violate(ev.Violation{Key: key, What: what, Case: c, Observed: obs})
	}
	a := &authSrv{User: c.User, Pass: c.Pass, Iter: 64, Salt: []byte("c16salt"), Fault: c.Fault, FaultStep: c.FaultStep}
	if strings.HasPrefix(c.Fault, "client-") {
		a.Fault = "" // the server is healthy, the client side aborts
	}
	a.FaultOnce = c.Retry
	if c.WrongPass {
		a.Pass = c.Pass + "x"
	}
	tm := gen.TLS()
	farm := &refsmtp.Farm{NewConfig: func(int) *refsmtp.Config {
		sc := &refsmtp.Config{AllowUTF8: true, Auth: a.handler()}
		caps := []string{"8BITMIME", "AUTH " + c.Mech}
		switch c.Advertise {
		case "none":
			caps = []string{"8BITMIME"}
		case "other":
			caps = []string{"8BITMIME", "AUTH GSSAPI NTLM"}
		case "helo":
			sc.RefuseEHLO = true
		}
		if c.TLS {
			sc.TLS = gen.ServerTLS(tm.Good, 0, 0)
			sc.Caps = func(_ int, on bool) []string {
				if on {
					return caps
				}
				return []string{"STARTTLS"}
			}
		} else {
			sc.Caps = func(int, bool) []string { return caps }
		}
		return sc
	}}
	defer farm.Shutdown()
	capl := &capLogger{}
	out := &lockedBuf{}
	var lg log.Logger
	switch c.Logger {
	case "std":
		lg = log.New(out, log.LevelDebug)
	case "json":
		lg = log.NewJSON(out, log.LevelDebug)
	default:
		lg = capl
	}
	opts := []mail.Option{mail.WithDialContextFunc(farm.Dial), mail.WithTimeout(6 * time.Second), mail.WithHELO("client.verif.example"),
		mail.WithSMTPAuth(authTypeNoEnc(c.Mech)), mail.WithUsername(c.User), mail.WithPassword(c.Pass), mail.WithDebugLog(), mail.WithLogger(lg)}
	if c.TLS {
		opts = append(opts, mail.WithTLSPolicy(mail.TLSMandatory), mail.WithTLSConfig(gen.ClientTLS(netHost, 0, 0)))
	} else {
		opts = append(opts, mail.WithTLSPolicy(mail.NoTLS))
	}
	if c.OptIn {
		opts = append(opts, mail.WithLogAuthData())
	}
	if c.Via == "custom" {
		opts = append(opts, mail.WithSMTPAuthCustom(c16Auth(c)))
	}
	var debugSwitchedOn int32 // client-debug-on: set when the switch actually happened (the mechanism had that many steps)
	marker := fmt.Sprintf("marker%08x", mrand.Uint32())
	if c.Via == "direct" {
		// the smtp package used directly: Auth is the first command, so the EHLO is sent from inside Auth
		conn, derr := farm.Dial(context.Background(), "tcp", "")
		if derr != nil {
			r.HarnessError(derr.Error())
			return
		}
		_ = conn.SetDeadline(time.Now().Add(10 * time.Second))
		sc, nerr := smtp.NewClient(conn, netHost)
		if nerr != nil {
			r.HarnessError("smtp.NewClient: " + nerr.Error())
			return
		}
		sc.SetLogger(lg)
		if c.Fault != "client-debug-on" && c.Fault != "client-debug-after" { // client-debug-on: logging is switched on while the exchange runs
			sc.SetDebugLog(true)
		}
		if c.OptIn {
			sc.SetLogAuthData()
		}
		a := c16Auth(c)
		switch c.Fault {
		case "client-close":
			a = &closingAuth{Auth: a, at: c.FaultStep, closer: func() { _ = sc.Close() }}
		case "client-quit":
			a = &closingAuth{Auth: a, at: c.FaultStep, closer: func() { _ = sc.Quit() }}
		case "client-debug-on":
			a = &closingAuth{Auth: a, at: c.FaultStep, closer: func() { sc.SetDebugLog(true); atomic.StoreInt32(&debugSwitchedOn, 1) }}
		}
		aerr := sc.Auth(a)
		if aerr != nil && c.Retry {
			r.Count("auth_retries_on_same_client", 1)
			aerr = sc.Auth(c16Auth(c))
		}
		if c.Fault == "client-debug-after" {
			// the exchange ran with the debug log off; it is switched on for the traffic that follows
			sc.SetDebugLog(true)
			atomic.StoreInt32(&debugSwitchedOn, 1)
		}
		if aerr == nil {
			if sc.Mail(marker+"@sender.example") == nil {
				_ = sc.Rcpt(marker + "@rcpt.example")
			}
			_ = sc.Quit()
		}
		_ = conn.Close()
	} else {
		cl, err := mail.NewClient(netHost, opts...)
		if err != nil {
			r.HarnessError("C16 NewClient: " + err.Error())
			return
		}
		if c.Fault == "client-debug-after" {
			cl.SetDebugLog(false) // (before the dial-up: the Client starts without debug log)
		}
		if c.ExplicitOff {
			cl.SetLogAuthData(false)
		}
		msg, _ := simpleMsg("c16", marker+"@sender.example", []string{marker + "@rcpt.example"}, "quoted-printable", "body\r\n")
		ctx, cancel := context.WithTimeout(context.Background(), 15*time.Second)
		dialErr := cl.DialWithContext(ctx)
		cancel()
		if dialErr == nil {
			if c.Fault == "client-debug-after" {
				cl.SetDebugLog(true)
				atomic.StoreInt32(&debugSwitchedOn, 1)
			}
			_ = cl.Send(msg)
			_ = cl.Close()
		}
	}
	farm.Shutdown()
	// collect the log text
	var texts []string
	if c.Logger == "custom" {
		capl.mu.Lock()
		for _, l := range capl.recs {
			parts := []string{l.Format}
			for _, m := range l.Messages {
				parts = append(parts, fmt.Sprint(m))
			}
			texts = append(texts, strings.Join(parts, " \x1f "))
			// what a logger would print
			texts = append(texts, fmt.Sprintf(l.Format, l.Messages...))
		}
		capl.mu.Unlock()
	} else {
		texts = strings.Split(out.String(), "\n")
	}
	r.Count("log_records_inspected", int64(len(texts)))
	all := strings.Join(texts, "\n")
	res := a.result()
	sess, _ := farm.Snapshot()
	var cmds []refsmtp.CmdRecord
	if len(sess) > 0 {
		cmds, _, _ = sess[0].Snapshot()
	}
	// the lines the client sent inside the AUTH exchange
	var authLines []string
	for _, cr := range cmds {
		if cr.Verb == "AUTH-RESP" && cr.Line != "" && cr.Line != "*" {
			authLines = append(authLines, cr.Line)
		}
		if cr.Verb == "AUTH" && cr.Parsed != nil && cr.Parsed.AuthInitial != "" && cr.Parsed.AuthInitial != "=" {
			authLines = append(authLines, cr.Parsed.AuthInitial)
		}
	}
	leaks := 0
	report := func(kind, form string) {
		leaks++
		if c.OptIn {
			return
		}
		viol("secret-in-log:"+c.Mech+":"+kind+":"+faultName(c), fmt.Sprintf("the %s of the password/token appears in the debug log (%s logger, fault %s at step %d)", form, c.Logger, faultName(c), c.FaultStep), ev.Trunc(all, 3000))
	}
	for form, v := range secretForms(c.Pass) {
		if v != "" && strings.Contains(all, v) {
			report("password", form+" form")
		}
	}
	for _, line := range authLines {
		dec, err := base64.StdEncoding.DecodeString(line)
		carries := err == nil && strings.Contains(string(dec), c.Pass)
		if err == nil && c.Mech == "CRAM-MD5" && strings.Contains(string(dec), " ") {
			// the one response of CRAM-MD5 is "user keyed-digest": the digest is the password's encoding in this mechanism
			// (together with the challenge it is all an offline search needs)
			carries = true
			if i := strings.LastIndex(string(dec), " "); i >= 0 && len(dec)-i-1 >= 16 && strings.Contains(all, string(dec[i+1:])) {
				report("sasl-response-digest", "keyed digest of the CRAM-MD5 response")
			}
		}
		if !carries {
			continue
		}
		r.Count("secret_carrying_sasl_responses", 1)
		if strings.Contains(all, line) {
			report("sasl-response", "SASL response carrying it")
		}
		if strings.Contains(all, string(dec)) {
			report("sasl-response-decoded", "decoded SASL response")
		}
	}
	if c.OptIn {
		if leaks > 0 {
			r.Count("optin_secrets_visible", 1) // the monitor can see secrets when they are logged
		}
	} else {
		r.Count("redacted_runs", 1)
		if strings.Contains(all, "redacted") {
			r.Count("runs_with_redaction_marker", 1)
		}
		// the window closes again: traffic after authentication is logged in clear
		sawMail := false
		for _, cr := range cmds {
			if cr.Verb == "MAIL" && strings.Contains(cr.Line, marker) {
				sawMail = true
			}
		}
		lateDebug := c.Fault == "client-debug-on" || c.Fault == "client-debug-after"
		if lateDebug && atomic.LoadInt32(&debugSwitchedOn) == 0 {
			sawMail = false // logging never came on in this run
		}
		if sawMail {
			if !strings.Contains(all, "MAIL FROM:<"+marker) && !strings.Contains(all, marker+"@sender.example") {
				viol("window-not-closed:"+c.Mech, "the server received MAIL FROM for the marker sender after authentication, but the log does not show it in clear (redaction still active?)", ev.Trunc(all, 3000))
			} else {
				r.Count("post_auth_records_in_clear", 1)
			}
		}
		if res.Ran && !lateDebug && !strings.Contains(all, "EHLO") {
			viol("ehlo-not-logged", "debug logging is on but the EHLO line is not in the log", ev.Trunc(all, 1500))
		}
	}
	r.Seen("mech_x_fault", c.Mech+"|"+faultName(c)+fmt.Sprint(c.FaultStep))
	r.Eval(fmt.Sprintf("%s|%s|%d|%s|%t|%t|%t|%s|%s|%s|%t", c.Mech, c.Fault, c.FaultStep, c.Logger, c.OptIn, c.TLS, c.WrongPass, c.Pass, c.Via, c.Advertise, c.Retry), true)
	if c.Advertise != "" && res.Ran {
		r.Count("auth_exchanges_without_advertisement", 1)
	}
	if c.Via == "direct" {
		r.Count("runs_via_smtp_client_directly", 1)
	}
}

func faultName(c c16Case) string {
	if c.Fault == "" {
		return "none"
	}
	return c.Fault
}

func runC16(r *ev.Run, rep *ev.ReplayDoc) ev.Summary {
	sum := ev.Summary{
		Rule: "all mechanisms (PLAIN, LOGIN, CRAM-MD5, XOAUTH2, SCRAM-SHA-1/-256, -PLUS over TLS) x random high-entropy credentials (also with '%', blanks, non-ASCII, base64 specials) x server scripts {success, wrong password, 535 / 454 / malformed (non-base64) challenge / unexpected extra challenge / the user-name prompt repeated in place of the expected challenge / disconnect at every step of the exchange, the client closed or quit - or its debug log switched on - by another goroutine between two steps, the debug log switched on only after an exchange that ran without it, Auth called again on the same smtp.Client after a failed exchange} x {capturing custom logger, log.Stdlog, log.JSONlog} x {default, SetLogAuthData(false)} x {mail.Client with a built-in auth type, mail.Client with WithSMTPAuthCustom, smtp.Client.Auth as first command} x server announcing {the mechanism, no AUTH keyword, other mechanisms only, HELO only} (the server accepts the command regardless), debug logging on; if the connection survives a message with marker addresses is sent. A control group with WithLogAuthData shows that the monitor sees secrets when they are logged. distinct by case",
		Assumptions: []string{
			"the server never echoes credentials in its reply texts (an echoing server is outside the quantifier)",
			"forms searched: raw, base64 (std/url/raw), hex, Go-quoted, every client line of the AUTH exchange whose base64 decoding contains the secret, and that decoded text",
		},
		Floors: []ev.Floor{{Counter: "redacted_runs", Min: 800}, {Counter: "log_records_inspected", Min: 5000}, {Counter: "optin_secrets_visible", Min: 5}, {Counter: "post_auth_records_in_clear", Min: 100}, {Counter: "secret_carrying_sasl_responses", Min: 150}},
	}
	if rep != nil {
		var c c16Case
		if err := json.Unmarshal(rep.Case, &c); err != nil {
			r.HarnessError("bad replay case: " + err.Error())
			return sum
		}
		runC16Case(r, c)
		return sum
	}
	mechs := []string{"PLAIN", "LOGIN", "CRAM-MD5", "XOAUTH2", "SCRAM-SHA-1", "SCRAM-SHA-256", "SCRAM-SHA-256-PLUS", "SCRAM-SHA-1-PLUS"}
	faults := []string{"", "535", "454", "malformed", "extra", "drop", "reprompt", "reprompt-ok"}
	loggers := []string{"custom", "std", "json"}
	var cases []c16Case
	n := 0
	for _, mech := range mechs {
		for _, f := range faults {
			maxStep := 5
			if f == "" {
				maxStep = 1
			}
			for st := 0; st < maxStep; st++ {
				for li, lgr := range loggers {
					if !r.Thorough() && (n+li)%3 != 0 && f != "" {
						continue
					}
					n++
					rng := r.Rng("c16x", n)
					c := c16Case{Mech: mech, User: "user-" + genSecret(rng)[:6], Pass: genSecret(rng), Fault: f, FaultStep: st, Logger: lgr, TLS: isPlus(mech) || n%5 == 0, ExplicitOff: n%4 == 0}
					if !c.TLS && n%3 == 1 {
						c.Via = "direct"
					}
					cases = append(cases, c)
					if !c.TLS && !isPlus(mech) && f != "" && f != "drop" {
						cr := c
						cr.Via, cr.Retry = "direct", true
						cases = append(cases, cr)
					}
					if !c.TLS && !isPlus(mech) && f == "" {
						// the exchange is aborted from the client side: another goroutine closes / quits the client between two steps
						for st2 := 0; st2 < 3; st2++ {
							for _, cf := range []string{"client-close", "client-quit", "client-debug-on"} {
								c3 := c
								c3.Via, c3.Fault, c3.FaultStep = "direct", cf, st2
								cases = append(cases, c3)
							}
						}
						// the exchange runs with the debug log off, which is switched on for the live connection afterwards
						for _, via := range []string{"direct", "", "custom"} {
							c4 := c
							c4.Via, c4.Fault, c4.FaultStep = via, "client-debug-after", 0
							cases = append(cases, c4)
						}
					}
					if !c.TLS && !isPlus(mech) && (f == "" || st == 0) {
						// the same against servers that do not announce the mechanism (or AUTH at all) but accept the command
						for ai, adv := range []string{"none", "other", "helo"} {
							c2 := c
							c2.Advertise = adv
							c2.Via = []string{"direct", "custom"}[(n+ai)%2]
							cases = append(cases, c2)
						}
					}
				}
			}
		}
		// control group: opt-in
		for _, lgr := range loggers {
			n++
			rng := r.Rng("c16o", n)
			cases = append(cases, c16Case{Mech: mech, User: "user", Pass: genSecret(rng), Logger: lgr, OptIn: true, TLS: isPlus(mech)})
		}
	}
	// every SCRAM mechanism with passwords its password preparation refuses, every logger
	for mi, mech := range mechs {
		if !strings.HasPrefix(mech, "SCRAM") {
			continue
		}
		for pi, bad := range []string{"\t", "\u1100", "\u00ad", "\u200b", "\u0378"} {
			lgr := loggers[(mi+pi)%len(loggers)]
			rng := r.Rng("c16badpass", mi*10+pi)
			p := genSecret(rng)
			c := c16Case{Mech: mech, User: "user", Pass: p[:6] + bad + p[6:], Logger: lgr, TLS: isPlus(mech), ExplicitOff: pi%2 == 0}
			if !c.TLS && pi%2 == 1 {
				c.Via = "direct"
			}
			cases = append(cases, c)
		}
	}
	// every mechanism with an empty user name (a response of the exchange is an empty line then), every logger
	for mi, mech := range mechs {
		for li, lgr := range loggers {
			rng := r.Rng("c16emptyuser", mi*10+li)
			c := c16Case{Mech: mech, User: "", Pass: genSecret(rng), Logger: lgr, TLS: isPlus(mech), ExplicitOff: li%2 == 0}
			if !c.TLS && li%2 == 1 {
				c.Via = "direct"
			}
			cases = append(cases, c)
		}
	}
	m := r.Pick(2500, 100000)
	for i := 0; i < m; i++ {
		rng := r.Rng("c16", i)
		c := c16Case{Mech: gen.Pick(rng, append([]string{"PLAIN", "PLAIN", "LOGIN", "LOGIN", "XOAUTH2", "XOAUTH2"}, mechs...)), User: "u" + genSecret(rng)[:8], Pass: genSecret(rng), Logger: gen.Pick(rng, loggers), ExplicitOff: rng.Intn(3) == 0, WrongPass: rng.Intn(4) == 0}
		c.TLS = isPlus(c.Mech) || rng.Intn(4) == 0
		if rng.Intn(8) == 0 {
			c.User = "" // an account without a user name: the response that carries it is an empty line
		}
		if rng.Intn(8) == 0 {
			// a password the SCRAM password preparation refuses (the client gives the exchange up after the server-first
			// message); to the other mechanisms it is a password like any other
			c.Pass = c.Pass[:5] + gen.Pick(rng, []string{"\t", "\u1100", "\u00ad", "\u200b", "\u0378", "\x01"}) + c.Pass[5:]
		}
		if rng.Intn(2) == 0 {
			c.Fault = gen.Pick(rng, faults[1:])
			c.FaultStep = rng.Intn(5)
		}
		if !c.TLS && rng.Intn(4) == 0 {
			c.Via = "direct"
		}
		if !c.TLS && c.Fault != "" && rng.Intn(3) == 0 {
			c.Via, c.Retry = "direct", true
		}
		if !c.TLS && !c.Retry && rng.Intn(8) == 0 {
			c.Via, c.Fault, c.FaultStep = "direct", gen.Pick(rng, []string{"client-close", "client-quit", "client-debug-on"}), rng.Intn(3)
		}
		if !c.TLS && !strings.HasPrefix(c.Fault, "client-") && rng.Intn(5) == 0 {
			c.Via = gen.Pick(rng, []string{"direct", "custom"})
			c.Advertise = gen.Pick(rng, []string{"", "none", "other", "helo"})
		}
		cases = append(cases, c)
	}
	r.Parallel(len(cases), func(i int) {
		if i%251 == 0 {
			r.Sample(cases[i])
		}
		runC16Case(r, cases[i])
	})
	return sum
}
