//go:build verif

package main

import (
	"bytes"
	"encoding/json"
	"fmt"
	"io"
	mrand "math/rand"
	"strings"

	"verif/internal/ev"
	"verif/internal/gen"
	"verif/internal/mimeread"
)

func init() { register("C18", "exploration", runC18) }

type c18Case struct {
	Spec  gen.MsgSpec `json:"spec"`
	Prior int         `json:"prior_renders,omitempty"` // the message has been rendered that often before the judged render
}

// headerText builds a header value from words of controlled lengths and blank patterns.
func headerText(r *mrand.Rand) string {
	var sb strings.Builder
	n := 1 + r.Intn(12)
	if r.Intn(6) == 0 {
		sb.WriteString(gen.Pick(r, []string{" ", "  ", "\t"}))
	}
	for i := 0; i < n; i++ {
		var w string
		switch r.Intn(10) {
		case 0:
			w = strings.Repeat("x", gen.Pick(r, []int{60, 65, 70, 71, 72, 73, 74, 75, 76, 77, 78, 79, 80, 120, 300}))
		case 1:
			w = gen.Pick(r, []string{"Grüße", "日本語", "naïve", "Ελληνικά", "😀", "ÄÖÜ", "é"})
		case 2:
			w = "=?UTF-8?Q?" + strings.Repeat("a", 1+r.Intn(40)) // looks like the start of an encoded word, is not one
		case 3:
			w = strings.Repeat(gen.Pick(r, []string{"ab", "xyz", "q"}), 1+r.Intn(20))
		case 4:
			w = ""
		default:
			w = strings.Repeat("w", 1+r.Intn(12))
		}
		sb.WriteString(w)
		if i < n-1 {
			sb.WriteString(gen.Pick(r, []string{" ", " ", " ", "  ", "   "}))
		}
	}
	if r.Intn(6) == 0 {
		sb.WriteString(gen.Pick(r, []string{" ", "  "}))
	}
	return sb.String()
}

// wrapContent makes content whose length sits around the 57/76-byte wrapping points.
func wrapContent(r *mrand.Rand) []byte {
	base := gen.Pick(r, []int{0, 1, 56, 57, 58, 75, 76, 77, 113, 114, 115, 151, 152, 153, 171, 228, 4095, 4096, 4097})
	n := base + r.Intn(3) - 1
	if n < 0 {
		n = 0
	}
	if r.Intn(2) == 0 {
		b := make([]byte, n)
		r.Read(b)
		return b
	}
	// text with lines of interesting lengths
	var bb bytes.Buffer
	for bb.Len() < n {
		l := gen.Pick(r, []int{0, 1, 30, 74, 75, 76, 77, 78, 150})
		for i := 0; i < l; i++ {
			bb.WriteByte(byte(gen.Pick(r, []int{'a', 'b', ' ', '=', '.', 'z', '\t'})))
		}
		bb.WriteString(gen.Pick(r, []string{"\r\n", "\n"}))
	}
	return bb.Bytes()[:max(n, 0)]
}

var chunkings = []int{0, 1, 2, 3, 5, 7, 11, 13, 56, 57, 58, 75, 76, 77, 100, 1000}

func genC18Spec(r *mrand.Rand, id string) gen.MsgSpec {
	np := gen.Pick(r, []int{1, 1, 2, 3, 0})
	ne := gen.Pick(r, []int{0, 0, 1, 2})
	na := gen.Pick(r, []int{0, 1, 1, 2})
	if np == 0 && r.Intn(2) == 0 {
		// a message that consists of one file: the file's headers are part of the message header
		ne, na = 0, 0
		if r.Intn(2) == 0 {
			ne = 1
		} else {
			na = 1
		}
	}
	if np+ne+na == 0 {
		na = 1
	}
	s := genSpec(r, id, gen.Pick(r, []string{"quoted-printable", "base64"}), np, ne, na)
	s.Subject = headerText(r)
	s.Extra = append(s.Extra, [2]string{"X-Verif-Text", headerText(r)})
	if r.Intn(3) == 0 {
		// threading headers: lists of message ids (tokens of 30-70 characters separated by blanks)
		ids := func(n int) string {
			var out []string
			for i := 0; i < n; i++ {
				out = append(out, fmt.Sprintf("<%s.%d@%s.example.org>", strings.Repeat("t", 10+r.Intn(40)), r.Intn(1<<30), gen.Pick(r, []string{"lists", "mail", "a-rather-long-host-name"})))
			}
			return strings.Join(out, " ")
		}
		s.Extra = append(s.Extra, [2]string{"References", ids(2 + r.Intn(6))}, [2]string{"In-Reply-To", ids(1 + r.Intn(3))})
		if r.Intn(2) == 0 {
			s.Extra = append(s.Extra, [2]string{"Message-ID", ids(1)})
		}
	}
	if r.Intn(3) == 0 {
		// a header the caller has folded itself (DKIM-Signature / List-Unsubscribe style): CRLF followed by SP or HT
		s.Preformatted = append(s.Preformatted, [2]string{"X-Verif-Pre", gen.Pick(r, []string{
			"one line, not folded",
			"v=1; a=rsa-sha256; c=relaxed/relaxed;\r\n d=example.org; s=sel;\r\n\tbh=2jUSOH9NhtVGCQWNr9BrIAPreKQjO6Sn7XIkfJVOzv8=",
			"<mailto:unsubscribe@example.org?subject=unsubscribe>,\r\n <https://example.org/unsubscribe/0123456789abcdef0123456789abcdef>",
			"first\r\n second\r\n\tthird\r\n  fourth with two blanks",
		})})
	}
	s.From = gen.AddrSpec{Name: gen.Pick(r, []string{"", "Short Name", "Jürgen Müller", strings.Repeat("Long Display Name ", 5) + "End", strings.Repeat("x", 90)}), Addr: "sender@example.com"}
	s.To = nil
	for i := 0; i < 1+r.Intn(4); i++ {
		s.To = append(s.To, gen.AddrSpec{Name: gen.Pick(r, []string{"", "A B", "Üser Näme", strings.Repeat("Nm ", 20)}), Addr: fmt.Sprintf("rcpt%d@%s.example.net", i, strings.Repeat("d", 1+r.Intn(30)))})
	}
	for i := range s.Parts {
		p := &s.Parts[i]
		if p.Enc == "8bit" || p.Enc == "" && s.Enc == "8bit" {
			p.Enc = gen.Pick(r, []string{"quoted-printable", "base64"})
		}
		if r.Intn(2) == 0 {
			p.Content = wrapContent(r)
			if effEnc(s.Enc, p.Enc) == "quoted-printable" {
				p.Content = stripLoneCR(p.Content)
			}
		} else if effEnc(s.Enc, p.Enc) == "quoted-printable" {
			p.Content = gen.Content(r, gen.Pick(r, gen.TextClasses))
		}
		p.Via = "writer"
		p.Chunk = gen.Pick(r, chunkings)
		if r.Intn(8) == 0 {
			p.Desc = headerText(r)
		}
	}
	fix := func(fs []gen.FileSpec) {
		for i := range fs {
			f := &fs[i]
			if f.Enc == "8bit" {
				f.Enc = ""
			}
			if r.Intn(2) == 0 {
				f.Content = wrapContent(r)
			}
			f.Source = "writer"
			f.Chunk = gen.Pick(r, chunkings)
			if r.Intn(6) == 0 || np == 0 && r.Intn(2) == 0 {
				f.Desc = strings.TrimSpace(headerText(r))
			}
		}
	}
	fix(s.Embeds)
	fix(s.Attach)
	return s
}

// lineKey names the call site that produced a header line.
func lineKey(depth int, e *mimeread.Entity, field string) string {
	where := "top"
	if depth > 0 {
		where = "part"
		if d := e.Get1("Content-Disposition"); d != "" {
			where = "file"
		}
		if e.IsMultipart() {
			where = "container"
		}
	} else if strings.HasPrefix(strings.ToLower(field), "content-") {
		where = "top-content"
	}
	return where + ":" + field
}

func checkLineDiscipline(s *gen.MsgSpec, out []byte, viol func(key, what string, obs any), count func(string, int64)) {
	root := mimeread.Parse(out)
	root.Walk(func(e *mimeread.Entity) {
		for _, p := range e.Problems {
			switch p.Code {
			case "bare-cr", "bare-lf", "no-crlf-at-end":
				viol("header-"+p.Code, p.String(), nil)
			case "ws-only-line":
				// a folded line of blanks only is obsolete syntax (RFC 5322 4.2) but still unfolds to
				// the value that was set; the property does not forbid it - counted, not judged
				count("ws_only_fold_lines_seen", 1)
			}
		}
		for _, f := range e.Fields {
			for li, l := range f.RawLines {
				count("header_lines_checked", 1)
				if len(l) <= 78 {
					continue
				}
				rest := strings.TrimLeft(l, " \t")
				if li == 0 {
					// "Name: token": the blank after the colon does not make the line foldable content
					rest = strings.TrimLeft(l[len(f.Name)+1:], " \t")
				}
				if q := strings.TrimPrefix(rest, "boundary=\""); q != rest && strings.HasSuffix(q, "\"") && !strings.Contains(q[:len(q)-1], "\"") && strings.Contains(q, " ") {
					// the whole line is one quoted boundary parameter that holds a blank (a caller-defined boundary of
					// almost the maximum length): not a single token, so the statement counts it - under a key of its own
					viol("header-line-too-long:quoted-boundary-with-blank", fmt.Sprintf("header line of %d characters: a quoted boundary parameter that contains a blank: %q", len(l), ev.Trunc(l, 200)), nil)
				} else if strings.ContainsAny(rest, " \t") {
					lk := lineKey(e.Depth, e, f.Name)
					if lk == "top-content:Content-Type" && strings.HasPrefix(strings.ToLower(l), "content-type: multipart/signed;") {
						lk += ":multipart-signed-first-line" // the known S/MIME finding, kept apart from every other Content-Type line
					}
					viol("header-line-too-long:"+lk, fmt.Sprintf("header line of %d characters that contains blanks (could have been folded): %q", len(l), ev.Trunc(l, 200)), nil)
				} else {
					count("long_single_token_lines", 1)
				}
			}
		}
		if e.IsMultipart() {
			return
		}
		switch e.CTE {
		case "quoted-printable", "base64":
			_, probs := e.DecodeLeaf()
			for _, p := range probs {
				switch p {
				case "qp-line-too-long", "b64-line-too-long", "qp-bare-cr", "qp-bare-lf", "b64-bare-cr", "b64-bare-lf":
					viol("body-"+p, fmt.Sprintf("%s body violates the line discipline (%s)", e.CTE, p), ev.Q(e.Body, 400))
				}
			}
			count("encoded_body_lines_checked", int64(bytes.Count(e.Body, []byte("\r\n"))+1))
		}
	})
	// unfolding gives back what was set
	chk := func(field, want string) {
		if want == "" {
			return
		}
		got := root.Get(field)
		if len(got) != 1 {
			viol("header-count:"+field, fmt.Sprintf("%d %s fields", len(got), field), nil)
			return
		}
		dec, _ := mimeread.DecodeWords(got[0])
		dec = strings.Trim(dec, " \t") // blanks at the ends may sit inside or outside an encoded-word
		w := strings.Trim(want, " \t")
		count("header_values_unfolded", 1)
		if dec != w {
			cls := "exact"
			if mimeread.CollapseWS(dec) == mimeread.CollapseWS(w) {
				cls = "blank-runs"
			}
			viol("unfold-mismatch:"+field+":"+cls, fmt.Sprintf("%s unfolds/decodes to %q, value set was %q", field, dec, w), got[0])
		}
	}
	chk("Subject", s.Subject)
	for _, h := range s.Extra {
		if strings.HasPrefix(h[0], "X-Verif-") {
			chk(h[0], h[1])
		}
	}
	for _, h := range s.Preformatted {
		// what was set, with the caller's own folds taken out
		chk(h[0], strings.NewReplacer("\r\n ", " ", "\r\n\t", "\t").Replace(h[1]))
	}
	// display names
	chkAddr := func(field string, want []gen.AddrSpec) {
		got := root.Get(field)
		if len(got) != 1 {
			viol("header-count:"+field, fmt.Sprintf("%d %s fields", len(got), field), nil)
			return
		}
		as, err := mimeread.ParseAddressList(got[0])
		if err != nil || len(as) != len(want) {
			viol("address-unfold:"+field, fmt.Sprintf("%s does not parse back to %d addresses: %v: %q", field, len(want), err, got[0]), nil)
			return
		}
		for i := range as {
			count("addresses_unfolded", 1)
			if as[i].Spec() != want[i].Addr || as[i].Name != want[i].Name {
				viol("address-unfold:"+field, fmt.Sprintf("%s[%d] parses to %q <%s>, set was %q <%s>", field, i, as[i].Name, as[i].Spec(), want[i].Name, want[i].Addr), got[0])
			}
		}
	}
	chkAddr("From", []gen.AddrSpec{s.From})
	chkAddr("To", s.To)
	// descriptions of body parts and files: leaves come in the order parts, embeds, attachments
	if s.SMIME == "" {
		var leaves []*mimeread.Entity
		root.Walk(func(e *mimeread.Entity) {
			if !e.IsMultipart() {
				leaves = append(leaves, e)
			}
		})
		type want struct{ kind, desc string }
		var ws []want
		for _, p := range s.Parts {
			ws = append(ws, want{"part", p.Desc})
		}
		for _, f := range s.Embeds {
			ws = append(ws, want{"file", f.Desc})
		}
		for _, f := range s.Attach {
			ws = append(ws, want{"file", f.Desc})
		}
		if len(leaves) == len(ws) { // (a wrong leaf count is reported by the content oracle)
			for i, w := range ws {
				if w.desc == "" {
					continue
				}
				got := leaves[i].Get("Content-Description")
				if len(got) == 0 {
					// (no Content-Description although one was set: the absence of a field is C02's business, nothing was generated
					// that could be judged here - counted)
					count("descriptions_not_emitted", 1)
					continue
				}
				if len(got) != 1 {
					viol("header-count:"+w.kind+":Content-Description", fmt.Sprintf("leaf %d: %d Content-Description fields, one was set", i, len(got)), ev.Q(out, 1200))
					continue
				}
				dec, _ := mimeread.DecodeWords(got[0])
				count("descriptions_unfolded", 1)
				if strings.Trim(dec, " \t") != strings.Trim(w.desc, " \t") {
					cls := "exact"
					if mimeread.CollapseWS(dec) == mimeread.CollapseWS(w.desc) {
						cls = "blank-runs"
					}
					viol("unfold-mismatch:"+w.kind+":Content-Description:"+cls, fmt.Sprintf("leaf %d: Content-Description unfolds/decodes to %q, value set was %q", i, dec, w.desc), got[0])
				}
			}
		}
	}
}

func runC18Case(r *ev.Run, c c18Case) {
	s := &c.Spec
	viol := func(key, what string, obs any) {
		r.Violate(ev.Violation{Key: key, What: what, Case: c, Observed: obs})
	}
	m, err := s.Build(&gen.Env{})
	if err != nil {
		r.HarnessError("C18 build: " + err.Error())
		return
	}
	for k := 0; k < c.Prior; k++ {
		_, _ = m.WriteTo(io.Discard)
	}
	var buf bytes.Buffer
	if _, err := m.WriteTo(&buf); err != nil {
		viol("render-error", "fault-free render failed: "+err.Error(), nil)
		return
	}
	checkLineDiscipline(s, buf.Bytes(), viol, r.Count)
	// decoded bodies equal the content whatever the chunking (C01 oracle, content keys only)
	if s.SMIME == "" {
		checkRendered(s, buf.Bytes(), func(key, what string, obs any) {
			if strings.HasPrefix(key, "content:") || strings.HasPrefix(key, "decode:") || strings.HasPrefix(key, "leaf-count") {
				viol("chunking:"+key, what, obs)
			}
		})
	}
	chunks := map[int]bool{}
	for _, p := range s.Parts {
		chunks[p.Chunk] = true
	}
	for _, f := range append(append([]gen.FileSpec{}, s.Embeds...), s.Attach...) {
		chunks[f.Chunk] = true
	}
	for k := range chunks {
		r.Seen("chunk_sizes", fmt.Sprint(k))
	}
	r.Eval(s.Shape()+fmt.Sprint(len(s.Subject)), true)
}

func runC18(r *ev.Run, rep *ev.ReplayDoc) ev.Summary {
	sum := ev.Summary{
		Rule: "(generic headers also pre-folded by the caller and set through SetGenHeaderPreformatted) seeded messages: header values from words of length 0-300 with single/multiple/leading/trailing blanks, non-ASCII words (Q and B encoders), long display names and domains, threading headers (References / In-Reply-To with several message ids, caller-defined Message-ID); part and file descriptions (unfolded and compared like every other value; also on messages that consist of one file, whose headers are part of the message header); QP/base64 parts and files with contents around the 57/76-byte wrapping points, emitted by producers in chunks of {all,1,2,3,5,7,11,13,56,57,58,75,76,77,100,1000} bytes; a share is S/MIME signed. Oracle scans every physical line of every header section and every encoded body of the raw output. non-trivial = every case (all have long/folded headers or wrapped bodies); distinct by (shape, subject length)",
		Assumptions: []string{
			"a header line longer than 78 characters is allowed only if (after its leading fold blank) it contains no blank, as the property states",
			"unfolded values are compared after RFC 2047 decoding and trimming of leading/trailing blanks; blank runs inside the value must survive exactly",
		},
		Floors: []ev.Floor{{Counter: "evaluations", Min: 500}, {Counter: "header_lines_checked", Min: 10000}, {Counter: "encoded_body_lines_checked", Min: 5000}, {Counter: "chunk_sizes", Min: 10}},
	}
	if rep != nil {
		var c c18Case
		if err := json.Unmarshal(rep.Case, &c); err != nil {
			r.HarnessError("bad replay case: " + err.Error())
			return sum
		}
		runC18Case(r, c)
		return sum
	}
	n := r.Pick(5000, 300000)
	r.Parallel(n, func(i int) {
		rng := r.Rng("c18", i)
		s := genC18Spec(rng, fmt.Sprintf("c18-%d", i))
		if i%25 == 0 {
			s.SMIME = gen.Pick(rng, []string{"rsa", "ecdsa"})
			canon8bit(&s)
			for j := range s.Parts {
				s.Parts[j].Content = gen.CanonLF(stripLoneCR(s.Parts[j].Content))
			}
		}
		if i%1201 == 0 {
			r.Sample(map[string]any{"shape": s.Shape(), "subject": ev.Trunc(s.Subject, 120)})
		}
		c := c18Case{Spec: s}
		if i%4 == 3 {
			c.Prior = 1
		}
		runC18Case(r, c)
	})
	return sum
}
