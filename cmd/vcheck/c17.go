//go:build verif

package main

import (
	"context"
	"errors"
	"encoding/json"
	"fmt"
	"net"
	"os"
	"strings"
	"sync"
	"sync/atomic"
	"time"

	mail "github.com/wneessen/go-mail"

	"verif/internal/ev"
	"verif/internal/faultio"
	"verif/internal/gen"
	"verif/internal/refsmtp"
)

func init() { register("C17", "fault_enumeration", runC17) }

type c17Config struct {
	Name       string   `json:"name"`
	Call       string   `json:"call"` // dial | dialandsend | send | reset
	TLS        string   `json:"tls"`  // none | starttls
	Auth       string   `json:"auth,omitempty"`
	Caps       []string `json:"caps"`
	CapsTLS    []string `json:"caps_tls,omitempty"`
	RefuseEHLO bool     `json:"refuse_ehlo,omitempty"`
	NoNoop     bool     `json:"no_noop,omitempty"`
	NRcpt      int      `json:"nrcpt"`
	TimeoutMS  int      `json:"timeout_ms"`
	// Ctx: the context handed to the *WithContext calls: "" = context.Background() | later = a context whose own
	// deadline is one hour away (the configured timeout is the tighter bound and still has to hold)
	Ctx string `json:"ctx,omitempty"`
	// Warm: the Client has just been used for a complete, healthy DialAndSend (connection 0) when the judged call
	// starts; the server goes silent on the next connection
	Warm bool `json:"warm_client,omitempty"`
	// Fallback: the Client has a fallback port (WithTLSPortPolicy(TLSOpportunistic): 587, then 25); nothing listens on
	// the primary port, the server that goes silent is the one reached through the fallback port
	Fallback bool `json:"fallback_port,omitempty"`
	// NMsgs > 1: the judged call carries a batch of that many messages (the timeout bounds the call, whatever the number
	// of transactions in it)
	NMsgs int `json:"messages_in_the_call,omitempty"`
}

type c17Case struct {
	Cfg       c17Config     `json:"cfg"`
	Script    []scriptEntry `json:"script"`                     // one "stall" entry
	StallData int           `json:"stall_data_after,omitempty"` // >0: stop reading DATA content after n bytes
	StallTLS  bool          `json:"stall_tls_handshake,omitempty"`
}

const c17Slack = 250 * time.Millisecond

func runC17Case(r *ev.Run, c c17Case) int {
	cfg := c.Cfg
	viol := func(key, what string, obs any) {
		r.Violate(ev.Violation{Key: key, What: what, Case: c, Observed: obs})
	}
	timeout := time.Duration(cfg.TimeoutMS) * time.Millisecond
	watchdog := 20 * timeout
	if watchdog < 5*time.Second {
		watchdog = 5 * time.Second
	}
	if cfg.TLS == "starttls" {
		// crypto/tls.Conn.Close sends close_notify under its own fixed 5 s write deadline; over the
		// unbuffered net.Pipe that write blocks when the peer has stopped reading
		watchdog += 6 * time.Second
	}
	tm := gen.TLS()
	judged := 0 // index of the connection the judged call runs on
	if cfg.Warm {
		judged = 1
	}
	farm := &refsmtp.Farm{NewConfig: func(n int) *refsmtp.Config {
		if n < judged {
			return &refsmtp.Config{AllowUTF8: true, RefuseEHLO: cfg.RefuseEHLO, TLS: gen.ServerTLS(tm.Good, 0, 0), Auth: plainAuthHandler("user", "secret-pass"),
				Caps: func(_ int, tlsOn bool) []string {
					if tlsOn && cfg.CapsTLS != nil {
						return cfg.CapsTLS
					}
					return cfg.Caps
				}}
		}
		return &refsmtp.Config{
			Decide: scriptDecide(c.Script), AllowUTF8: true, RefuseEHLO: cfg.RefuseEHLO,
			TLS: gen.ServerTLS(tm.Good, 0, 0), TLSStall: c.StallTLS, StallDataAfter: c.StallData,
			Auth: plainAuthHandler("user", "secret-pass"),
			Caps: func(_ int, tlsOn bool) []string {
				if tlsOn && cfg.CapsTLS != nil {
					return cfg.CapsTLS
				}
				return cfg.Caps
			},
		}
	}}
	opts := []mail.Option{mail.WithDialContextFunc(farm.Dial), mail.WithTimeout(timeout), mail.WithHELO("client.verif.example"), mail.WithTLSConfig(gen.ClientTLS(netHost, 0, 0))}
	if cfg.Fallback {
		opts[0] = mail.WithDialContextFunc(func(ctx context.Context, network, address string) (net.Conn, error) {
			if strings.HasSuffix(address, ":587") {
				r.Count("refused_dials_on_the_primary_port", 1)
				return nil, &net.OpError{Op: "dial", Net: network, Err: errors.New("connection refused (nothing listens on the primary port)")}
			}
			return farm.Dial(ctx, network, address)
		})
		// opportunistic: STARTTLS is used exactly when the server announces it
		opts = append(opts, mail.WithTLSPortPolicy(mail.TLSOpportunistic))
	} else if cfg.TLS == "starttls" {
		opts = append(opts, mail.WithTLSPolicy(mail.TLSMandatory))
	} else {
		opts = append(opts, mail.WithTLSPolicy(mail.NoTLS))
	}
	if cfg.Auth != "" {
		opts = append(opts, mail.WithSMTPAuth(authTypeOf(cfg.Auth)), mail.WithUsername("user"), mail.WithPassword("secret-pass"))
	}
	if cfg.NoNoop {
		opts = append(opts, mail.WithoutNoop())
	}
	cl, err := mail.NewClient(netHost, opts...)
	if err != nil {
		r.HarnessError("C17 NewClient: " + err.Error())
		return 0
	}
	var rc []string
	for j := 0; j < cfg.NRcpt; j++ {
		rc = append(rc, fmt.Sprintf("r%d@rcpt.example", j))
	}
	body := "line of body text\r\n"
	for len(body) < 6000 {
		body += body
	}
	msg, _ := simpleMsg("c17", "m0@sender.example", rc, "quoted-printable", body)
	batch := []*mail.Msg{msg}
	for k := 1; k < cfg.NMsgs; k++ {
		mk, _ := simpleMsg(fmt.Sprintf("c17-%d", k), fmt.Sprintf("m%d@sender.example", k), rc, "quoted-printable", body[:600])
		batch = append(batch, mk)
	}

	// phases: setup (not judged) and the judged call
	var callErr error
	var callStart time.Time
	var mu sync.Mutex
	returned := false
	var returnedAt time.Time
	done := make(chan struct{})
	setupFailed := false
	go func() {
		defer close(done)
		defer func() { _ = recover() }()
		ctx := context.Background()
		if cfg.Warm {
			warm, _ := simpleMsg("c17w", "w0@sender.example", rc, "quoted-printable", "warm-up\r\n")
			if err := cl.DialAndSendWithContext(ctx, warm); err != nil {
				setupFailed = true
				return
			}
		}
		if cfg.Ctx == "later" {
			var cancel context.CancelFunc
			ctx, cancel = context.WithTimeout(ctx, time.Hour)
			defer cancel()
		}
		switch cfg.Call {
		case "dial":
			mu.Lock()
			callStart = time.Now()
			mu.Unlock()
			callErr = cl.DialWithContext(ctx)
		case "dialandsend":
			mu.Lock()
			callStart = time.Now()
			mu.Unlock()
			callErr = cl.DialAndSendWithContext(ctx, batch...)
		case "send":
			if err := cl.DialWithContext(ctx); err != nil {
				setupFailed = true
				return
			}
			mu.Lock()
			callStart = time.Now()
			mu.Unlock()
			callErr = cl.Send(batch...)
		case "reset":
			if err := cl.DialWithContext(ctx); err != nil {
				setupFailed = true
				return
			}
			mu.Lock()
			callStart = time.Now()
			mu.Unlock()
			callErr = cl.Reset()
		}
		mu.Lock()
		returned, returnedAt = true, time.Now()
		mu.Unlock()
	}()
	hung := false
	select {
	case <-done:
	case <-time.After(watchdog + timeout):
		hung = true
	}
	// the caller carries on with the Client after the call that ran into the stall has returned its error
	followHung, followRan := false, false
	var followErr error
	var followEl time.Duration
	if !hung && !setupFailed && (cfg.Call == "send" || cfg.Call == "reset") && callErr != nil {
		followRan = true
		fdone := make(chan struct{})
		go func() {
			defer close(fdone)
			defer func() { _ = recover() }()
			t0 := time.Now()
			if cfg.Call == "send" {
				followErr = cl.Reset()
			} else {
				followErr = cl.Send(msg)
			}
			followEl = time.Since(t0)
		}()
		select {
		case <-fdone:
		case <-time.After(watchdog + timeout):
			followHung = true
		}
	}
	stallVerb := "none"
	steps := 0
	var stallTick int64
	var logR, logW []faultio.ReadObs
	sess, conns := farm.Snapshot()
	if len(sess) > judged {
		cmds, _, _ := sess[judged].Snapshot()
		for _, cr := range cmds {
			if cr.Index+1 > steps {
				steps = cr.Index + 1
			}
			if cr.Stalled {
				stallVerb = cr.Verb
				if stallTick == 0 {
					stallTick = cr.Tick
				}
			}
		}
	}
	var pendR, pendW []faultio.ReadObs
	if len(conns) > judged {
		pendR, pendW = conns[judged].PendingIO()
		logR, logW = conns[judged].IOLog()
	}
	mu.Lock()
	cs, ret, retAt := callStart, returned, returnedAt
	mu.Unlock()
	farm.Shutdown()
	stuck := false // the call does not even return once the connection has been closed under it: it is not waiting for the network
	if hung {
		select {
		case <-done:
		case <-time.After(10 * time.Second):
			stuck = true
		}
	}
	if stuck {
		r.Count("stalls_executed", 1)
		viol(fmt.Sprintf("blocked-indefinitely:%s:%s", cfg.Call, cfg.TLS), fmt.Sprintf("%s (timeout %v) did not return within %v after the server went silent, and not even within 10 s after the connection had been closed under it: it is blocked on something that no deadline bounds", cfg.Call, timeout, watchdog+timeout), nil)
		return steps
	}
	if setupFailed {
		// the stall hit the set-up phase (dial before Send/Reset): covered by the dial configurations
		r.Count("stall_in_setup_phase", 1)
		return steps
	}
	if stallVerb == "none" {
		// the script position was never reached (e.g. the call ended earlier)
		r.Count("stall_point_not_reached", 1)
		r.Eval(cfg.Name+"|nostall|"+scriptString(c.Script), false)
		return steps
	}
	r.Count("stalls_executed", 1)
	r.Seen("stall_points", cfg.Call+":"+stallVerb)
	key := fmt.Sprintf("%s:%s:%s", cfg.Call, stallVerb, cfg.TLS)
	if followRan {
		r.Count("follow_up_calls_after_a_stalled_call", 1)
		if followHung {
			viol("follow-up-call-blocked:"+key, fmt.Sprintf("%s returned its error after the stall at %s; the next call on the same Client (%s) was still blocked %v later (timeout %v)", cfg.Call, stallVerb, map[string]string{"send": "Reset", "reset": "Send"}[cfg.Call], watchdog+timeout, timeout), nil)
		} else {
			r.Max("max_follow_up_return_ms", followEl.Milliseconds())
			_ = followErr
		}
	}
	// the waiting time the client granted the silent server: every read that ran into its deadline after the server had
	// stopped answering was armed with (deadline - start of the read). These are the client's own numbers, not the
	// machine's speed; together they may not exceed the configured timeout (half a timeout of tolerance).
	if stallTick > 0 {
		var granted time.Duration
		nTimedOut := 0
		var obs []string
		ios := append([]faultio.ReadObs{}, logR...)
		if cfg.TLS == "none" {
			// writes that ran into their deadline count as well - where no TLS layer sits in between (crypto/tls arms a
			// fixed 5 s deadline of its own for the close_notify alert, which is not the client's doing)
			ios = append(ios, logW...)
		}
		for _, o := range ios {
			if ret && !o.At.Before(retAt) {
				continue // a read of the follow-up call: every call has its own timeout
			}
			if o.Returned && o.WasTimeout && !o.Deadline.IsZero() && o.ReturnedAt.After(o.At) {
				// reads that were pending when the server went silent count as well: they end after the stall began
				if o.Tick > stallTick || nTimedOut == 0 {
					if d := o.Deadline.Sub(o.At); d > 0 {
						granted += d
					}
					nTimedOut++
					obs = append(obs, fmt.Sprintf("read/write armed with %v", o.Deadline.Sub(o.At).Round(time.Millisecond)))
				}
			}
		}
		r.Max("max_timed_out_reads_after_a_stall", int64(nTimedOut))
		if nTimedOut > 1 && granted > timeout+timeout/2 {
			viol("waited-several-timeouts:"+key, fmt.Sprintf("after the server went silent at %s, %s (timeout %v) ran %d reads into their deadlines, each armed anew: together it granted the silent server %v", stallVerb, cfg.Call, timeout, nTimedOut, granted.Round(time.Millisecond)), obs)
		}
	}
	if !hung && ret {
		el := retAt.Sub(cs)
		r.Max("max_return_ms", el.Milliseconds())
		if callErr == nil {
			viol("returned-nil-on-stall:"+key, fmt.Sprintf("%s returned nil although the server stalled at %s", cfg.Call, stallVerb), nil)
		} else {
			r.Count("returned_with_error_in_time", 1)
		}
		r.Eval(cfg.Name+"|"+stallVerb+"|"+scriptString(c.Script)+fmt.Sprint(c.StallData, c.StallTLS), true)
		if el > 3*timeout+c17Slack && os.Getenv("VERIF_DEBUG") != "" {
			fmt.Fprintf(os.Stderr, "SLOW %s stall=%s el=%v err=%v transcript=%s\n", cfg.Name, stallVerb, el, callErr, sess[judged].Transcript())
		}
		if el > 3*timeout+c17Slack {
			r.Seen("slow_returns", fmt.Sprintf("%s:%s:%dms", cfg.Call, stallVerb, el.Milliseconds()/100*100))
		}
		return steps
	}
	// did not return before the watchdog: judge by the logical cause
	var lateOrMissing []string
	limit := cs.Add(timeout + c17Slack)
	for _, o := range append(pendR, pendW...) {
		if o.Deadline.IsZero() {
			lateOrMissing = append(lateOrMissing, "no deadline armed")
		} else if o.Deadline.After(limit.Add(watchdog)) {
			lateOrMissing = append(lateOrMissing, fmt.Sprintf("deadline %v after the call started", o.Deadline.Sub(cs)))
		}
	}
	if len(lateOrMissing) > 0 {
		viol("blocked-without-deadline:"+key, fmt.Sprintf("%s (timeout %v) was still blocked %v after it started, with the server silent at %s; the pending network operation had: %v", cfg.Call, timeout, watchdog+timeout, stallVerb, lateOrMissing), nil)
	} else {
		r.Inconclusive(fmt.Sprintf("C17 %s stalled at %s did not return before the watchdog although a deadline was armed (pending reads %d writes %d)", cfg.Call, stallVerb, len(pendR), len(pendW)))
	}
	r.Eval(cfg.Name+"|"+stallVerb+"|"+scriptString(c.Script), true)
	return steps
}

func c17Configs(thorough bool) []c17Config {
	all := []string{"8BITMIME", "DSN"}
	with := func(extra ...string) []string { return append(append([]string{}, all...), extra...) }
	var cfgs []c17Config
	tmo := 300
	for _, call := range []string{"dial", "dialandsend", "send", "reset"} {
		cfgs = append(cfgs,
			c17Config{Name: call + "-plain", Call: call, TLS: "none", Caps: all, NRcpt: 2, TimeoutMS: tmo},
			c17Config{Name: call + "-starttls", Call: call, TLS: "starttls", Caps: with("STARTTLS"), CapsTLS: all, NRcpt: 1, TimeoutMS: tmo},
			c17Config{Name: call + "-auth-plain", Call: call, TLS: "none", Caps: with("AUTH PLAIN LOGIN"), Auth: "PLAIN", NRcpt: 1, TimeoutMS: tmo},
			c17Config{Name: call + "-auth-login", Call: call, TLS: "none", Caps: with("AUTH LOGIN"), Auth: "LOGIN", NRcpt: 1, TimeoutMS: tmo},
		)
		if call == "send" || call == "dialandsend" {
			// a batch of messages in one call
			cfgs = append(cfgs, c17Config{Name: call + "-batch", Call: call, TLS: "none", Caps: all, NRcpt: 1, TimeoutMS: tmo, NMsgs: 3})
		}
		if thorough || call == "dial" {
			cfgs = append(cfgs,
				c17Config{Name: call + "-helo-fallback", Call: call, TLS: "none", Caps: all, RefuseEHLO: true, NRcpt: 1, TimeoutMS: tmo},
				c17Config{Name: call + "-starttls-auth", Call: call, TLS: "starttls", Caps: with("STARTTLS"), CapsTLS: with("AUTH PLAIN"), Auth: "PLAIN-TLSONLY", NRcpt: 1, TimeoutMS: tmo},
			)
		}
		// a Client that has just completed a healthy DialAndSend (state carried from one connection to the next)
		cfgs = append(cfgs, c17Config{Name: call + "-warm-client", Call: call, TLS: "none", Caps: all, NRcpt: 1, TimeoutMS: tmo, Warm: true})
		// the connection is obtained through the fallback port
		if call == "dial" || call == "dialandsend" || thorough {
			cfgs = append(cfgs, c17Config{Name: call + "-fallback-port", Call: call, TLS: "none", Caps: with("AUTH PLAIN"), Auth: "PLAIN", NRcpt: 1, TimeoutMS: tmo, Fallback: true})
		}
		if call == "dial" || thorough {
			cfgs = append(cfgs, c17Config{Name: call + "-fallback-port-starttls", Call: call, TLS: "starttls", Caps: with("STARTTLS"), CapsTLS: all, NRcpt: 1, TimeoutMS: tmo, Fallback: true})
		}
		// a caller context with a deadline of its own that is far later than the configured timeout
		cfgs = append(cfgs, c17Config{Name: call + "-plain-ctx-later", Call: call, TLS: "none", Caps: with("AUTH PLAIN"), Auth: "PLAIN", NRcpt: 1, TimeoutMS: tmo, Ctx: "later"})
		if thorough || call == "dial" {
			cfgs = append(cfgs, c17Config{Name: call + "-starttls-ctx-later", Call: call, TLS: "starttls", Caps: with("STARTTLS"), CapsTLS: all, NRcpt: 1, TimeoutMS: tmo, Ctx: "later"})
		}
		if call != "dial" {
			// without the NOOP connection check the deadline must still be armed for the send dialogue
			cfgs = append(cfgs, c17Config{Name: call + "-nonoop", Call: call, TLS: "none", Caps: all, NoNoop: true, NRcpt: 2, TimeoutMS: tmo})
		}
		if thorough {
			cfgs = append(cfgs,
				c17Config{Name: call + "-nonoop-200", Call: call, TLS: "none", Caps: all, NoNoop: true, NRcpt: 3, TimeoutMS: 200},
				c17Config{Name: call + "-plain-400", Call: call, TLS: "none", Caps: all, NRcpt: 1, TimeoutMS: 400},
			)
		}
	}
	return cfgs
}

func runC17(r *ev.Run, rep *ev.ReplayDoc) ev.Summary {
	sum := ev.Summary{
		Rule: "for DialWithContext, DialAndSend, Send and Reset x {no TLS, STARTTLS} x {no auth, PLAIN, LOGIN, AUTH after STARTTLS, HELO fallback} x {context.Background, a caller context whose own deadline is an hour away} x {fresh Client, Client that has just completed a healthy DialAndSend} x {primary port, connection obtained through the fallback port after the primary port refused}: the reference server goes silent (holding the connection; not reading any more, or still reading but never replying) at every command position of the dialogue in turn - greeting, EHLO, HELO, STARTTLS reply, inside the TLS handshake, post-TLS EHLO, every AUTH step, NOOP, MAIL, each RCPT, DATA, inside the content, end-of-data reply, RSET, QUIT. Send and DialAndSend also with a batch of three messages in the call. The tracking conn records the deadline armed at the entry of every Read/Write. After a stalled Send / Reset has returned its error, the other one of the two is called on the same Client and has to return, too. non-trivial = the stall point was reached; distinct by (configuration, stall point)",
		Assumptions: []string{
			"generous bound: a call counts as blocked only if it has not returned max(20 x timeout, 5 s) + timeout after it started",
			"violation = still blocked AND the pending network operation was entered without a deadline (the logical cause); blocked with a deadline armed = inconclusive",
			"stalls that hit the set-up phase of Send/Reset (the preceding dial) are not judged there; the dial configurations cover them",
		},
		Floors:     []ev.Floor{{Counter: "stalls_executed", Min: 60}, {Counter: "stall_points", Min: 25}},
		Exhaustive: true,
	}
	if rep != nil {
		var ic c17ImplicitCase
		if json.Unmarshal(rep.Case, &ic) == nil && ic.Implicit {
			_, verb, blocked, _, _, _ := runC17Implicit(ic, 12*time.Second)
			if blocked {
				r.Violate(ev.Violation{Key: "blocked-implicit-tls:" + ic.Call + ":" + verb, What: "still blocked after 12 s", Case: ic})
			}
			r.Eval("replay", true)
			return sum
		}
		var rc c17RedialCase
		if json.Unmarshal(rep.Case, &rc) == nil && rc.Redial {
			runC17Redial(r, rc)
			return sum
		}
		var c c17Case
		if err := json.Unmarshal(rep.Case, &c); err != nil {
			r.HarnessError("bad replay case: " + err.Error())
			return sum
		}
		runC17Case(r, c)
		return sum
	}
	cfgs := c17Configs(r.Thorough() && !ev.RaceSlice())
	// learn the number of steps of every configuration with a stall-free run, then stall at each step
	var cases []c17Case
	var mu sync.Mutex
	r.ParallelN(32, len(cfgs), func(i int) {
		steps := runC17Case(r, c17Case{Cfg: cfgs[i]})
		var cs []c17Case
		for pos := 0; pos < steps; pos++ {
			cs = append(cs, c17Case{Cfg: cfgs[i], Script: []scriptEntry{{Index: pos, Kind: "stall"}}})
			if cfgs[i].Call == "send" || cfgs[i].Call == "reset" || cfgs[i].NMsgs > 1 || r.Thorough() {
				// the server never answers again but keeps reading: the client's writes succeed, only its reads run into the deadline
				cs = append(cs, c17Case{Cfg: cfgs[i], Script: []scriptEntry{{Index: pos, Kind: "mute"}}})
			}
		}
		if cfgs[i].Call == "send" || cfgs[i].Call == "dialandsend" {
			cs = append(cs, c17Case{Cfg: cfgs[i], StallData: 300}, c17Case{Cfg: cfgs[i], StallData: 5000})
		}
		if cfgs[i].TLS == "starttls" {
			cs = append(cs, c17Case{Cfg: cfgs[i], StallTLS: true})
		}
		mu.Lock()
		cases = append(cases, cs...)
		mu.Unlock()
	})
	r.ParallelN(96, len(cases), func(i int) {
		runC17Case(r, cases[i])
		if i%37 == 0 {
			r.Sample(cases[i])
		}
	})
	// a second DialWithContext while the Client still holds a connection whose server has gone silent
	rcs := []c17RedialCase{{Silent: "stall", TimeoutMS: 300, Redial: true}, {Silent: "mute", TimeoutMS: 300, Redial: true}}
	r.ParallelN(2, len(rcs), func(i int) { runC17Redial(r, rcs[i]) })
	if !ev.RaceSlice() {
		runC17ImplicitAll(r)
	}
	r.CollectRaceLogs()
	return sum
}

// c17RedialCase: DialWithContext on a Client that still holds the connection of an earlier DialWithContext whose server
// has gone silent since (it holds the connection; "mute": it keeps reading). The second dialogue itself is healthy.
type c17RedialCase struct {
	Silent    string `json:"first_server"` // stall | mute
	TimeoutMS int    `json:"timeout_ms"`
	Redial    bool   `json:"redial_case"`
}

func runC17Redial(r *ev.Run, c c17RedialCase) {
	timeout := time.Duration(c.TimeoutMS) * time.Millisecond
	watchdog := 20 * timeout
	if watchdog < 5*time.Second {
		watchdog = 5 * time.Second
	}
	var silent int32
	farm := &refsmtp.Farm{NewConfig: func(n int) *refsmtp.Config {
		return &refsmtp.Config{AllowUTF8: true, Decide: func(st refsmtp.Step) refsmtp.Action {
			if n == 0 && atomic.LoadInt32(&silent) == 1 {
				if c.Silent == "mute" {
					return refsmtp.Action{Kind: refsmtp.Mute}
				}
				return refsmtp.Action{Kind: refsmtp.Stall}
			}
			return refsmtp.Action{}
		}}
	}}
	defer farm.Shutdown()
	cl, err := mail.NewClient(netHost, mail.WithDialContextFunc(farm.Dial), mail.WithTimeout(timeout), mail.WithHELO("client.verif.example"), mail.WithTLSPolicy(mail.NoTLS))
	if err != nil {
		r.HarnessError("C17 redial NewClient: " + err.Error())
		return
	}
	ctx, cancel := context.WithTimeout(context.Background(), 2*watchdog)
	defer cancel()
	if err := cl.DialWithContext(ctx); err != nil {
		r.HarnessError("C17 redial first dial: " + err.Error())
		return
	}
	atomic.StoreInt32(&silent, 1)
	var dErr error
	done := make(chan struct{})
	t0 := time.Now()
	go func() {
		defer close(done)
		defer func() { _ = recover() }()
		dErr = cl.DialWithContext(ctx)
	}()
	hung := false
	select {
	case <-done:
	case <-time.After(watchdog + timeout):
		hung = true
	}
	el := time.Since(t0)
	_, conns := farm.Snapshot()
	var noDeadline []string
	for ci, tc := range conns {
		pr, pw := tc.PendingIO()
		for _, o := range append(pr, pw...) {
			if o.Deadline.IsZero() {
				noDeadline = append(noDeadline, fmt.Sprintf("connection %d: operation pending with no deadline armed", ci))
			} else if o.Deadline.After(t0.Add(timeout + c17Slack + watchdog)) {
				noDeadline = append(noDeadline, fmt.Sprintf("connection %d: deadline %v after the call started", ci, o.Deadline.Sub(t0)))
			}
		}
	}
	farm.Shutdown()
	r.Count("redials_with_a_silent_earlier_connection", 1)
	r.Eval(fmt.Sprintf("redial|%+v", c), true)
	if !hung {
		r.Max("max_return_ms", el.Milliseconds())
		_ = dErr
		return
	}
	if len(noDeadline) > 0 {
		r.Violate(ev.Violation{Key: "blocked-without-deadline:redial:" + c.Silent, What: fmt.Sprintf("DialWithContext (timeout %v) on a Client whose earlier connection has a silent server was still blocked %v after it started; pending: %v", timeout, watchdog+timeout, noDeadline), Case: c})
	} else {
		r.Inconclusive("C17 redial did not return before the watchdog although deadlines were armed")
	}
}

// ---- implicit TLS (the library's own tls.Dialer over real loopback TCP) ----------------------
// No tracking conn can be injected here, so the verdict rests on the generous watchdog alone; to
// keep load from producing a false alarm a hang only counts if it reproduces when re-run alone
// with a doubled watchdog.

type c17ImplicitCase struct {
	Call      string        `json:"call"` // dial | dialandsend | send
	Handshake bool          `json:"stall_in_handshake,omitempty"`
	Script    []scriptEntry `json:"script,omitempty"`
	TimeoutMS int           `json:"timeout_ms"`
	Implicit  bool          `json:"implicit_tls"`
}

// runC17Implicit returns (steps, stallVerb, blocked).
func runC17Implicit(c c17ImplicitCase, watchdog time.Duration) (steps int, stallVerb string, blocked bool, callErr error, elapsed time.Duration, harness string) {
	tm := gen.TLS()
	ln, err := net.Listen("tcp", "127.0.0.1:0")
	if err != nil {
		return 0, "", false, nil, 0, "listen: " + err.Error()
	}
	defer ln.Close()
	port := ln.Addr().(*net.TCPAddr).Port
	stop := make(chan struct{})
	var sess *refsmtp.Session
	var smu sync.Mutex
	go func() {
		conn, err := ln.Accept()
		if err != nil {
			return
		}
		if c.Handshake {
			<-stop // never answer the ClientHello
			_ = conn.Close()
			return
		}
		s := refsmtp.ServeImplicitTLS(conn, &refsmtp.Config{Decide: scriptDecide(c.Script), AllowUTF8: true, TLS: gen.ServerTLS(tm.Good, 0, 0)}, 0)
		smu.Lock()
		sess = s
		smu.Unlock()
	}()
	timeout := time.Duration(c.TimeoutMS) * time.Millisecond
	cl, err := mail.NewClient("localhost", mail.WithPort(port), mail.WithSSL(), mail.WithTLSConfig(gen.ClientTLS("localhost", 0, 0)), mail.WithTimeout(timeout), mail.WithHELO("client.verif.example"))
	if err != nil {
		return 0, "", false, nil, 0, "NewClient: " + err.Error()
	}
	msg, _ := simpleMsg("c17i", "m0@sender.example", []string{"r0@rcpt.example"}, "quoted-printable", "body\r\n")
	done := make(chan struct{})
	var start time.Time
	setupFailed := false
	go func() {
		defer close(done)
		defer func() { _ = recover() }()
		ctx := context.Background()
		switch c.Call {
		case "dial":
			start = time.Now()
			callErr = cl.DialWithContext(ctx)
		case "dialandsend":
			start = time.Now()
			callErr = cl.DialAndSendWithContext(ctx, msg)
		case "send":
			if err := cl.DialWithContext(ctx); err != nil {
				setupFailed = true
				return
			}
			start = time.Now()
			callErr = cl.Send(msg)
		}
		elapsed = time.Since(start)
	}()
	select {
	case <-done:
	case <-time.After(watchdog):
		blocked = true
	}
	close(stop)
	smu.Lock()
	s := sess
	smu.Unlock()
	if s != nil {
		cmds, _, _ := s.Snapshot()
		for _, cr := range cmds {
			if cr.Index+1 > steps {
				steps = cr.Index + 1
			}
			if cr.Stalled {
				stallVerb = cr.Verb
			}
		}
		s.Stop()
	}
	if c.Handshake {
		stallVerb = "TLS-HANDSHAKE"
	}
	if blocked {
		_ = ln.Close()
		select {
		case <-done:
		case <-time.After(15 * time.Second):
		}
	}
	if setupFailed {
		stallVerb = ""
	}
	return
}

func runC17ImplicitAll(r *ev.Run) {
	var cases []c17ImplicitCase
	for _, call := range []string{"dial", "dialandsend", "send"} {
		steps, _, _, _, _, h := runC17Implicit(c17ImplicitCase{Call: call, TimeoutMS: 300}, 10*time.Second)
		if h != "" {
			r.HarnessError("C17 implicit: " + h)
			return
		}
		cases = append(cases, c17ImplicitCase{Call: call, Handshake: true, TimeoutMS: 300, Implicit: true})
		for pos := 0; pos < steps; pos++ {
			cases = append(cases, c17ImplicitCase{Call: call, Script: []scriptEntry{{Index: pos, Kind: "stall"}}, TimeoutMS: 300, Implicit: true})
		}
	}
	var mu sync.Mutex
	var suspects []c17ImplicitCase
	watchdog := 6300*time.Millisecond + 6*time.Second // as for STARTTLS: crypto/tls close_notify may take 5 s
	r.ParallelN(48, len(cases), func(i int) {
		_, verb, blocked, err, el, _ := runC17Implicit(cases[i], watchdog)
		if verb == "" {
			r.Count("stall_in_setup_phase", 1)
			return
		}
		r.Count("stalls_executed", 1)
		r.Count("implicit_tls_stalls_executed", 1)
		r.Seen("stall_points", "implicit:"+cases[i].Call+":"+verb)
		r.Eval("implicit|"+cases[i].Call+"|"+verb+scriptString(cases[i].Script), true)
		if blocked {
			mu.Lock()
			suspects = append(suspects, cases[i])
			mu.Unlock()
			return
		}
		r.Max("max_return_ms", el.Milliseconds())
		if err == nil {
			r.Violate(ev.Violation{Key: "returned-nil-on-stall:implicit:" + cases[i].Call + ":" + verb, What: "call returned nil although the server stalled", Case: cases[i]})
		} else {
			r.Count("returned_with_error_in_time", 1)
		}
	})
	// re-run the suspects one at a time with a doubled watchdog
	for _, c := range suspects {
		_, verb, blocked, _, _, _ := runC17Implicit(c, 2*watchdog)
		if blocked {
			r.Violate(ev.Violation{Key: "blocked-implicit-tls:" + c.Call + ":" + verb, What: fmt.Sprintf("%s over implicit TLS (timeout %d ms) was still blocked %v after it started with the server silent at %s (reproduced when re-run alone)", c.Call, c.TimeoutMS, 2*watchdog, verb), Case: c})
		} else {
			r.Inconclusive(fmt.Sprintf("C17 implicit %s stalled at %s exceeded the watchdog once but not when re-run alone", c.Call, verb))
		}
	}
}
