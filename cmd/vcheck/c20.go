//go:build verif

package main

import (
	"crypto/tls"
	"encoding/json"
	"errors"
	"fmt"
	"regexp"
	"sort"
	"strings"
	"sync"

	mail "github.com/wneessen/go-mail"

	"verif/internal/ev"
	"verif/internal/gen"
	"verif/internal/refsmtp"
)

func init() { register("C20", "fault_enumeration", runC20) }

type c20Case struct {
	ESCAdvertised bool   `json:"esc_advertised"`
	Batch         int    `json:"batch"`
	NRcpt         int    `json:"nrcpt"`
	Slot          int    `json:"slot"`                // message that gets the negative reply
	SlotMask      int    `json:"slot_mask,omitempty"` // bit i: message i gets the (same) negative reply too; 0 = only Slot
	Pos           string `json:"pos"`                 // MAIL RCPT DATA DATA-END RSET
	RcptMask      int    `json:"rcpt_mask"`           // bit j: recipient j rejected (Pos == RCPT)
	Code          int    `json:"code"`
	Code2         int    `json:"code2,omitempty"` // code of the last rejected recipient when several are rejected
	TextKind      string `json:"text_kind"`       // esc none esc-elsewhere multiline esc-midline
	Via           string `json:"via"`
	// Retry: after the judged call the whole batch is sent again by a new call to a server that accepts everything:
	// no message of that batch is affected by any negative reply, so none may carry an error
	Retry bool `json:"retry,omitempty"`
	// StartTLS: "" = plain session | same = STARTTLS, same EHLO keywords before and after | flip = STARTTLS, and
	// ENHANCEDSTATUSCODES is advertised before the handshake exactly when it is NOT advertised after it
	// (ESCAdvertised always describes the EHLO reply in force while sending)
	StartTLS string `json:"starttls,omitempty"`
	// QuotedRcpts: the recipients' local parts hold a blank ("r0 m1"@rcpt.example): on the wire they are quoted, the
	// Msg - and the SendError that names the refused ones - knows them as mailboxes (r0 m1@rcpt.example)
	QuotedRcpts bool `json:"quoted_recipients,omitempty"`
	// Cleanup (Pos MAIL / RCPT / DATA, slot = last message of the batch): the RSET with which the client abandons the
	// refused transaction fails as well - "neg" = a negative reply of the other class with an enhanced code of its own,
	// "drop" = the server hangs up. The verdict on the message is still the reply that refused its command.
	Cleanup string `json:"cleanup,omitempty"`
}

func (c *c20Case) rcptMailbox(j, i int) string {
	if c.QuotedRcpts {
		return fmt.Sprintf("r%d m%d@rcpt.example", j, i)
	}
	return fmt.Sprintf("r%dm%d@rcpt.example", j, i)
}

var c20TextKinds = []string{"esc", "none", "esc-elsewhere", "multiline", "esc-midline", "esc-longer-dotted", "esc-with-suffix", "esc-only"}

// c20Text returns the reply text and the enhanced code it begins with ("" if none).
func c20Text(kind string, code int) (text, esc string) {
	cls := code / 100
	switch kind {
	case "esc":
		esc = fmt.Sprintf("%d.%d.%d", cls, 1+code%7, code%90)
		return esc + " scripted verdict", esc
	case "none":
		return "Requested action not taken", ""
	case "esc-elsewhere":
		return fmt.Sprintf("Client host 10.%d.1.1 blocked, see policy version 4.2.0", cls), ""
	case "multiline":
		esc = fmt.Sprintf("%d.7.%d", cls, code%50)
		return esc + " first line of verdict\nsecond line mentions 5.1.1 and 4.4.4", esc
	case "esc-midline":
		return fmt.Sprintf("rejected with status %d.9.9 by filter", cls), ""
	case "esc-longer-dotted":
		// the text starts with a longer dotted token (an IP address), not with an enhanced status code
		return fmt.Sprintf("%d.9.12.33 is listed in our blocklist", cls), ""
	case "esc-with-suffix":
		return fmt.Sprintf("%d.2.1-beta release rejected your mail", cls), ""
	case "esc-only":
		// the enhanced status code is the whole text
		esc = fmt.Sprintf("%d.3.%d", cls, code%10)
		return esc, esc
	}
	panic(kind)
}

var reasonOf = map[string]mail.SendErrReason{
	"MAIL": mail.ErrSMTPMailFrom, "RCPT": mail.ErrSMTPRcptTo, "DATA": mail.ErrSMTPData, "DATA-END": mail.ErrSMTPDataClose, "RSET": mail.ErrSMTPReset,
}

func c20ServerTLS(c c20Case) *tls.Config {
	if c.StartTLS == "" {
		return nil
	}
	return gen.ServerTLS(gen.TLS().Good, 0, 0)
}

var rcptListRe = regexp.MustCompile(`affected recipient\(s\): ([^\n]*?)(?:, affected message ID:|$)`)

func runC20Case(r *ev.Run, c c20Case) {
	viol := func(key, what string, obs any) {
		r.Violate(ev.Violation{Key: key, What: what, Case: c, Observed: obs})
	}
	text, lead := c20Text(c.TextKind, c.Code)
	wantESC := ""
	if c.ESCAdvertised {
		wantESC = lead
	}
	var msgs []*mail.Msg
	for i := 0; i < c.Batch; i++ {
		var rc []string
		for j := 0; j < c.NRcpt; j++ {
			if c.QuotedRcpts {
				rc = append(rc, fmt.Sprintf("\"r%d m%d\"@rcpt.example", j, i))
			} else {
				rc = append(rc, c.rcptMailbox(j, i))
			}
		}
		m, err := simpleMsg(fmt.Sprintf("c20-%d", i), fmt.Sprintf("m%d@sender.example", i), rc, "quoted-printable", "body\r\n")
		if err != nil {
			r.HarnessError(err.Error())
			return
		}
		msgs = append(msgs, m)
	}
	inSlots := func(i int) bool {
		if c.SlotMask != 0 {
			return i >= 0 && c.SlotMask&(1<<i) != 0
		}
		return i == c.Slot
	}
	var mu sync.Mutex
	lastCode := 0
	cleanupSeen := 0
	rejectedBy := map[int][]string{}
	newCfg := func(int) *refsmtp.Config {
		cur := -1
		delivered := -1
		refused := -1
		return &refsmtp.Config{
			AllowUTF8: true,
			TLS:       c20ServerTLS(c),
			Caps: func(_ int, tlsOn bool) []string {
				caps := []string{"8BITMIME", "DSN"}
				esc := c.ESCAdvertised
				if c.StartTLS != "" && !tlsOn {
					caps = append(caps, "STARTTLS")
					if c.StartTLS == "flip" {
						esc = !esc
					}
				}
				if esc {
					caps = append(caps, "ENHANCEDSTATUSCODES")
				}
				return caps
			},
			Decide: func(st refsmtp.Step) refsmtp.Action {
				mu.Lock()
				defer mu.Unlock()
				neg := func(code int) refsmtp.Action {
					lastCode = code
					refused = cur
					return refsmtp.Action{Kind: refsmtp.Reply, Code: code, Text: text}
				}
				switch st.Verb {
				case "MAIL":
					cur = -1
					if i := strings.Index(st.Line, "<m"); i >= 0 {
						fmt.Sscanf(st.Line[i+2:], "%d", &cur)
					}
					if c.Pos == "MAIL" && inSlots(cur) {
						return neg(c.Code)
					}
				case "RCPT":
					if c.Pos == "RCPT" && inSlots(cur) {
						j := -1
						if i := strings.Index(st.Line, "<\"r"); i >= 0 {
							fmt.Sscanf(st.Line[i+3:], "%d", &j)
						} else if i := strings.Index(st.Line, "<r"); i >= 0 {
							fmt.Sscanf(st.Line[i+2:], "%d", &j)
						}
						if j >= 0 && c.RcptMask&(1<<j) != 0 {
							code := c.Code
							// the last rejected recipient may carry a different code
							if c.Code2 != 0 && c.RcptMask>>(j+1) == 0 {
								code = c.Code2
							}
							rejectedBy[cur] = append(rejectedBy[cur], c.rcptMailbox(j, cur))
							return neg(code)
						}
					}
				case "DATA":
					if c.Pos == "DATA" && inSlots(cur) {
						return neg(c.Code)
					}
				case "DATA-END":
					delivered = cur
					if c.Pos == "DATA-END" && inSlots(cur) {
						delivered = -1
						return neg(c.Code)
					}
				case "RSET":
					if c.Cleanup != "" && refused == cur && inSlots(cur) {
						refused = -1
						cleanupSeen++
						if c.Cleanup == "drop" {
							return refsmtp.Action{Kind: refsmtp.Drop}
						}
						oc := 451
						if c.Code/100 == 4 {
							oc = 554
						}
						return refsmtp.Action{Kind: refsmtp.Reply, Code: oc, Text: fmt.Sprintf("%d.6.%d clean-up refused", oc/100, 1+c.Code%5)}
					}
					// only the RSET that follows the delivery of the slot message
					if c.Pos == "RSET" && delivered == cur && inSlots(cur) {
						delivered = -1
						return neg(c.Code)
					}
				}
				return refsmtp.Action{}
			},
		}
	}
	copts := []mail.Option{mail.WithTLSPolicy(mail.NoTLS)}
	if c.StartTLS != "" {
		copts = []mail.Option{mail.WithTLSPolicy(mail.TLSMandatory), mail.WithTLSConfig(gen.ClientTLS(netHost, 0, 0))}
	}
	sr := runSend(newCfg, nil, copts, msgs, c.Via, false)
	if sr.Panic != nil {
		viol("panic", fmt.Sprintf("client panicked: %v", sr.Panic), nil)
		return
	}
	if sr.Hung || sr.DialErr != nil {
		r.Inconclusive(fmt.Sprintf("C20 run did not complete: hung=%t dial=%v", sr.Hung, sr.DialErr))
		return
	}
	mu.Lock()
	finalCode := lastCode
	rejAll := map[int][]string{}
	for k, v := range rejectedBy {
		rejAll[k] = append([]string(nil), v...)
	}
	mu.Unlock()
	if finalCode == 0 {
		r.HarnessError(fmt.Sprintf("C20: the scripted negative reply was never sent (%+v) transcript %s", c, sr.Sessions[0].Transcript()))
		return
	}
	r.Count("negative_replies_sent", 1)
	if c.Cleanup != "" {
		mu.Lock()
		cs := cleanupSeen
		mu.Unlock()
		if cs == 0 {
			r.Count("cleanup_rset_never_sent", 1)
		} else {
			r.Count("failed_cleanup_rsets:"+c.Cleanup, 1)
		}
	}
	where := c.Pos + ":" + c.TextKind
	failed := 0
	for i, m := range msgs {
		var se *mail.SendError
		has := errors.As(m.SendError(), &se)
		rej := rejAll[i]
		if !inSlots(i) {
			if m.HasSendError() {
				viol("unaffected-message-has-error:"+c.Pos, fmt.Sprintf("message %d was not affected by the negative reply to message %d's %s but carries %v", i, c.Slot, c.Pos, m.SendError()), nil)
			} else {
				r.Count("unaffected_messages_clean", 1)
			}
			continue
		}
		if !has || se == nil {
			viol("no-senderror:"+c.Pos, fmt.Sprintf("message %d got %d to %s but Msg.SendError() is %v", i, finalCode, c.Pos, m.SendError()), nil)
			continue
		}
		failed++
		r.Count("senderrors_checked", 1)
		if se.Reason != reasonOf[c.Pos] {
			viol("reason:"+c.Pos, fmt.Sprintf("Reason is %q, the failing step was %s", se.Reason.String(), c.Pos), se.Error())
		}
		if se.ErrorCode() != finalCode {
			viol(fmt.Sprintf("errorcode:%s:%dxx", c.Pos, finalCode/100), fmt.Sprintf("ErrorCode()=%d, the reply code was %d", se.ErrorCode(), finalCode), se.Error())
		}
		if se.IsTemp() != (finalCode/100 == 4) {
			viol(fmt.Sprintf("istemp:%s:%dyz", c.Pos, finalCode/100), fmt.Sprintf("IsTemp()=%t for reply code %d to %s", se.IsTemp(), finalCode, c.Pos), se.Error())
		}
		if m.SendErrorIsTemp() != (finalCode/100 == 4) {
			viol(fmt.Sprintf("msg-istemp:%s:%dyz", c.Pos, finalCode/100), fmt.Sprintf("Msg.SendErrorIsTemp()=%t for reply code %d to %s", m.SendErrorIsTemp(), finalCode, c.Pos), nil)
		}
		if se.EnhancedStatusCode() != wantESC {
			viol("esc:"+where+fmt.Sprintf(":advertised=%t", c.ESCAdvertised), fmt.Sprintf("EnhancedStatusCode()=%q, expected %q (ENHANCEDSTATUSCODES advertised=%t, reply text %q)", se.EnhancedStatusCode(), wantESC, c.ESCAdvertised, text), se.Error())
		}
		if c.Pos == "RCPT" {
			got := []string{}
			if mm := rcptListRe.FindStringSubmatch(se.Error()); mm != nil {
				for _, a := range strings.Split(mm[1], ",") {
					if a = strings.TrimSpace(a); a != "" {
						got = append(got, a)
					}
				}
			}
			w := append([]string(nil), rej...)
			sort.Strings(got)
			sort.Strings(w)
			if strings.Join(got, ",") != strings.Join(w, ",") {
				viol("rcpt-list", fmt.Sprintf("error lists recipients %v, rejected were %v", got, w), se.Error())
			}
		}
		if se.Msg() != m {
			viol("affected-msg", "SendError.Msg() is not the affected message", nil)
		}
	}
	// the joined error has one entry per failed message
	entries := 0
	if sr.SendErr != nil {
		err := sr.SendErr
		// DialAndSend wraps with "send failed: %w"
		for {
			if j, ok := err.(interface{ Unwrap() []error }); ok {
				entries = len(j.Unwrap())
				break
			}
			u := errors.Unwrap(err)
			if u == nil {
				entries = 1
				break
			}
			err = u
		}
	}
	if entries != failed {
		viol("joined-error-entries", fmt.Sprintf("returned error has %d entries, %d messages failed: %v", entries, failed, sr.SendErr), nil)
	}
	if failed >= 2 {
		r.Count("batches_with_several_failed_messages", 1)
	}
	r.Seen("codes", fmt.Sprint(finalCode))
	r.Seen("positions", c.Pos)
	r.Eval(fmt.Sprintf("%+v", c), true)
	if c.Retry {
		sr2 := runSend(func(int) *refsmtp.Config { return &refsmtp.Config{AllowUTF8: true} }, nil, []mail.Option{mail.WithTLSPolicy(mail.NoTLS)}, msgs, c.Via, false)
		if sr2.Panic != nil || sr2.Hung || sr2.DialErr != nil {
			r.Inconclusive(fmt.Sprintf("C20 retry did not complete: hung=%t panic=%v dial=%v", sr2.Hung, sr2.Panic, sr2.DialErr))
			return
		}
		r.Count("retries_run", 1)
		if sr2.SendErr != nil {
			viol("retry:returned-error:"+c.Pos, fmt.Sprintf("the batch was sent again to a server that accepted every command, the call returned %v", sr2.SendErr), nil)
		}
		for i, m := range msgs {
			if m.HasSendError() {
				viol("retry:unaffected-message-has-error:"+c.Pos, fmt.Sprintf("message %d was sent again and accepted (no negative reply in that call, IsDelivered=%t) but still carries the error of the earlier call: %v", i, m.IsDelivered(), m.SendError()), nil)
			} else {
				r.Count("retried_messages_clean", 1)
			}
		}
	}
}

func runC20(r *ev.Run, rep *ev.ReplayDoc) ev.Summary {
	sum := ev.Summary{
		Rule: "every reply code 400-599 x reply text kind {leading enhanced code, none, enhanced-code-like token elsewhere (IP address, version), multi-line, mid-line} x position {MAIL, RCPT (every non-empty subset of up to 3 recipients, last rejection with its own code), DATA, end-of-data, RSET} x ENHANCEDSTATUSCODES advertised or not (on plain sessions and after STARTTLS, where the EHLO reply before the handshake may say the opposite) x batches of 1-3 fresh messages with the fault in each slot, or the same fault in several messages of the batch, x Send/DialAndSend; for MAIL / RCPT / DATA also with the clean-up RSET failing (negative reply of the other class, or the server hanging up). quick: every code at every position once with rotating other dimensions; thorough: the full cross product. non-trivial: all; distinct by case",
		Assumptions: []string{
			"the recipient list is read from the error text (\"affected recipient(s): ...\"), the only place the API exposes it",
			"RSET position = the RSET after the slot message's successful end-of-data",
		},
		Floors:     []ev.Floor{{Counter: "senderrors_checked", Min: 900}, {Counter: "codes", Min: 200}, {Counter: "positions", Min: 5}},
		Exhaustive: true,
	}
	if rep != nil {
		var c c20Case
		if err := json.Unmarshal(rep.Case, &c); err != nil {
			r.HarnessError("bad replay case: " + err.Error())
			return sum
		}
		runC20Case(r, c)
		return sum
	}
	var cases []c20Case
	positions := []string{"MAIL", "RCPT", "DATA", "DATA-END", "RSET"}
	n := 0
	if !r.Thorough() {
		for code := 400; code <= 599; code++ {
			for pi, pos := range positions {
				for ki, kind := range c20TextKinds {
					n++
					c := c20Case{ESCAdvertised: (code+pi+ki)%3 != 0, Batch: 1 + n%3, NRcpt: 1 + (n/3)%3, Pos: pos, Code: code, TextKind: kind, Via: []string{"send", "dialandsend"}[(n/2)%2]}
					c.Slot = (n / 5) % c.Batch
					if c.Batch >= 2 && (n/3)%2 == 0 {
						// several messages of the batch fail the same way
						c.SlotMask = []int{3, (1 << c.Batch) - 1, 1<<c.Slot | 1<<((c.Slot+1)%c.Batch)}[(n/6)%3]
					}
					if pos == "RCPT" {
						c.RcptMask = 1 + (n/7)%((1<<c.NRcpt)-1)
						if n%4 == 0 {
							c.Code2 = 400 + (code+137)%200
						}
					}
					c.Retry = n%5 == 0
					if n%6 == 1 {
						c.StartTLS = []string{"flip", "same"}[(n/6)%2]
					}
					c.QuotedRcpts = n%4 == 2
					cases = append(cases, c)
					if (pos == "MAIL" || pos == "RCPT" || pos == "DATA") && n%3 == 0 {
						c.Cleanup = []string{"neg", "drop"}[(n/3)%2]
						c.Slot, c.SlotMask, c.Retry = c.Batch-1, 0, false
						cases = append(cases, c)
					}
				}
			}
		}
	} else {
		for code := 400; code <= 599; code++ {
			for _, kind := range c20TextKinds {
				for _, adv := range []bool{true, false} {
					for _, pos := range positions {
						masks := []int{0}
						if pos == "RCPT" {
							masks = []int{1, 2, 3, 4, 5, 6, 7}
						}
						for _, mask := range masks {
							n++
							batch := 1 + n%3
							c := c20Case{ESCAdvertised: adv, Batch: batch, NRcpt: 3, Slot: (n / 3) % batch, Pos: pos, RcptMask: mask, Code: code, TextKind: kind, Via: []string{"send", "dialandsend", "withclient"}[n%3]}
							if pos != "RCPT" {
								c.NRcpt = 1 + n%3
							} else if n%3 == 0 {
								c.Code2 = 400 + (code+61)%200
							}
							c.Retry = n%7 == 0
							if n%5 == 2 {
								c.StartTLS = []string{"flip", "same"}[(n/5)%2]
							}
							if batch >= 2 && (n/3)%4 == 0 {
								c.SlotMask = []int{3, (1 << batch) - 1, 1<<c.Slot | 1<<((c.Slot+1)%batch)}[(n/12)%3]
							}
							c.QuotedRcpts = n%4 == 2
							cases = append(cases, c)
							if pos == "MAIL" || pos == "RCPT" || pos == "DATA" {
								c.Cleanup = []string{"neg", "drop"}[n%2]
								c.Slot, c.SlotMask, c.Retry = c.Batch-1, 0, false
								cases = append(cases, c)
							}
						}
					}
				}
			}
		}
	}
	r.Parallel(len(cases), func(i int) {
		if i%997 == 0 {
			r.Sample(cases[i])
		}
		runC20Case(r, cases[i])
	})
	return sum
}
