//go:build verif

package main

import (
	"bytes"
	"encoding/base64"
	"encoding/json"
	"errors"
	"fmt"
	"io"
	mrand "math/rand"
	"os"
	"os/exec"
	"path/filepath"
	"regexp"
	"runtime/debug"
	"sort"
	"strings"
	"sync"
	"sync/atomic"
	"time"

	mail "github.com/wneessen/go-mail"

	"verif/internal/ev"
	"verif/internal/gen"
)

func init() {
	register("C09", "exploration", runC09)
	childHandlers["c09"] = c09Child
	childHandlers["c09one"] = c09ChildOne
}

// c09ChildOne: vcheck child c09one <seed> <idx> <budget seconds> - parses one input, prints its outcome class.
func c09ChildOne(args []string) int {
	if len(args) < 3 {
		return 2
	}
	var seed int64
	var idx, budget int
	fmt.Sscan(args[0], &seed)
	fmt.Sscan(args[1], &idx)
	fmt.Sscan(args[2], &budget)
	data, reader, _ := c09Input(seed, idx)
	done := make(chan c09Outcome, 1)
	go func() { done <- c09ParseNoWatchdog(data, reader) }()
	select {
	case o := <-done:
		fmt.Printf("C09ONE %s %d\n", o.Class, o.Duration.Milliseconds())
	case <-time.After(time.Duration(budget) * time.Second):
		fmt.Printf("C09ONE hang %d\n", budget*1000)
	}
	return 0
}

type c09Case struct {
	InputB64 string `json:"input_b64"`
	Reader   string `json:"reader"` // string | reader | byte1 | datawitherr | zeroreads | failat:<k> | file
	Ops      string `json:"ops,omitempty"`
}

var (
	c09SeedsOnce sync.Once
	c09Seeds     [][]byte
)

var hexBoundaryRe = regexp.MustCompile(`[0-9a-f]{60}`)

// c09SeedCorpus: deterministic seed messages = corpus files + normalised renderings of builder shapes.
func c09SeedCorpus() [][]byte {
	c09SeedsOnce.Do(func() {
		files, _ := filepath.Glob(filepath.Join(ev.Root, "corpus", "c09", "*.eml"))
		sort.Strings(files)
		for _, f := range files {
			if b, err := os.ReadFile(f); err == nil {
				c09Seeds = append(c09Seeds, b)
			}
		}
		for i := 0; i < 24; i++ {
			rng := ev.RngFor(9, "c09seed", i)
			s := genSpec(rng, fmt.Sprintf("c09-seed-%d", i), "", i%4, (i/4)%3, (i/2)%3)
			if len(s.Parts)+len(s.Embeds)+len(s.Attach) == 0 {
				s.Parts = []gen.PartSpec{{Type: "text/plain", Content: []byte("hello")}}
			}
			inMemorySources(&s, rng)
			fixedHeaders(&s)
			m, err := s.Build(&gen.Env{})
			if err != nil {
				continue
			}
			var b bytes.Buffer
			if _, err := m.WriteTo(&b); err != nil {
				continue
			}
			out := b.Bytes()
			// replace the random boundaries by deterministic ones
			k := 0
			seen := map[string]string{}
			out = hexBoundaryRe.ReplaceAllFunc(out, func(x []byte) []byte {
				if v, ok := seen[string(x)]; ok {
					return []byte(v)
				}
				k++
				v := fmt.Sprintf("b0undary%02dverif%02dxxxxxxxxxxxxxxxxxxxxxxxxxxxxxxxxxxxxxxxxxxxxxx", i, k)[:60]
				seen[string(x)] = v
				return []byte(v)
			})
			c09Seeds = append(c09Seeds, out)
		}
		// hand-written seeds around the anchored mechanisms
		c09Seeds = append(c09Seeds,
			[]byte("From: a@b.example\r\nTo: c@d.example\r\nSubject: x\r\nMIME-Version: 1.0\r\nContent-Type: multipart/mixed; boundary=\"bb\"\r\n\r\n--bb\r\nContent-Type: text/plain; charset=UTF-8\r\nContent-Transfer-Encoding: 7bit\r\n\r\nbody\r\n--bb\r\nContent-Type: application/octet-stream; name=\"a.bin\"\r\nContent-Disposition: attachment; filename=\"a.bin\"\r\nContent-Transfer-Encoding: base64\r\n\r\nQUJD\r\n--bb\r\nContent-Type: image/png\r\nContent-Disposition: inline; filename=\"i.png\"\r\nContent-ID: <i.png>\r\nContent-Transfer-Encoding: base64\r\n\r\nQUJD\r\n--bb--\r\n"),
			[]byte("From: a@b.example\r\nTo: c@d.example\r\nContent-Type: multipart/related; boundary=o\r\n\r\n--o\r\nContent-Type: multipart/alternative; boundary=i\r\n\r\n--i\r\nContent-Type: text/plain\r\n\r\np\r\n--i\r\nContent-Type: text/html\r\nContent-Transfer-Encoding: quoted-printable\r\n\r\n<p>=C3=A4</p>\r\n--i--\r\n--o--\r\n"),
		)
	})
	return c09Seeds
}

var paramRe = regexp.MustCompile(`(?i)(filename|name|boundary|charset)=("[^"\r\n]*"|[^;\r\n]*)`)
var headerLineRe = regexp.MustCompile(`(?m)^[A-Za-z-]+:[^\r\n]*\r?\n`)

func c09Mutate(r *mrand.Rand, seeds [][]byte) ([]byte, string) {
	b := append([]byte(nil), seeds[r.Intn(len(seeds))]...)
	var ops []string
	nops := 1 + r.Intn(3)
	for k := 0; k < nops; k++ {
		op := r.Intn(16)
		switch op {
		case 0: // parameter value mutations
			locs := paramRe.FindAllSubmatchIndex(b, -1)
			if len(locs) == 0 {
				continue
			}
			l := locs[r.Intn(len(locs))]
			repl := gen.Pick(r, []string{"", "\"", "x", "\"\"", "\"unbalanced", "unbalanced\"", "\"a\"b\"", strings.Repeat("A", 3000), "a;b=c", "=?utf-8?q?x?=", "\"\r\n x\"", " ", "\"x\" ; filename=", "''", "*0*=utf-8''x", "\x00",
				// encoded-words naming charsets a decoder may know, half know or not know at all
				"\"=?UTF-7?Q?report.txt?=\"", "\"=?ISO-2022-KR?B?eA==?=\"", "=?IBM037?Q?x?=", "\"=?windows-1252?Q?x=E9?=\"", "\"=?x-unknown?Q?x?=\"", "\"=??Q?x?=\"", "\"=?utf-8?X?x?=\"",
				"\"=?utf-8*en?q?x?=\"", "\"=?ISO-8859-15?Q?=A4?=\"", "\"=?GB2312?B?xOO6ww==?=\"", "\"=?utf-16?B?AGEAYg==?=\"", "\"=?hz-gb-2312?Q?x?=\"", "\"=?UTF-8?Q?a?= =?UTF-7?Q?b?=\""})
			b = append(append(append([]byte{}, b[:l[4]]...), repl...), b[l[5]:]...)
			ops = append(ops, "param-value")
		case 1: // drop the '=' of a parameter or the name
			locs := paramRe.FindAllSubmatchIndex(b, -1)
			if len(locs) == 0 {
				continue
			}
			l := locs[r.Intn(len(locs))]
			repl := gen.Pick(r, []string{"filename", "filename=", "=", ";", "filename==\"x\"", "FILENAME=x", "filename =x", "filename= x"})
			if r.Intn(3) == 0 {
				// the parameter as it is, followed by the same name with another value
				orig := string(b[l[0]:l[1]])
				repl = orig + "; " + string(b[l[2]:l[3]]) + "=" + gen.Pick(r, []string{"other", "\"other value\"", "", "\""})
			}
			b = append(append(append([]byte{}, b[:l[0]]...), repl...), b[l[1]:]...)
			ops = append(ops, "param-shape")
		case 2: // header line: delete / duplicate / truncate / empty value
			locs := headerLineRe.FindAllIndex(b, -1)
			if len(locs) == 0 {
				continue
			}
			l := locs[r.Intn(len(locs))]
			line := append([]byte(nil), b[l[0]:l[1]]...)
			var repl []byte
			switch r.Intn(5) {
			case 0:
				repl = nil
			case 1:
				repl = append(append([]byte{}, line...), line...)
			case 2:
				repl = append(line[:r.Intn(len(line))], '\r', '\n')
			case 3:
				i := bytes.IndexByte(line, ':')
				repl = append(append([]byte{}, line[:i+1]...), '\r', '\n')
			case 4:
				repl = append(bytes.TrimRight(line, "\r\n"), []byte("\r\n\tfolded; x=\r\n")...)
			}
			b = append(append(append([]byte{}, b[:l[0]]...), repl...), b[l[1]:]...)
			ops = append(ops, "header-line")
		case 3: // transfer encoding swap
			ctes := []string{"base64", "quoted-printable", "7bit", "8bit", "binary", "bogus", "", "BASE64", "base64; x=y"}
			re := regexp.MustCompile(`(?i)(Content-Transfer-Encoding:)[^\r\n]*`)
			locs := re.FindAllSubmatchIndex(b, -1)
			if len(locs) == 0 {
				continue
			}
			l := locs[r.Intn(len(locs))]
			b = append(append(append([]byte{}, b[:l[3]]...), " "+gen.Pick(r, ctes)...), b[l[1]:]...)
			ops = append(ops, "cte-swap")
		case 4: // content type swap
			cts := []string{"multipart/mixed", "multipart/related; boundary=zz", "multipart/alternative; boundary=", "text/plain", "text/html; charset", "bogus", "", "multipart/mixed; boundary=\"" + strings.Repeat("b", 80) + "\"", "message/rfc822", "multipart/signed; boundary=x", "text/plain; charset=\"", ";", "/", "a/b;c=d;e",
				// a parameter given twice with different values (mime.ParseMediaType: "duplicate parameter name")
				"text/plain; charset=UTF-8; charset=utf-8", "multipart/mixed; boundary=\"a\"; boundary=\"b\"", "multipart/alternative; boundary=x; boundary=y", "text/html; charset=a; CHARSET=b; charset=c", "multipart/related; boundary=zz; type=\"text/html\"; type=x"}
			re := regexp.MustCompile(`(?i)(Content-Type:)[^\r\n]*`)
			locs := re.FindAllSubmatchIndex(b, -1)
			if len(locs) == 0 {
				continue
			}
			l := locs[r.Intn(len(locs))]
			b = append(append(append([]byte{}, b[:l[3]]...), " "+gen.Pick(r, cts)...), b[l[1]:]...)
			ops = append(ops, "ctype-swap")
		case 5: // disposition swap
			ds := []string{"attachment", "inline", "attachment; filename=", "inline; filename=\"", "bogus; filename=\"x\"", "", "attachment; filename=x", "attachment;filename=\"a\";filename=\"b\"", "ATTACHMENT; FILENAME=\"x\"", "attachment; filename*=utf-8''x", "attachment; filename=\"\"", "attachment; filename=a"}
			re := regexp.MustCompile(`(?i)(Content-Disposition:)[^\r\n]*`)
			locs := re.FindAllSubmatchIndex(b, -1)
			if len(locs) == 0 {
				// add one to the first part header
				if i := bytes.Index(b, []byte("\r\nContent-Type: text")); i >= 0 {
					b = append(append(append([]byte{}, b[:i]...), "\r\nContent-Disposition: "+gen.Pick(r, ds)...), b[i:]...)
					ops = append(ops, "disposition-add")
				}
				continue
			}
			l := locs[r.Intn(len(locs))]
			b = append(append(append([]byte{}, b[:l[3]]...), " "+gen.Pick(r, ds)...), b[l[1]:]...)
			ops = append(ops, "disposition-swap")
		case 6: // boundary line: remove / duplicate / unclosed
			locs := regexp.MustCompile(`(?m)^--[^\r\n]+\r?\n`).FindAllIndex(b, -1)
			if len(locs) == 0 {
				continue
			}
			l := locs[r.Intn(len(locs))]
			line := b[l[0]:l[1]]
			var repl []byte
			switch r.Intn(4) {
			case 0:
				repl = nil
			case 1:
				repl = append(append([]byte{}, line...), line...)
			case 2:
				repl = bytes.Replace(line, []byte("--\r\n"), []byte("\r\n"), 1)
			case 3:
				repl = append(bytes.TrimRight(line, "\r\n"), []byte("--\r\n")...)
			}
			b = append(append(append([]byte{}, b[:l[0]]...), repl...), b[l[1]:]...)
			ops = append(ops, "boundary-line")
		case 7: // deep nesting
			depth := gen.Pick(r, []int{2, 5, 20, 60, 200})
			var sb bytes.Buffer
			sb.WriteString("From: a@b.example\r\nTo: c@d.example\r\nMIME-Version: 1.0\r\n")
			kind := gen.Pick(r, []string{"related", "alternative", "mixed"})
			same := r.Intn(3) == 0
			for d := 0; d < depth; d++ {
				bd := fmt.Sprintf("n%d", d)
				if same {
					bd = "same"
				}
				fmt.Fprintf(&sb, "Content-Type: multipart/%s; boundary=%s\r\n\r\n--%s\r\n", kind, bd, bd)
			}
			sb.WriteString("Content-Type: text/plain\r\n\r\ndeep\r\n")
			for d := depth - 1; d >= 0; d-- {
				bd := fmt.Sprintf("n%d", d)
				if same {
					bd = "same"
				}
				if r.Intn(10) != 0 {
					fmt.Fprintf(&sb, "--%s--\r\n", bd)
				}
			}
			b = sb.Bytes()
			ops = append(ops, fmt.Sprintf("nesting-%d", depth))
		case 8: // corrupt encoded bodies
			junk := gen.Pick(r, []string{"=ZZ", "=\r\n=", "====", "!!!!", "=", "\x00\x00", "Zm9v=Zm9v", "=F", "-", "=\n"})
			i := bytes.Index(b, []byte("\r\n\r\n"))
			if i < 0 {
				continue
			}
			at := i + 4 + r.Intn(max(1, len(b)-i-4))
			b = append(append(append([]byte{}, b[:at]...), junk...), b[at:]...)
			ops = append(ops, "body-junk")
		case 9: // byte flips
			for j := 0; j < 1+r.Intn(8) && len(b) > 0; j++ {
				b[r.Intn(len(b))] ^= byte(1 << r.Intn(8))
			}
			ops = append(ops, "bitflip")
		case 10: // insert / delete
			if len(b) == 0 {
				continue
			}
			at := r.Intn(len(b))
			if r.Intn(2) == 0 {
				ins := gen.Pick(r, []string{"\r\n", "\n", "\r", ";", "=", "\"", ":", "--", "\r\n\r\n", "\x00", "\xff\xfe"})
				b = append(append(append([]byte{}, b[:at]...), ins...), b[at:]...)
			} else {
				end := min(len(b), at+1+r.Intn(40))
				b = append(append([]byte{}, b[:at]...), b[end:]...)
			}
			ops = append(ops, "insdel")
		case 11: // splice with another seed
			o := seeds[r.Intn(len(seeds))]
			if len(b) == 0 || len(o) == 0 {
				continue
			}
			b = append(append([]byte{}, b[:r.Intn(len(b))]...), o[r.Intn(len(o)):]...)
			ops = append(ops, "splice")
		case 12: // truncate
			if len(b) == 0 {
				continue
			}
			b = b[:r.Intn(len(b))]
			ops = append(ops, "truncate")
		case 13: // line ending games
			switch r.Intn(3) {
			case 0:
				b = bytes.ReplaceAll(b, []byte("\r\n"), []byte("\n"))
			case 1:
				b = bytes.ReplaceAll(b, []byte("\r\n"), []byte("\r"))
			case 2:
				b = bytes.ReplaceAll(b, []byte("\r\n\r\n"), []byte("\r\n \r\n"))
			}
			ops = append(ops, "line-endings")
		case 14: // pure random bytes / random ascii
			n := r.Intn(600)
			b = make([]byte, n)
			r.Read(b)
			if r.Intn(2) == 0 {
				for i := range b {
					const alpha = " \r\n:;=\"-abcXYZ012<>@./"
					b[i] = alpha[int(b[i])%len(alpha)]
				}
			}
			ops = append(ops, "random")
		case 15: // address / date header corruption
			re := regexp.MustCompile(`(?im)^(From|To|Cc|Bcc|Date|Subject|Message-ID):[^\r\n]*`)
			locs := re.FindAllSubmatchIndex(b, -1)
			if len(locs) == 0 {
				continue
			}
			l := locs[r.Intn(len(locs))]
			v := gen.Pick(r, []string{"", " <", " \"unterminated", " a@b, , c@", " =?utf-8?q?=ZZ?= <a@b>", " (((", " Inv, 99 Nov 9999 99:99:00 +0000", strings.Repeat(" a@b.c,", 500), " \xff\xfe", " <>", " @", " a b c", " =?UTF-7?Q?x?= <a@b.example>", " =?ISO-2022-KR?B?eA==?=", " =?x-none?Q?x?= <a@b.example>", " =?IBM037?Q?x?="})
			if r.Intn(2) == 0 {
				// syntactically valid but unusual RFC 5322 address syntax: groups (also empty ones), several mailboxes,
				// comments, routes, domain literals, quoted pairs, empty phrases
				toks := []string{"undisclosed-recipients:;", "The Team: ;", "g:a@b.example,c@d.example;", ":;", "a:;", "a:b:;", "a@b.example", "<a@b.example>", "\"\" <a@b.example>",
					"\"x\\\"y\" <q@r.example>", "(comment) a@b.example (another)", "a@[192.0.2.1]", "<@r1.example,@r2.example:a@b.example>", "A B <a@b.example>, C <c@d.example>",
					"\"a b\"@c.example", "=?utf-8?b?w6Q=?= <a@b.example>", "a.@b.example", ".a@b.example", "a@b.example;", "Group:<a@b.example>;", "x:;, y:;", "a@b.example,", ",", "<a@b.example> <c@d.example>", "a@b.example (", "\"", "g: g2: a@b.example;;"}
				v = " " + gen.Pick(r, toks)
				for k := r.Intn(3); k > 0; k-- {
					v += gen.Pick(r, []string{", ", ",", " ", ";"}) + gen.Pick(r, toks)
				}
			}
			b = append(append(append([]byte{}, b[:l[3]+1]...), v...), b[l[1]:]...)
			ops = append(ops, "addr-date")
		}
	}
	return b, strings.Join(ops, "+")
}

var c09ReaderKinds = []string{"string", "string", "reader", "byte1", "datawitherr", "zeroreads", "failat", "file"}

type quirkReader struct {
	data   []byte
	off    int
	kind   string
	failAt int
	zeros  int
}

var errQuirk = errors.New("verif: injected reader failure")

func (q *quirkReader) Read(p []byte) (int, error) {
	if len(p) == 0 {
		return 0, nil
	}
	switch q.kind {
	case "byte1":
		if q.off >= len(q.data) {
			return 0, io.EOF
		}
		p[0] = q.data[q.off]
		q.off++
		return 1, nil
	case "datawitherr":
		n := copy(p, q.data[q.off:])
		q.off += n
		if q.off >= len(q.data) {
			return n, io.EOF
		}
		return n, nil
	case "zeroreads":
		if q.zeros < 3 {
			q.zeros++
			return 0, nil
		}
		q.zeros = 0
		n := copy(p[:min(len(p), 5)], q.data[q.off:])
		q.off += n
		if n == 0 {
			return 0, io.EOF
		}
		return n, nil
	case "failat":
		if q.off >= q.failAt {
			return 0, errQuirk
		}
		lim := min(len(q.data), q.failAt)
		n := copy(p, q.data[q.off:lim])
		q.off += n
		if n == 0 {
			return 0, io.EOF
		}
		return n, nil
	}
	n := copy(p, q.data[q.off:])
	q.off += n
	if n == 0 {
		return 0, io.EOF
	}
	return n, nil
}

// c09Input derives input idx of the run.
func c09Input(seed int64, idx int) (data []byte, reader string, ops string) {
	rng := ev.RngFor(seed, "c09", idx)
	seeds := c09SeedCorpus()
	if idx < len(seeds) {
		return seeds[idx], "string", "seed"
	}
	data, ops = c09Mutate(rng, seeds)
	reader = gen.Pick(rng, c09ReaderKinds)
	if reader == "failat" {
		reader = fmt.Sprintf("failat:%d", rng.Intn(len(data)+1))
	}
	return
}

type c09Outcome struct {
	Class    string // ok | error | panic | hang
	Site     string
	Detail   string
	Duration time.Duration
}

const c09PerInputWatchdog = 10 * time.Second

func c09ParseNoWatchdog(data []byte, reader string) c09Outcome {
	return c09ParseW(data, reader, 0)
}

func c09Parse(data []byte, reader string) (out c09Outcome) {
	return c09ParseW(data, reader, c09PerInputWatchdog)
}

func c09ParseW(data []byte, reader string, watchdog time.Duration) (out c09Outcome) {
	done := make(chan c09Outcome, 1)
	start := time.Now()
	go func() {
		var o c09Outcome
		defer func() {
			if p := recover(); p != nil {
				st := string(debug.Stack())
				o = c09Outcome{Class: "panic", Site: panicSite(st), Detail: fmt.Sprintf("%v\n%s", p, ev.Trunc(st, 2500))}
			}
			done <- o
		}()
		var err error
		kind, arg, _ := strings.Cut(reader, ":")
		switch kind {
		case "string":
			_, err = mail.EMLToMsgFromString(string(data))
		case "file":
			f, ferr := os.CreateTemp("", "verif-c09-*.eml")
			if ferr != nil {
				o = c09Outcome{Class: "error", Detail: "tempfile"}
				return
			}
			_, _ = f.Write(data)
			_ = f.Close()
			_, err = mail.EMLToMsgFromFile(f.Name())
			_ = os.Remove(f.Name())
		default:
			q := &quirkReader{data: data, kind: kind}
			if kind == "failat" {
				fmt.Sscanf(arg, "%d", &q.failAt)
			}
			_, err = mail.EMLToMsgFromReader(q)
		}
		if err != nil {
			o = c09Outcome{Class: "error", Detail: errClass(err)}
		} else {
			o = c09Outcome{Class: "ok"}
		}
	}()
	if watchdog <= 0 {
		o := <-done
		o.Duration = time.Since(start)
		return o
	}
	select {
	case o := <-done:
		o.Duration = time.Since(start)
		return o
	case <-time.After(watchdog):
		return c09Outcome{Class: "hang", Duration: time.Since(start)}
	}
}

var numRe = regexp.MustCompile(`[0-9]+`)
var quotedRe = regexp.MustCompile("\"[^\"]*\"|`[^`]*`|'[^']*'")

func errClass(err error) string {
	s := err.Error()
	if i := strings.LastIndex(s, ": "); i > 0 && len(s) > 120 {
		s = s[:120]
	}
	s = quotedRe.ReplaceAllString(s, "Q")
	s = numRe.ReplaceAllString(s, "N")
	if len(s) > 90 {
		s = s[:90]
	}
	return s
}

type c09ChildReport struct {
	Start, Count int
	Ran          int
	Outcomes     map[string]int
	ErrClasses   map[string]int
	Ops          map[string]int
	Readers      map[string]int
	MaxMS        int64
	Violations   []c09ChildViol
	Done         bool
}

type c09ChildViol struct {
	Idx    int
	Class  string
	Site   string
	Detail string
}

// c09Child: vcheck child c09 <seed> <start> <count>
func c09Child(args []string) int {
	if len(args) < 3 {
		return 2
	}
	var seed int64
	var start, count int
	fmt.Sscan(args[0], &seed)
	fmt.Sscan(args[1], &start)
	fmt.Sscan(args[2], &count)
	debug.SetMaxStack(256 << 20)
	rep := c09ChildReport{Start: start, Count: count, Outcomes: map[string]int{}, ErrClasses: map[string]int{}, Ops: map[string]int{}, Readers: map[string]int{}}
	journal := os.Getenv("VERIF_C09_JOURNAL")
	for i := start; i < start+count; i++ {
		var data []byte
		var reader, ops string
		func() {
			defer func() {
				if p := recover(); p != nil {
					fmt.Printf("C09GENERATOR-PANIC idx=%d %v\n", i, p)
					os.Exit(7)
				}
			}()
			data, reader, ops = c09Input(seed, i)
		}()
		if journal != "" {
			_ = os.WriteFile(journal, []byte(fmt.Sprint(i)), 0o644)
		}
		o := c09Parse(data, reader)
		rep.Ran++
		rep.Outcomes[o.Class]++
		if o.Class == "error" {
			if len(rep.ErrClasses) < 400 {
				rep.ErrClasses[o.Detail]++
			}
		}
		for _, op := range strings.Split(ops, "+") {
			rep.Ops[op]++
		}
		rk, _, _ := strings.Cut(reader, ":")
		rep.Readers[rk]++
		if ms := o.Duration.Milliseconds(); ms > rep.MaxMS {
			rep.MaxMS = ms
		}
		if o.Class == "panic" || o.Class == "hang" {
			rep.Violations = append(rep.Violations, c09ChildViol{Idx: i, Class: o.Class, Site: o.Site, Detail: o.Detail})
			if o.Class == "hang" {
				break // the parsing goroutine is still running: leave the process
			}
		}
	}
	rep.Done = true
	b, _ := json.Marshal(rep)
	fmt.Printf("C09REPORT %s\n", b)
	return 0
}

func runC09(r *ev.Run, rep *ev.ReplayDoc) ev.Summary {
	sum := ev.Summary{
		Rule: "inputs = seed corpus (repo EML fixtures, normalised renderings of 24 builder shapes, hand-written multiparts) and structure-aware mutations of them (parameter values emptied/re-quoted/unbalanced/oversized, parameter shapes, header lines deleted/duplicated/truncated/emptied/folded, transfer-encoding / content-type / disposition swaps, boundary lines removed/duplicated/unclosed, nesting up to depth 200 incl. self-referential boundaries, corrupted encoded bodies, bit flips, inserts/deletes, splices, truncation, line-ending rewrites, random bytes, address/date corruption), 1-3 operators per input; entry points EMLToMsgFromString / FromReader (plain, 1-byte, data+EOF, zero-length reads, failing at an offset) / FromFile. Batches run in child processes; a dead child is bisected down to the input. non-trivial = mutated input; distinct by (operators, reader, outcome class)",
		Assumptions: []string{
			"termination is judged with a 10 s per-input watchdog (inputs are < 64 KiB and parse in micro- to milliseconds); a hang is re-run alone in its own process with 60 s before it is reported; after 3 confirmed hangs the remaining inputs are skipped",
			"a fatal runtime error (stack exhaustion, out of memory) kills the child process and counts as a violation for the journaled input",
		},
		Floors: []ev.Floor{{Counter: "inputs_parsed", Min: 20000}, {Counter: "outcome_ok", Min: 200}, {Counter: "outcome_error", Min: 1000}, {Counter: "mutation_operators", Min: 14}},
	}
	if rep != nil {
		var c c09Case
		if err := json.Unmarshal(rep.Case, &c); err != nil {
			r.HarnessError("bad replay case: " + err.Error())
			return sum
		}
		data, _ := base64.StdEncoding.DecodeString(c.InputB64)
		o := c09Parse(data, c.Reader)
		if o.Class == "panic" || o.Class == "hang" {
			r.Violate(ev.Violation{Key: o.Class + ":" + o.Site, What: "EML parsing " + o.Class + "s: " + ev.Trunc(o.Detail, 400), Case: c})
		}
		r.Eval("replay", true)
		return sum
	}
	total := r.Pick(80000, 5000000)
	batch := 5000
	if r.Thorough() {
		batch = 50000
	}
	exe, _ := os.Executable()
	type rng struct{ start, count int }
	var ranges []rng
	for s := 0; s < total; s += batch {
		ranges = append(ranges, rng{s, min(batch, total-s)})
	}
	var mu sync.Mutex
	outcomes := map[string]int{}
	ops := map[string]int{}
	readers := map[string]int{}
	errClasses := map[string]int{}
	var hangsConfirmed int32
	var runRange func(start, count, depth int)
	runRange = func(start, count, depth int) {
		if atomic.LoadInt32(&hangsConfirmed) >= 3 {
			r.Count("ranges_skipped_after_confirmed_hangs", 1)
			return
		}
		journal := filepath.Join(os.TempDir(), fmt.Sprintf("verif-c09-journal-%d-%d", os.Getpid(), start))
		defer os.Remove(journal)
		cmd := exec.Command(exe, "child", "c09", fmt.Sprint(r.Seed), fmt.Sprint(start), fmt.Sprint(count))
		cmd.Env = append(os.Environ(), "VERIF_C09_JOURNAL="+journal, "GOMEMLIMIT=2GiB")
		var outb, errb bytes.Buffer
		cmd.Stdout, cmd.Stderr = &outb, &errb
		err := cmd.Run()
		var rp c09ChildReport
		got := false
		for _, line := range strings.Split(outb.String(), "\n") {
			if strings.HasPrefix(line, "C09REPORT ") {
				if json.Unmarshal([]byte(strings.TrimPrefix(line, "C09REPORT ")), &rp) == nil {
					got = true
				}
			}
		}
		if got {
			mu.Lock()
			for k, v := range rp.Outcomes {
				outcomes[k] += v
			}
			for k, v := range rp.Ops {
				ops[k] += v
			}
			for k, v := range rp.Readers {
				readers[k] += v
			}
			for k, v := range rp.ErrClasses {
				errClasses[k] += v
			}
			mu.Unlock()
			r.Count("inputs_parsed", int64(rp.Ran))
			r.Max("max_parse_ms", rp.MaxMS)
			for _, v := range rp.Violations {
				data, reader, opsS := c09Input(r.Seed, v.Idx)
				c := c09Case{InputB64: base64.StdEncoding.EncodeToString(data), Reader: reader, Ops: opsS}
				if v.Class == "hang" {
					// re-run alone, in a process of its own that can be killed, with a larger budget
					if atomic.LoadInt32(&hangsConfirmed) >= 3 {
						r.Count("further_hangs_not_reconfirmed", 1)
						continue
					}
					cls := c09ConfirmHang(exe, r.Seed, v.Idx, 60)
					if cls != "hang" {
						r.Inconclusive(fmt.Sprintf("input %d exceeded the %v watchdog once but ended as %q when re-run alone", v.Idx, c09PerInputWatchdog, cls))
						continue
					}
					atomic.AddInt32(&hangsConfirmed, 1)
					r.Violate(ev.Violation{Key: "hang:" + hangClass(opsS), What: fmt.Sprintf("EML parsing of a %d-byte input did not terminate within 60 s (re-run alone in its own process)", len(data)), Case: c})
					continue
				}
				r.Violate(ev.Violation{Key: "panic:" + v.Site, What: "EML parsing panicked: " + ev.Trunc(v.Detail, 300), Case: c, Observed: v.Detail})
			}
			if rp.Done || len(rp.Violations) > 0 && rp.Ran >= count {
				if rp.Ran < count {
					// the child left after a hang: continue behind it
					runRange(start+rp.Ran, count-rp.Ran, depth)
				}
				return
			}
		}
		// the child died without a complete report: find the input
		if strings.Contains(outb.String(), "C09GENERATOR-PANIC") {
			r.HarnessError("C09 input generator panicked: " + ev.Trunc(outb.String(), 400))
			return
		}
		r.Count("child_deaths", 1)
		last := -1
		if jb, jerr := os.ReadFile(journal); jerr == nil {
			fmt.Sscan(string(jb), &last)
		}
		if last >= start && last < start+count {
			data, reader, opsS := c09Input(r.Seed, last)
			c := c09Case{InputB64: base64.StdEncoding.EncodeToString(data), Reader: reader, Ops: opsS}
			r.Violate(ev.Violation{Key: "process-death:" + opsS, What: fmt.Sprintf("the parsing process died (%v) while parsing input %d: %s", err, last, ev.Trunc(errb.String(), 600)), Case: c, Observed: ev.Trunc(errb.String(), 4000)})
			if last > start {
				runRange(start, last-start, depth+1)
			}
			if last+1 < start+count {
				runRange(last+1, start+count-last-1, depth+1)
			}
			return
		}
		r.HarnessError(fmt.Sprintf("C09 child for [%d,%d) failed without journal: %v %s", start, start+count, err, ev.Trunc(errb.String(), 500)))
	}
	r.Parallel(len(ranges), func(i int) { runRange(ranges[i].start, ranges[i].count, 0) })
	for k, v := range outcomes {
		r.Count("outcome_"+k, int64(v))
	}
	for k := range ops {
		r.Seen("mutation_operators", k)
	}
	for k := range readers {
		r.Seen("entry_points", k)
	}
	for k := range errClasses {
		r.Seen("error_classes", k)
	}
	// evaluations / distinct: per (ops, reader-kind, outcome) classes are not tracked per input across
	// processes; count inputs and the distinct (operator x reader) cells observed
	for i := 0; i < 3; i++ {
		data, reader, opsS := c09Input(r.Seed, len(c09SeedCorpus())+i)
		r.Sample(map[string]any{"ops": opsS, "reader": reader, "input": ev.Q(data, 300)})
	}
	nIn := 0
	for _, v := range outcomes {
		nIn += v
	}
	for o := range ops {
		for rd := range readers {
			r.Eval(o+"|"+rd, true)
		}
	}
	for k := range errClasses {
		r.Eval("err|"+k, true)
	}
	r.AddEvals(int64(nIn) - int64(len(ops)*len(readers)+len(errClasses)))
	return sum
}

// c09ConfirmHang re-runs one input in a child process with a budget (seconds); the child is killed afterwards.
func c09ConfirmHang(exe string, seed int64, idx, budget int) string {
	cmd := exec.Command(exe, "child", "c09one", fmt.Sprint(seed), fmt.Sprint(idx), fmt.Sprint(budget))
	var outb bytes.Buffer
	cmd.Stdout = &outb
	if err := cmd.Start(); err != nil {
		return "error"
	}
	done := make(chan error, 1)
	go func() { done <- cmd.Wait() }()
	select {
	case <-done:
	case <-time.After(time.Duration(budget+15) * time.Second):
		_ = cmd.Process.Kill()
		<-done
		return "hang"
	}
	for _, line := range strings.Split(outb.String(), "\n") {
		if strings.HasPrefix(line, "C09ONE ") {
			return strings.Fields(line)[1]
		}
	}
	return "error"
}

// hangClass keeps the key of a hang stable: the first mutation operator.
func hangClass(ops string) string {
	op, _, _ := strings.Cut(ops, "+")
	return op
}
