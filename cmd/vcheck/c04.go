//go:build verif

package main

import (
	"context"
	"encoding/json"
	"errors"
	"fmt"
	"strings"
	"sync"
	"time"

	mail "github.com/wneessen/go-mail"

	"verif/internal/ev"
	"verif/internal/gen"
	"verif/internal/refsmtp"
)

func init() { register("C04", "fault_enumeration", runC04) }

type c04Msg struct {
	Enc   string `json:"enc"`
	NRcpt int    `json:"nrcpt"`
	// Unrenderable: S/MIME signing with a key type the signer refuses at write time: WriteTo fails before the first
	// byte, inside the DATA phase
	Unrenderable bool `json:"unrenderable,omitempty"`
	// UTF8Sender: the envelope sender has a non-ASCII local part (an internationalised address)
	UTF8Sender bool `json:"utf8_sender,omitempty"`
}

type c04Config struct {
	Name       string   `json:"name"`
	Caps       []string `json:"caps"`
	CapsTLS    []string `json:"caps_tls,omitempty"`          // capabilities after STARTTLS (nil: same as Caps minus STARTTLS)
	NoCapsTLS  bool     `json:"no_caps_after_tls,omitempty"` // the EHLO reply after STARTTLS is the bare greeting line (no extension at all)
	TLS        string   `json:"tls"`                         // none | opportunistic | mandatory | implicit
	Auth       string   `json:"auth,omitempty"`              // "" | PLAIN | LOGIN
	RefuseEHLO bool     `json:"refuse_ehlo,omitempty"`
	DSN        string   `json:"dsn,omitempty"` // "" | default | hdrs-never | full-success-delay
	NoNoop     bool     `json:"no_noop,omitempty"`
	Multiline  bool     `json:"multiline_replies,omitempty"` // the server sends every reply as a multi-line reply
	Msgs       []c04Msg `json:"msgs"`
	MaxDev     int      `json:"max_deviations"`
}

type c04Case struct {
	Cfg    c04Config     `json:"cfg"`
	Script []scriptEntry `json:"script"`
}

type c04Result struct {
	steps      int // number of decision points visited on connection 0
	stepVerbs  []string
	transcript string
}

const c04Host = "mail.verif.example"

func hasCap(caps []string, k string) bool {
	for _, c := range caps {
		if strings.HasPrefix(c, k) {
			return true
		}
	}
	return false
}

func runC04Case(r *ev.Run, c c04Case) c04Result {
	cfg := c.Cfg
	viol := func(key, what string, obs any) {
		r.Violate(ev.Violation{Key: key, What: what, Case: c, Observed: obs})
	}
	tm := gen.TLS()
	farm := &refsmtp.Farm{NewConfig: func(n int) *refsmtp.Config {
		sc := &refsmtp.Config{
			Decide:           scriptDecide(c.Script),
			RefuseEHLO:       cfg.RefuseEHLO,
			ProbePreGreeting: true,
			AllowUTF8:        true,
			Multiline:        cfg.Multiline,
			Caps: func(ehloN int, tlsOn bool) []string {
				if tlsOn {
					if cfg.NoCapsTLS {
						return nil
					}
					if cfg.CapsTLS != nil {
						return cfg.CapsTLS
					}
					var out []string
					for _, k := range cfg.Caps {
						if k != "STARTTLS" {
							out = append(out, k)
						}
					}
					return out
				}
				return cfg.Caps
			},
		}
		if cfg.TLS != "none" {
			sc.TLS = gen.ServerTLS(tm.Good, 0, 0)
		}
		if cfg.Auth != "" {
			sc.Auth = plainAuthHandler("user", "secret-pass")
		}
		return sc
	}}
	opts := []mail.Option{
		mail.WithDialContextFunc(farm.Dial), mail.WithTimeout(4 * time.Second), mail.WithHELO("client.verif.example"),
		mail.WithTLSConfig(gen.ClientTLS(c04Host, 0, 0)),
	}
	switch cfg.TLS {
	case "none":
		opts = append(opts, mail.WithTLSPolicy(mail.NoTLS))
	case "implicit":
		opts = append(opts, mail.WithSSL())
		farm.ImplicitTLS = gen.ClientTLS(c04Host, 0, 0)
	case "opportunistic":
		opts = append(opts, mail.WithTLSPolicy(mail.TLSOpportunistic))
	default:
		opts = append(opts, mail.WithTLSPolicy(mail.TLSMandatory))
	}
	switch cfg.Auth {
	case "PLAIN":
		opts = append(opts, mail.WithSMTPAuth(mail.SMTPAuthPlainNoEnc), mail.WithUsername("user"), mail.WithPassword("secret-pass"))
	case "LOGIN":
		opts = append(opts, mail.WithSMTPAuth(mail.SMTPAuthLoginNoEnc), mail.WithUsername("user"), mail.WithPassword("secret-pass"))
	}
	switch cfg.DSN {
	case "default":
		opts = append(opts, mail.WithDSN())
	case "hdrs-never":
		opts = append(opts, mail.WithDSNMailReturnType(mail.DSNMailReturnHeadersOnly), mail.WithDSNRcptNotifyType(mail.DSNRcptNotifyNever))
	case "full-success-delay":
		opts = append(opts, mail.WithDSNMailReturnType(mail.DSNMailReturnFull), mail.WithDSNRcptNotifyType(mail.DSNRcptNotifySuccess, mail.DSNRcptNotifyDelay))
	}
	if cfg.NoNoop {
		opts = append(opts, mail.WithoutNoop())
	}
	cl, err := mail.NewClient(c04Host, opts...)
	if err != nil {
		r.HarnessError("C04 NewClient: " + err.Error())
		return c04Result{}
	}
	var msgs []*mail.Msg
	for i, ms := range cfg.Msgs {
		var rc []string
		for j := 0; j < ms.NRcpt; j++ {
			rc = append(rc, fmt.Sprintf("r%dm%d@rcpt.example", j, i))
		}
		from := fmt.Sprintf("m%d@sender.example", i)
		if ms.UTF8Sender {
			from = fmt.Sprintf("m%dtëst@sender.example", i)
		}
		m, err := simpleMsg(fmt.Sprintf("c04-%d", i), from, rc, ms.Enc, "body of message\r\n.leading dot\r\n")
		if err != nil {
			r.HarnessError("C04 msg: " + err.Error())
			return c04Result{}
		}
		if ms.Unrenderable {
			k := gen.Keys()
			if err := m.SignWithKeypair(k.EdKey, k.EdCert, nil); err != nil {
				r.HarnessError("C04 msg: " + err.Error())
				return c04Result{}
			}
		}
		msgs = append(msgs, m)
	}
	var dialErr, sendErr, closeErr error
	var panicked any
	hung, returned := withWatchdog(20*time.Second, func() {
		defer func() { panicked = recover() }()
		ctx, cancel := context.WithTimeout(context.Background(), 10*time.Second)
		defer cancel()
		dialErr = cl.DialWithContext(ctx)
		if dialErr != nil {
			return
		}
		sendErr = cl.Send(msgs...)
		closeErr = cl.Close()
	}, func() { farm.Shutdown() })
	farm.Shutdown()
	_ = closeErr
	if panicked != nil {
		viol("panic", fmt.Sprintf("client panicked: %v", panicked), nil)
	}
	sessions, _ := farm.Snapshot()
	if hung {
		r.Inconclusive(fmt.Sprintf("C04 session did not finish within the watchdog (returned=%t) script=%s cfg=%s", returned, scriptString(c.Script), cfg.Name))
	}
	res := c04Result{}
	if len(sessions) == 0 {
		r.Count("sessions_without_connection", 1)
		return res
	}
	s := sessions[0]
	cmds, commits, pviol := s.Snapshot()
	res.transcript = s.Transcript()
	for _, c := range cmds {
		if c.Verb == "AUTH-RESP" {
			continue
		}
		res.stepVerbs = append(res.stepVerbs, c.Verb)
	}
	// number of decision points = highest index seen + 1
	for _, cr := range cmds {
		if cr.Index+1 > res.steps {
			res.steps = cr.Index + 1
		}
	}
	r.Count("commands_observed", int64(len(cmds)))
	r.Count("commits_observed", int64(len(commits)))
	r.Seen("transcripts", cfg.Name+"|"+res.transcript)
	for st, n := range s.States {
		_ = n
		r.Seen("automaton_states", st)
	}
	for tr := range s.Trans {
		r.Seen("automaton_transitions", tr)
	}
	// (1)-(7),(10),(11): automaton violations
	for _, v := range pviol {
		viol(protocolKey(v, cmds), "reference server automaton: "+v+" | transcript: "+res.transcript, cmds)
	}
	// ownership of commands: message index by MAIL sender
	owner := make([]int, len(cmds))
	cur := -1
	tokOwner := map[string]int{}
	tokVerb := map[string]string{}
	for i, cr := range cmds {
		if cr.Verb == "MAIL" && cr.Parsed != nil && cr.Parsed.Path != nil {
			cur = -1
			fmt.Sscanf(cr.Parsed.Path.Local, "m%d", &cur)
		}
		owner[i] = cur
		if cr.Token != "" {
			tokOwner[cr.Token] = cur
			tokVerb[cr.Token] = cr.Verb
		}
	}
	// latest caps in force when sending started
	latestCaps := cfg.Caps
	if s.TLSOK {
		if cfg.CapsTLS != nil {
			latestCaps = cfg.CapsTLS
		}
		if cfg.NoCapsTLS {
			latestCaps = nil
		}
	}
	heloOnly := false
	for _, cr := range cmds {
		if cr.Verb == "HELO" && cr.ReplyCode == 250 {
			heloOnly = true
		}
		if cr.Verb == "EHLO" && cr.ReplyCode == 250 {
			heloOnly = false
		}
	}
	for i, m := range msgs {
		es := ""
		if m.SendError() != nil {
			es = m.SendError().Error()
		}
		// (9) attribution: tokens in this message's error must belong to its own commands
		for _, tk := range tokenRe.FindAllString(es, -1) {
			o, known := tokOwner[tk]
			if !known || o != i {
				viol("attribution:foreign-reply:"+tokVerb[tk], fmt.Sprintf("error of message %d carries the reply %s which answered a %s command of message %d: %s | transcript: %s", i, tk, tokVerb[tk], o, es, res.transcript), cmds)
			}
		}
		// ... and to the command the error names as failing step
		var sev *mail.SendError
		if errors.As(m.SendError(), &sev) && sev != nil {
			for verb, reason := range reasonOf {
				if sev.Reason != reason {
					continue
				}
				// the code and class the error reports are those of the reply to that command (for RCPT: of the last refusal),
				// not of a reply to another command of the transaction (the clean-up RSET may be refused as well)
				want, unanswered := 0, false
				for k, cr := range cmds {
					if owner[k] == i && cr.Verb == verb && cr.ReplyCode >= 400 {
						want = cr.ReplyCode
					}
					if owner[k] == i && cr.Verb == verb && cr.ReplyCode < 200 {
						unanswered = true // a command of that step got no reply at all (connection dropped): the last failure is no reply
					}
				}
				if want != 0 && !unanswered {
					r.Count("reported_reply_codes_compared", 1)
					if sev.ErrorCode() != want || sev.IsTemp() != (want < 500) {
						viol("attribution:code-of-other-reply:"+verb, fmt.Sprintf("message %d failed at %s, whose reply was %d; its error reports code %d, temporary=%t: %s | transcript: %s", i, verb, want, sev.ErrorCode(), sev.IsTemp(), es, res.transcript), cmds)
					}
				}
				for _, tk := range tokenRe.FindAllString(es, -1) {
					// (the reply to the RSET that cleans up after the failed step is reported along with it)
					if v, known := tokVerb[tk]; known && v != verb && v != "RSET" {
						viol("attribution:wrong-command:"+verb+"-got-"+v, fmt.Sprintf("message %d failed at %s according to its error, which carries the reply %s that answered a %s command: %s | transcript: %s", i, verb, tk, v, es, res.transcript), cmds)
					}
				}
			}
		}
		if cfg.Msgs[i].Unrenderable {
			r.Count("unrenderable_messages", 1)
			for _, cm := range commits {
				if cm.From == fmt.Sprintf("m%d@sender.example", i) && cm.Complete {
					viol("committed-for-unrenderable-message", fmt.Sprintf("message %d cannot be rendered (signing fails), yet the server received a complete end-of-data for its transaction (%d bytes, accepted=%t) | transcript: %s", i, len(cm.Data), cm.Accepted, res.transcript), cmds)
				}
			}
		}
		for k, cr := range cmds {
			if owner[k] != i || cr.ReplyCode < 400 || cr.Token == "" {
				continue
			}
			switch cr.Verb {
			case "MAIL", "RCPT", "DATA", "DATA-END":
				if !strings.Contains(es, cr.Token) {
					viol("attribution:reply-not-reported:"+cr.Verb, fmt.Sprintf("message %d got %d to its %s command (%s) but its error is %q | transcript: %s", i, cr.ReplyCode, cr.Verb, cr.Token, es, res.transcript), cmds)
				}
			}
		}
		// (8) 8bit without 8BITMIME: refused locally
		if cfg.Msgs[i].Enc == "8bit" && (heloOnly || !hasCap(latestCaps, "8BITMIME")) {
			for k, cr := range cmds {
				if cr.Verb == "MAIL" && owner[k] == i {
					viol("8bit-sent-without-8bitmime", fmt.Sprintf("message %d is 8bit, the latest EHLO reply has no 8BITMIME, yet MAIL was sent: %s", i, cr.Line), cmds)
				}
			}
			var se *mail.SendError
			if dialErr == nil && errors.As(m.SendError(), &se) {
				if se.Reason != mail.ErrNoUnencoded {
					// an earlier connection failure may pre-empt this; only a message that was reached counts
					if !strings.Contains(es, "connection") && se.Reason != mail.ErrConnCheck {
						r.Count("8bit_refusal_preempted", 1)
					}
				} else {
					r.Count("8bit_refused_locally", 1)
				}
			}
		}
	}
	// fault-free run: everything must be delivered
	onlyPositive := true // no deviation, or only positive replies with another 2yz code
	for _, e := range c.Script {
		if e.Kind != "alt-2yz" {
			onlyPositive = false
		}
	}
	if onlyPositive {
		if dialErr != nil || sendErr != nil {
			all8bitOK := true
			for i := range msgs {
				if cfg.Msgs[i].Unrenderable {
					all8bitOK = false
				}
				if cfg.Msgs[i].Enc == "8bit" && (heloOnly || !hasCap(latestCaps, "8BITMIME")) {
					all8bitOK = false
				}
			}
			if all8bitOK {
				viol("fault-free-failure", fmt.Sprintf("no deviation scripted but dial=%v send=%v | transcript: %s", dialErr, sendErr, res.transcript), cmds)
			}
		}
	}
	nontrivial := len(c.Script) > 0
	r.Eval(cfg.Name+"|"+scriptString(c.Script)+"|"+res.transcript, nontrivial)
	for _, e := range c.Script {
		if e.Index < len(res.stepVerbs) {
			r.Count("deviation_at_"+res.stepVerbs[e.Index], 1)
		}
	}
	return res
}

func c04Configs(thorough bool) []c04Config {
	m := func(enc string, n int) c04Msg { return c04Msg{Enc: enc, NRcpt: n} }
	qp, e8 := "quoted-printable", "8bit"
	all := []string{"8BITMIME", "SMTPUTF8", "DSN", "ENHANCEDSTATUSCODES"}
	cfgs := []c04Config{
		{Name: "plain-2x2", Caps: all, TLS: "none", Msgs: []c04Msg{m(qp, 2), m(qp, 2)}, MaxDev: 2},
		{Name: "nocaps-1x1", Caps: nil, TLS: "none", Msgs: []c04Msg{m(qp, 1)}, MaxDev: 1},
		{Name: "8bit-no8bitmime", Caps: []string{"DSN", "SMTPUTF8"}, TLS: "none", Msgs: []c04Msg{m(e8, 1), m(qp, 1)}, MaxDev: 1},
		{Name: "8bit-with8bitmime", Caps: []string{"8BITMIME"}, TLS: "none", Msgs: []c04Msg{m(e8, 2)}, MaxDev: 1},
		{Name: "dsn-default-3x3", Caps: all, TLS: "none", DSN: "default", Msgs: []c04Msg{m(qp, 3), m(qp, 3), m(qp, 3)}, MaxDev: 1},
		{Name: "dsn-not-advertised", Caps: []string{"8BITMIME"}, TLS: "none", DSN: "hdrs-never", Msgs: []c04Msg{m(qp, 2)}, MaxDev: 1},
		{Name: "dsn-full", Caps: []string{"DSN"}, TLS: "none", DSN: "full-success-delay", Msgs: []c04Msg{m(qp, 2)}, MaxDev: 1},
		{Name: "helo-fallback", Caps: all, RefuseEHLO: true, TLS: "none", DSN: "default", Msgs: []c04Msg{m(qp, 2), m(e8, 1)}, MaxDev: 1},
		{Name: "nonoop-2x1", Caps: all, TLS: "none", NoNoop: true, Msgs: []c04Msg{m(qp, 1), m(qp, 1)}, MaxDev: 1},
		{Name: "starttls-caps-change", Caps: []string{"STARTTLS", "8BITMIME", "DSN", "SMTPUTF8"}, CapsTLS: []string{"ENHANCEDSTATUSCODES"}, TLS: "opportunistic", DSN: "default", Msgs: []c04Msg{m(e8, 1), m(qp, 2)}, MaxDev: 1},
		{Name: "starttls-no-caps-after-tls", Caps: []string{"STARTTLS", "8BITMIME", "DSN", "SMTPUTF8", "ENHANCEDSTATUSCODES"}, NoCapsTLS: true, TLS: "mandatory", DSN: "default", Msgs: []c04Msg{m(qp, 2), m(e8, 1)}, MaxDev: 1},
		{Name: "starttls-mandatory", Caps: []string{"STARTTLS", "8BITMIME"}, CapsTLS: []string{"8BITMIME", "DSN"}, TLS: "mandatory", DSN: "hdrs-never", Msgs: []c04Msg{m(qp, 1)}, MaxDev: 1},
		{Name: "auth-plain", Caps: []string{"AUTH PLAIN LOGIN", "8BITMIME"}, TLS: "none", Auth: "PLAIN", Msgs: []c04Msg{m(qp, 1), m(qp, 1)}, MaxDev: 1},
		{Name: "auth-login", Caps: []string{"AUTH LOGIN", "DSN"}, TLS: "none", Auth: "LOGIN", Msgs: []c04Msg{m(qp, 2)}, MaxDev: 1},
		{Name: "utf8-sender-no-smtputf8", Caps: []string{"8BITMIME", "DSN", "ENHANCEDSTATUSCODES"}, TLS: "none", DSN: "default", Msgs: []c04Msg{{Enc: qp, NRcpt: 1, UTF8Sender: true}, m(qp, 1)}, MaxDev: 1},
		{Name: "utf8-sender-smtputf8", Caps: all, TLS: "none", Msgs: []c04Msg{{Enc: e8, NRcpt: 2, UTF8Sender: true}}, MaxDev: 1},
		{Name: "unrenderable-first-of-2", Caps: all, TLS: "none", Msgs: []c04Msg{{Enc: qp, NRcpt: 1, Unrenderable: true}, m(qp, 2)}, MaxDev: 1},
		{Name: "unrenderable-second-of-3", Caps: all, TLS: "none", DSN: "default", Msgs: []c04Msg{m(qp, 1), {Enc: qp, NRcpt: 2, Unrenderable: true}, m(e8, 1)}, MaxDev: 1},
		{Name: "implicit-tls-2x1", Caps: []string{"8BITMIME", "DSN", "AUTH PLAIN"}, TLS: "implicit", Auth: "PLAIN", DSN: "default", Msgs: []c04Msg{m(qp, 1), m(e8, 1)}, MaxDev: 1},
		{Name: "multiline-2x2", Caps: all, TLS: "none", Multiline: true, Msgs: []c04Msg{m(qp, 2), m(e8, 2)}, MaxDev: 1},
		{Name: "multiline-starttls-auth", Caps: []string{"STARTTLS", "AUTH PLAIN", "8BITMIME"}, CapsTLS: []string{"AUTH PLAIN", "DSN"}, TLS: "mandatory", Auth: "PLAIN", Multiline: true, DSN: "default", Msgs: []c04Msg{m(qp, 1), m(qp, 1)}, MaxDev: 1},
	}
	for i := range cfgs {
		cfgs[i].MaxDev = 2
	}
	if thorough {
		for i := range cfgs {
			cfgs[i].MaxDev = 3
			if len(cfgs[i].Msgs) == 1 {
				cfgs[i].MaxDev = 4
			}
		}
		cfgs = append(cfgs,
			c04Config{Name: "deep-1x3", Caps: all, TLS: "none", Msgs: []c04Msg{m(qp, 3)}, MaxDev: 3},
			c04Config{Name: "deep-1x1-dsn", Caps: all, TLS: "none", DSN: "default", Msgs: []c04Msg{m(qp, 1)}, MaxDev: 4},
			c04Config{Name: "plain-3x3", Caps: all, TLS: "none", Msgs: []c04Msg{m(qp, 3), m(e8, 3), m(qp, 3)}, MaxDev: 2},
			c04Config{Name: "starttls-3msgs", Caps: []string{"STARTTLS"}, CapsTLS: all, TLS: "mandatory", Msgs: []c04Msg{m(qp, 1), m(e8, 2), m(qp, 1)}, MaxDev: 2},
		)
		// every capability subset of {8BITMIME, SMTPUTF8, DSN, ENHANCEDSTATUSCODES} with one deviation
		for mask := 0; mask < 16; mask++ {
			var caps []string
			for b, k := range all {
				if mask&(1<<b) != 0 {
					caps = append(caps, k)
				}
			}
			cfgs = append(cfgs, c04Config{Name: fmt.Sprintf("capsubset-%02d", mask), Caps: caps, TLS: "none", DSN: "default", Msgs: []c04Msg{m(e8, 1), m(qp, 2)}, MaxDev: 3})
		}
	}
	return cfgs
}

var devKinds = []string{"4yz", "5yz", "drop"}

type c04ConcCase struct {
	Rep        int  `json:"rep"`
	G          int  `json:"goroutines"`
	Concurrent bool `json:"concurrent_send_calls"`
}

func runC04Concurrent(r *ev.Run, c c04ConcCase) {
	rng := r.Rng("c04conc", c.Rep)
	var jmu sync.Mutex
	farm := &refsmtp.Farm{NewConfig: func(int) *refsmtp.Config {
		return &refsmtp.Config{AllowUTF8: true, Delay: func(string) time.Duration {
			jmu.Lock()
			defer jmu.Unlock()
			return time.Duration(rng.Intn(300)) * time.Microsecond
		}, Decide: func(st refsmtp.Step) refsmtp.Action {
			if st.Verb == "RCPT" && strings.Contains(st.Line, "refused") {
				return refsmtp.Action{Kind: refsmtp.Reply, Code: 550, Text: "5.1.1 no such user"}
			}
			return refsmtp.Action{}
		}}
	}}
	defer farm.Shutdown()
	cl, err := mail.NewClient(netHost, mail.WithDialContextFunc(farm.Dial), mail.WithTimeout(defaultNetTimeout), mail.WithHELO("client.verif.example"), mail.WithTLSPolicy(mail.NoTLS))
	if err != nil {
		r.HarnessError("C04 concurrent NewClient: " + err.Error())
		return
	}
	ctx, cancel := context.WithTimeout(context.Background(), 20*time.Second)
	defer cancel()
	if err := cl.DialWithContext(ctx); err != nil {
		r.HarnessError("C04 concurrent dial: " + err.Error())
		return
	}
	var wg sync.WaitGroup
	start := make(chan struct{})
	for g := 0; g < c.G; g++ {
		var ms []*mail.Msg
		for k := 0; k < 2; k++ {
			rc := []string{fmt.Sprintf("r%d.%d@rcpt.example", g, k), fmt.Sprintf("second%d.%d@rcpt.example", g, k)}
			if (g+k)%2 == 0 {
				rc[1] = fmt.Sprintf("refused%d.%d@rcpt.example", g, k)
			}
			m, _ := simpleMsg(fmt.Sprintf("c04c-%d-%d-%d", c.Rep, g, k), fmt.Sprintf("m%d.%d@sender.example", g, k), rc, "quoted-printable", strings.Repeat("line of a concurrent message\r\n", 20))
			ms = append(ms, m)
		}
		wg.Add(1)
		go func() {
			defer wg.Done()
			<-start
			_ = cl.Send(ms...)
		}()
	}
	close(start)
	hung, _ := withWatchdog(60*time.Second, wg.Wait, func() { farm.Shutdown() })
	if hung {
		r.Inconclusive("C04 concurrent: Send calls did not return within 60 s")
		return
	}
	_ = cl.Close()
	farm.Shutdown()
	sess, _ := farm.Snapshot()
	r.Count("concurrent_send_batches", 1)
	for si, s := range sess {
		cmds, _, pv := s.Snapshot()
		r.Count("commands_observed", int64(len(cmds)))
		for _, v := range pv {
			code, _, _ := strings.Cut(v, ":")
			r.Violate(ev.Violation{Key: "sequence:" + code + ":concurrent-send-calls", What: fmt.Sprintf("%d goroutines call Send on one connection: the reference automaton on connection %d reports %s", c.G, si, v), Case: c, Observed: s.Transcript()})
		}
	}
	r.Eval(fmt.Sprintf("concurrent|%d|%d", c.Rep, c.G), true)
}

func runC04(r *ev.Run, rep *ev.ReplayDoc) ev.Summary {
	sum := ev.Summary{
		Rule: "execution-tree enumeration: for each client/server configuration the reference server deviates ({4yz,5yz,drop}) at up to MaxDev command positions; every distinct execution is visited once (a script is extended only at positions after its last deviation). non-trivial = at least one deviation; distinct by (configuration, script, transcript)",
		Assumptions: []string{
			"the reference automaton (internal/refsmtp) encodes RFC 5321 sequencing with Postfix-like strictness; a negative reply to RSET leaves the expected state open",
			"deterministic replay: the client's behaviour depends only on the replies (no timing), which the enumeration relies on",
		},
		Floors:     []ev.Floor{{Counter: "evaluations", Min: 200}, {Counter: "commands_observed", Min: 2000}, {Counter: "transcripts", Min: 100}},
		Exhaustive: true,
	}
	if rep != nil {
		var cc c04ConcCase
		if json.Unmarshal(rep.Case, &cc) == nil && cc.Concurrent {
			runC04Concurrent(r, cc)
			return sum
		}
		var c c04Case
		if err := json.Unmarshal(rep.Case, &c); err != nil {
			r.HarnessError("bad replay case: " + err.Error())
			return sum
		}
		runC04Case(r, c)
		return sum
	}
	cfgs := c04Configs(r.Thorough())
	if ev.RaceSlice() {
		cfgs = c04Configs(false)
		for i := range cfgs {
			cfgs[i].MaxDev = 1
		}
	}
	type item struct {
		c c04Case
	}
	level := []item{}
	for _, cfg := range cfgs {
		level = append(level, item{c04Case{Cfg: cfg}})
	}
	depth := 0
	for len(level) > 0 {
		var mu sync.Mutex
		var next []item
		cur := level
		r.Parallel(len(cur), func(i int) {
			it := cur[i]
			res := runC04Case(r, it.c)
			if i%499 == 0 {
				r.Sample(map[string]any{"cfg": it.c.Cfg.Name, "script": scriptString(it.c.Script), "transcript": res.transcript})
			}
			if len(it.c.Script) >= it.c.Cfg.MaxDev {
				return
			}
			last := -1
			if n := len(it.c.Script); n > 0 {
				last = it.c.Script[n-1].Index
			}
			var kids []item
			for pos := last + 1; pos < res.steps; pos++ {
				kinds := devKinds
				if pos < len(res.stepVerbs) && res.stepVerbs[pos] == "RCPT" {
					kinds = append(append([]string{}, devKinds...), "alt-2yz") // 251 / 252: accepted recipients
				}
				for _, k := range kinds {
					sc := append(append([]scriptEntry(nil), it.c.Script...), scriptEntry{Index: pos, Kind: k})
					kids = append(kids, item{c04Case{Cfg: it.c.Cfg, Script: sc}})
				}
			}
			mu.Lock()
			next = append(next, kids...)
			mu.Unlock()
		})
		depth++
		level = next
	}
	sum.Extra = map[string]any{"configurations": len(cfgs), "tree_depth": depth - 1}
	// the same automaton over a connection that several goroutines send on at once (one refused recipient per batch, so
	// that RSETs occur): whatever the scheduling, the command stream of the connection has to stay one legal dialogue
	for rep := 0; rep < r.Pick(6, 40); rep++ {
		runC04Concurrent(r, c04ConcCase{Rep: rep, G: []int{2, 4, 8}[rep%3], Concurrent: true})
	}
	r.CollectRaceLogs()
	return sum
}

// protocolKey derives the stable key of an automaton violation. A "*" line sent
// although no AUTH exchange is open (the previous reply was final) is keyed narrowly.
func protocolKey(v string, cmds []refsmtp.CmdRecord) string {
	code, detail, _ := strings.Cut(v, ": ")
	if code == "syntax" && strings.HasPrefix(detail, `"*"`) {
		for i, c := range cmds {
			if c.Line == "*" && i > 0 {
				prev := cmds[i-1]
				if strings.HasPrefix(prev.Verb, "AUTH") && prev.ReplyCode != 334 {
					return "protocol:auth-cancel-after-final-reply"
				}
			}
		}
		return "protocol:syntax:stray-cancel"
	}
	if code == "syntax" {
		verb := "OTHER"
		for _, c := range cmds {
			if c.SyntaxErr != "" {
				verb = c.Verb
				break
			}
		}
		return "protocol:syntax:" + verb
	}
	return "protocol:" + code
}
