//go:build verif

// vcheck: one binary, one sub-command per property.
//
//	vcheck <ID> <quick|thorough>
//	vcheck <ID> replay <file>
//	vcheck selftest
package main

import (
	"fmt"
	"os"
	"sort"

	"verif/internal/ev"
)

type checker struct {
	level string
	// run executes the workload; when rep != nil only the replayed case is run.
	run func(r *ev.Run, rep *ev.ReplayDoc) ev.Summary
}

var registry = map[string]checker{}

func register(id, level string, fn func(r *ev.Run, rep *ev.ReplayDoc) ev.Summary) {
	registry[id] = checker{level, fn}
}

func main() {
	if len(os.Args) >= 2 && os.Args[1] == "selftest" {
		os.Exit(selftest())
	}
	if len(os.Args) >= 2 && os.Args[1] == "child" {
		os.Exit(childMain(os.Args[2:]))
	}
	if len(os.Args) < 3 {
		var ids []string
		for k := range registry {
			ids = append(ids, k)
		}
		sort.Strings(ids)
		fmt.Fprintf(os.Stderr, "usage: vcheck <ID> <quick|thorough> | vcheck <ID> replay <file>\nproperties: %v\n", ids)
		os.Exit(2)
	}
	id, mode := os.Args[1], os.Args[2]
	c, ok := registry[id]
	if !ok {
		fmt.Fprintf(os.Stderr, "unknown property %s\n", id)
		os.Exit(2)
	}
	if mode == "replay" {
		if len(os.Args) < 4 {
			fmt.Fprintln(os.Stderr, "replay needs a file")
			os.Exit(2)
		}
		doc, err := ev.LoadReplay(os.Args[3])
		if err != nil {
			fmt.Fprintf(os.Stderr, "cannot load replay: %v\n", err)
			os.Exit(2)
		}
		r := ev.New(id, c.level, doc.Tier)
		r.Seed = doc.Seed
		r.SetReplayMode()
		s := c.run(r, &doc)
		os.Exit(r.Finish(s))
	}
	r := ev.New(id, c.level, mode)
	s := c.run(r, nil)
	os.Exit(r.Finish(s))
}

// childMain dispatches re-executed worker processes (used by checks that isolate
// batches in child processes). Registered by the checks that need it.
var childHandlers = map[string]func(args []string) int{}

func childMain(args []string) int {
	if len(args) == 0 {
		return 2
	}
	h, ok := childHandlers[args[0]]
	if !ok {
		fmt.Fprintf(os.Stderr, "unknown child handler %s\n", args[0])
		return 2
	}
	return h(args[1:])
}
