//go:build verif

package main

import (
	"bytes"
	"context"
	"crypto/tls"
	"encoding/json"
	"errors"
	"fmt"
	mrand "math/rand"
	"net"
	"os"
	"os/exec"
	"runtime"
	"sort"
	"strings"
	"sync"
	"sync/atomic"
	"time"

	"github.com/anishathalye/porcupine"
	mail "github.com/wneessen/go-mail"
	"github.com/wneessen/go-mail/log"

	"verif/internal/ev"
	"verif/internal/faultio"
	"verif/internal/gen"
	"verif/internal/refsmtp"
)

func init() {
	register("C13", "exploration", runC13)
	childHandlers["c13"] = c13Child
}

type c13Case struct {
	Mode  string `json:"mode"` // shared | dialandsend | mixed
	G     int    `json:"goroutines"`
	Rep   int    `json:"rep"`
	Seed  int64  `json:"seed"`
	Auth  string `json:"auth,omitempty"`  // "" | LOGIN | SCRAM-SHA-256 | PLAIN: every dial-up authenticates
	SMIME bool   `json:"smime,omitempty"` // about half of the messages are S/MIME signed (one shared certificate value)
	// Fallback: the Client is configured with a fallback port (WithTLSPortPolicy(TLSOpportunistic): 587, then 25);
	// nothing answers on the primary port, the reference server is reached through the fallback
	Fallback bool `json:"fallback_port,omitempty"`
	// DebugLog: WithDebugLog and one log.Stdlog value (WithLogger) shared by all connections of the Client
	DebugLog bool `json:"debug_log,omitempty"`
	// DeadConn (mixed only): the first batch on the shared connection starts with a message that cannot be rendered
	// (its signing fails), which costs the Client its established connection while the other calls are under way.
	// Send calls may fail from then on; the DialAndSend calls have their own connections and are judged as always.
	DeadConn bool `json:"shared_connection_lost,omitempty"`
	// StartTLS: the server offers STARTTLS, the policy is TLSMandatory and the Client got a tls.Config of the caller's
	// that names no server (InsecureSkipVerify): every dial-up of the Client works with that one value
	StartTLS bool `json:"starttls_with_callers_tls_config,omitempty"`
	// Refused: about a third of the messages have recipients the server refuses at RCPT (all of them, or one of two):
	// such a message is not delivered and its call reports an error, everybody else's messages are delivered as always
	Refused bool `json:"some_recipients_refused,omitempty"`
	// Queue: a slow server (200 ms before every end-of-data reply) and a Client timeout of 3 s: every call's own
	// transactions stay far below the timeout, the time the last callers spend waiting for the shared connection does not
	Queue bool `json:"queue_longer_than_the_timeout,omitempty"`
}

type c13Viol struct {
	Key  string `json:"key"`
	What string `json:"what"`
	Obs  string `json:"obs,omitempty"`
}

type c13Report struct {
	Case          c13Case   `json:"case"`
	Viol          []c13Viol `json:"viol"`
	Messages      int       `json:"messages"`
	Commits       int       `json:"commits"`
	SignedCommits int       `json:"signed_commits"`
	Commands      int       `json:"commands"`
	Connections   int       `json:"connections"`
	MaxInFlight   int       `json:"max_in_flight"`
	SumInFlight   int       `json:"sum_in_flight"`
	SharedFailed  int       `json:"send_calls_failed_after_connection_loss,omitempty"`
	RefusedMsgs   int       `json:"messages_with_refused_recipients,omitempty"`
	CfgWritten    bool      `json:"callers_tls_config_written_to,omitempty"`
	FirstDials    int       `json:"concurrent_first_dialups_of_fresh_clients,omitempty"`
	CommitOrder   string    `json:"commit_order"`
	Porcupine     string    `json:"porcupine"`
	Ops           int       `json:"ops"`
	Inconclusive  []string  `json:"inconclusive,omitempty"`
	Done          bool      `json:"done"`
}

type c13Msg struct {
	signed  bool
	keyType string
	withInt bool
	id      string
	g, k    int
	msg     *mail.Msg
	from    string
	rcpts   []string
	shared  bool
	doomed  bool // the server refuses (some of) its recipients
}

type c13Op struct {
	g         int
	ids       []string
	call, ret int64
	err       error
	shared    bool
}

func c13Run(c c13Case) c13Report {
	rep := c13Report{Case: c}
	add := func(key, what, obs string) { rep.Viol = append(rep.Viol, c13Viol{key, what, ev.Trunc(obs, 3000)}) }
	rng := ev.RngFor(c.Seed, "c13|"+c.Mode+c.Auth, c.G*1000+c.Rep)
	var jmu sync.Mutex
	jitter := func() time.Duration {
		jmu.Lock()
		defer jmu.Unlock()
		switch rng.Intn(6) {
		case 0:
			return time.Duration(rng.Intn(400)) * time.Microsecond
		case 1:
			return time.Duration(rng.Intn(60)) * time.Microsecond
		}
		return 0
	}
	farm := &refsmtp.Farm{NewConfig: func(int) *refsmtp.Config {
		sc := &refsmtp.Config{AllowUTF8: true, Delay: func(string) time.Duration { return jitter() }, DataReadDelay: 15 * time.Microsecond}
		if c.Queue {
			sc.Delay = func(verb string) time.Duration {
				if verb == "DATA-END" {
					return 200 * time.Millisecond
				}
				return 0
			}
		}
		if c.Refused {
			sc.Decide = func(st refsmtp.Step) refsmtp.Action {
				if st.Verb == "RCPT" && strings.Contains(st.Line, "@refused.example") {
					return refsmtp.Action{Kind: refsmtp.Reply, Code: 550, Text: "5.1.1 no such user here"}
				}
				return refsmtp.Action{}
			}
		}
		if c.Auth != "" {
			a := &authSrv{User: "c13user", Pass: "c13-secret-pass", Iter: 64, Salt: []byte("c13salt")}
			sc.Auth = a.handler()
			sc.Caps = func(int, bool) []string { return []string{"8BITMIME", "SMTPUTF8", "DSN", "AUTH " + c.Auth} }
		}
		if c.StartTLS {
			sc.TLS = gen.ServerTLS(gen.TLS().Good, 0, 0)
			inner := sc.Caps
			sc.Caps = func(n int, on bool) []string {
				caps := []string{"8BITMIME", "SMTPUTF8", "DSN"}
				if inner != nil {
					caps = inner(n, on)
				}
				if !on {
					caps = append(append([]string{}, caps...), "STARTTLS")
				}
				return caps
			}
		}
		return sc
	}}
	copts := []mail.Option{mail.WithDialContextFunc(farm.Dial), mail.WithTLSPolicy(mail.NoTLS), mail.WithTimeout(30 * time.Second), mail.WithHELO("client.verif.example")}
	if c.Fallback {
		dial := func(ctx context.Context, network, address string) (net.Conn, error) {
			if strings.HasSuffix(address, ":587") {
				time.Sleep(jitter() + 50*time.Microsecond) // a refused connection takes a moment, too
				return nil, &net.OpError{Op: "dial", Net: network, Err: errors.New("connection refused (nothing listens on the primary port)")}
			}
			return farm.Dial(ctx, network, address)
		}
		copts = []mail.Option{mail.WithDialContextFunc(dial), mail.WithTLSPortPolicy(mail.TLSOpportunistic), mail.WithTimeout(30 * time.Second), mail.WithHELO("client.verif.example")}
	}
	if c.Queue {
		copts = append(copts, mail.WithTimeout(3*time.Second))
	}
	var callerCfg *tls.Config
	if c.StartTLS {
		callerCfg = &tls.Config{InsecureSkipVerify: true, MinVersion: tls.VersionTLS12} // names no server; verification is not what this check is about
		copts = append(copts, mail.WithTLSPolicy(mail.TLSMandatory), mail.WithTLSConfig(callerCfg))
	}
	if c.Auth != "" {
		copts = append(copts, mail.WithSMTPAuth(authTypeNoEnc(c.Auth)), mail.WithUsername("c13user"), mail.WithPassword("c13-secret-pass"))
	}
	logSink := &lockedBuf{}
	if c.DebugLog {
		copts = append(copts, mail.WithDebugLog(), mail.WithLogger(log.New(logSink, log.LevelDebug)))
	}
	cl, err := mail.NewClient(netHost, copts...)
	if err != nil {
		add("harness", err.Error(), "")
		return rep
	}
	// messages
	var msgs [][]*c13Msg
	env := &gen.Env{Yield: func() {
		if atomic.AddInt64(&yieldCtr, 1)%3 == 0 {
			time.Sleep(20 * time.Microsecond)
		} else {
			runtime.Gosched()
		}
	}}
	all := map[string]*c13Msg{}
	for g := 0; g < c.G; g++ {
		n := 1 + rng.Intn(3)
		var ms []*c13Msg
		for k := 0; k < n; k++ {
			id := fmt.Sprintf("c13-%d-%d-%d", c.Rep, g, k)
			size := gen.Pick(rng, []int{100, 100, 2000, 5000, 20000, 60000})
			if rng.Intn(40) == 0 {
				size = 300000
			}
			if c.Queue {
				size = 400
			}
			body := bytes.Repeat([]byte(fmt.Sprintf("line of message %s\r\n", id)), size/30+1)
			spec := gen.MsgSpec{ID: id, Enc: gen.Pick(rng, []string{"quoted-printable", "base64", "8bit"}), Subject: "c13 " + id,
				From:  gen.AddrSpec{Addr: fmt.Sprintf("m%d.%d@sender.example", g, k)},
				To:    []gen.AddrSpec{{Addr: fmt.Sprintf("r%d.%d.a@rcpt.example", g, k)}, {Addr: fmt.Sprintf("r%d.%d.b@rcpt.example", g, k)}},
				Parts: []gen.PartSpec{{Type: "text/plain", Content: body}}}
			if rng.Intn(3) == 0 {
				spec.Parts[0].Via = "writer"
				spec.Parts[0].Chunk = gen.Pick(rng, []int{57, 500, 4096})
			}
			if rng.Intn(3) == 0 {
				spec.Attach = []gen.FileSpec{{Name: "a.bin", Content: body[:len(body)/4], Source: gen.Pick(rng, []string{"reader", "readseeker", "writer"}), Chunk: 1000}}
			}
			fromMbox, rcptMbox := spec.From.Addr, []string{spec.To[0].Addr, spec.To[1].Addr}
			if rng.Intn(3) == 0 {
				// envelope addresses whose local part has to be quoted on the wire, different for every message
				spec.From.Addr = fmt.Sprintf("\"order desk %d.%d\"@sender.example", g, k)
				fromMbox = fmt.Sprintf("order desk %d.%d@sender.example", g, k)
				spec.To[0].Addr = fmt.Sprintf("\"r %d,%d;a\"@rcpt.example", g, k)
				rcptMbox[0] = fmt.Sprintf("r %d,%d;a@rcpt.example", g, k)
			}
			doomed := false
			if c.Refused && rng.Intn(3) == 0 {
				doomed = true
				spec.To[1].Addr = fmt.Sprintf("nobody%d.%d.b@refused.example", g, k)
				rcptMbox[1] = spec.To[1].Addr
				if rng.Intn(3) != 0 {
					spec.To[0].Addr = fmt.Sprintf("nobody%d.%d.a@refused.example", g, k)
					rcptMbox[0] = spec.To[0].Addr
				}
			}
			if c.SMIME && rng.Intn(2) == 0 {
				// signed with SignWithTLSCertificate: every signed message of the process shares one *tls.Certificate
				spec.SMIME, spec.SignVia, spec.WithInt = gen.Pick(rng, []string{"rsa", "ecdsa"}), "tlscert", rng.Intn(2) == 0
				if spec.Enc == "8bit" {
					spec.Enc = "quoted-printable"
				}
			}
			m, err := spec.Build(env)
			if err != nil {
				add("harness", "build: "+err.Error(), "")
				return rep
			}
			cm := &c13Msg{signed: spec.SMIME != "", keyType: spec.SMIME, withInt: spec.WithInt, id: id, g: g, k: k, msg: m, from: fromMbox, rcpts: rcptMbox, doomed: doomed}
			ms = append(ms, cm)
			all[id] = cm
		}
		msgs = append(msgs, ms)
	}
	rep.Messages = len(all)
	var poison *mail.Msg
	if c.DeadConn {
		ps := gen.MsgSpec{ID: "c13-poison", Enc: "quoted-printable", Subject: "c13 poison", From: gen.AddrSpec{Addr: "poison@sender.example"},
			To: []gen.AddrSpec{{Addr: "poison@rcpt.example"}}, Parts: []gen.PartSpec{{Type: "text/plain", Content: []byte("never rendered\r\n")}}, SMIME: "ed25519-unsupported"}
		pm, err := ps.Build(env)
		if err != nil {
			add("harness", "build poison: "+err.Error(), "")
			return rep
		}
		poison = pm
	}
	if c.Mode != "dialandsend" {
		ctx, cancel := context.WithTimeout(context.Background(), 20*time.Second)
		err := cl.DialWithContext(ctx)
		cancel()
		if err != nil {
			add("harness", "dial: "+err.Error(), "")
			return rep
		}
	}
	ops := make([]c13Op, c.G)
	var wg sync.WaitGroup
	start := make(chan struct{})
	for g := 0; g < c.G; g++ {
		wg.Add(1)
		go func(g int) {
			defer wg.Done()
			var ms []*mail.Msg
			op := &ops[g]
			op.g = g
			for _, m := range msgs[g] {
				ms = append(ms, m.msg)
				op.ids = append(op.ids, m.id)
			}
			op.shared = c.Mode == "shared" || (c.Mode == "mixed" && g%2 == 0)
			for _, m := range msgs[g] {
				m.shared = op.shared
			}
			if poison != nil && g == 0 {
				ms = append([]*mail.Msg{poison}, ms...)
			}
			<-start
			op.call = faultio.Tick()
			if op.shared {
				op.err = cl.Send(ms...)
			} else {
				op.err = cl.DialAndSend(ms...)
			}
			op.ret = faultio.Tick()
		}(g)
	}
	done := make(chan struct{})
	go func() { wg.Wait(); close(done) }()
	close(start)
	select {
	case <-done:
	case <-time.After(120 * time.Second):
		// every connection is closed now: network reads and writes return at once, only a wait that does not depend
		// on the peer can keep a call from returning
		farm.Shutdown()
		select {
		case <-done:
			rep.Inconclusive = append(rep.Inconclusive, "sends did not finish within 120 s (they returned once the server side was closed)")
		case <-time.After(30 * time.Second):
			buf := make([]byte, 1<<20)
			buf = buf[:runtime.Stack(buf, true)]
			waits := 0
			for _, gr := range strings.Split(string(buf), "\n\n") {
				if strings.Contains(gr, "go-mail.(*Client)") && (strings.Contains(gr, "sync.(*RWMutex).RLock") || strings.Contains(gr, "sync.(*RWMutex).Lock") || strings.Contains(gr, "sync.(*Mutex).Lock")) {
					waits++
				}
			}
			if waits > 0 {
				add("calls-never-return:lock-wait", fmt.Sprintf("%d goroutines are still inside Send/DialAndSend 30 s after every connection was closed, all waiting for a lock of the Client", waits), string(buf))
			} else {
				rep.Inconclusive = append(rep.Inconclusive, "sends did not finish within 150 s and are not waiting for a lock")
			}
		}
		return rep
	}
	if c.Mode != "dialandsend" {
		_ = cl.Close()
	}
	farm.Shutdown()
	sessions, _ := farm.Snapshot()
	rep.Connections = len(sessions)
	// expected renderings after all sends returned
	expect := map[string][]byte{}
	for id, m := range all {
		var b bytes.Buffer
		if _, err := m.msg.WriteTo(&b); err != nil {
			add("harness", "render after send: "+err.Error(), "")
			return rep
		}
		e := b.Bytes()
		if !bytes.HasSuffix(e, []byte("\r\n")) {
			e = append(e, '\r', '\n')
		}
		expect[id] = e
	}
	committed := map[string]int{}
	type pos struct {
		conn, idx int
		tick      int64
	}
	where := map[string]pos{}
	var orderParts []string
	for si, s := range sessions {
		cmds, commits, pv := s.Snapshot()
		rep.Commands += len(cmds)
		for _, v := range pv {
			code, _, _ := strings.Cut(v, ":")
			add("interleaved-transaction:"+code, "reference server automaton on connection "+fmt.Sprint(si)+": "+v, s.Transcript())
		}
		ci := 0
		for _, cm := range commits {
			if c.DeadConn && !cm.Complete && len(cm.Data) == 0 {
				continue // the DATA phase of the message that cannot be rendered: the client hung up without sending any of it
			}
			if !cm.Accepted || !cm.Complete {
				add("commit-not-accepted", fmt.Sprintf("connection %d: end-of-data not accepted/complete (code %d)", si, cm.Code), "")
				continue
			}
			rep.Commits++
			// identify by content
			id := ""
			if i := bytes.Index(cm.Data, []byte("X-Verif-Id: ")); i >= 0 {
				rest := cm.Data[i+12:]
				if j := bytes.Index(rest, []byte("\r\n")); j >= 0 {
					id = string(rest[:j])
				}
			}
			m, ok := all[id]
			if !ok {
				add("commit-unknown-message", fmt.Sprintf("connection %d commit %d carries no known message id (%q)", si, ci, id), ev.Q(cm.Data, 400))
				continue
			}
			if m.signed {
				// outer boundary and signature legitimately differ per render: the signature must verify and the signed
				// entity must be the one of the message's own rendering
				rep.SignedCommits++
				if _, probs := verifySigned(cm.Data, m.withInt, m.keyType); len(hardProblems(probs)) > 0 {
					add("commit-signature-broken", fmt.Sprintf("signed message %s was committed in a form whose signature does not verify: %v", id, hardProblems(probs)), ev.Q(cm.Data, 600))
				} else {
					got, e1 := smimeView(cm.Data)
					want, e2 := smimeView(expect[id])
					if e1 != nil || e2 != nil || !bytes.Equal(got, want) {
						add("commit-content-differs", fmt.Sprintf("signed message %s: header or signed entity differ from its rendering (%v %v)", id, e1, e2), "")
					}
				}
			} else if !bytes.Equal(cm.Data, expect[id]) {
				d := firstDiff(cm.Data, expect[id])
				add("commit-content-differs", fmt.Sprintf("message %s committed with content that differs from its rendering at offset %d (%d vs %d bytes)", id, d, len(cm.Data), len(expect[id])), ev.Q(window(cm.Data, d), 200)+" vs "+ev.Q(window(expect[id], d), 200))
			}
			if cm.From != m.from || strings.Join(cm.Rcpts, ",") != strings.Join(m.rcpts, ",") {
				add("commit-wrong-envelope", fmt.Sprintf("message %s committed under envelope %s -> %v, its own is %s -> %v", id, cm.From, cm.Rcpts, m.from, m.rcpts), "")
			}
			committed[id]++
			where[id] = pos{si, ci, cm.Tick}
			orderParts = append(orderParts, fmt.Sprintf("%d:%s", si, id))
			ci++
		}
	}
	rep.CommitOrder = strings.Join(orderParts, " ")
	for id, m := range all {
		if m.doomed {
			if committed[id] != 0 {
				add("refused-message-committed", fmt.Sprintf("message %s, whose recipients the server refused, was committed %d times", id, committed[id]), "")
			}
			if m.msg.IsDelivered() {
				add("refused-message-reported-delivered", fmt.Sprintf("message %s, whose recipients the server refused, reports IsDelivered()", id), "")
			}
			rep.RefusedMsgs++
			continue
		}
		if c.DeadConn && m.shared {
			// the shared connection was lost on purpose: a message may be undelivered, never delivered twice
			if committed[id] > 1 {
				add(fmt.Sprintf("delivered-%d-times", committed[id]), fmt.Sprintf("message %s was committed %d times over all connections", id, committed[id]), "")
			}
			continue
		}
		if committed[id] != 1 {
			add(fmt.Sprintf("delivered-%d-times", committed[id]), fmt.Sprintf("message %s was committed %d times over all connections", id, committed[id]), "")
		}
		if !m.msg.IsDelivered() {
			add("not-reported-delivered", fmt.Sprintf("message %s: IsDelivered() is false (send error %v)", id, m.msg.SendError()), "")
		}
	}
	for _, op := range ops {
		if c.DeadConn && op.shared {
			if op.err != nil {
				rep.SharedFailed++
			}
			continue
		}
		hasDoomed := false
		for _, id := range op.ids {
			hasDoomed = hasDoomed || all[id].doomed
		}
		if hasDoomed {
			if op.err == nil {
				add("send-returned-nil-for-refused-message", fmt.Sprintf("goroutine %d: send of %v returned nil although the server refused recipients of one of them", op.g, op.ids), "")
			}
			continue
		}
		if op.err != nil {
			add("send-returned-error", fmt.Sprintf("goroutine %d: send of %v returned %v", op.g, op.ids, op.err), "")
		}
	}
	// in-flight statistics at commit instants
	for id, p := range where {
		_ = id
		n := 0
		for _, op := range ops {
			if op.call < p.tick && p.tick < op.ret {
				n++
			}
		}
		rep.SumInFlight += n
		if n > rep.MaxInFlight {
			rep.MaxInFlight = n
		}
	}
	// porcupine: commit positions on the shared connection respect real time
	var pops []porcupine.Operation
	for _, op := range ops {
		if !op.shared {
			continue
		}
		var ps []int
		okAll := true
		for _, id := range op.ids {
			if all[id].doomed {
				continue
			}
			p, ok := where[id]
			if !ok || p.conn != 0 {
				okAll = false
				break
			}
			ps = append(ps, p.idx)
		}
		if !okAll {
			continue
		}
		pops = append(pops, porcupine.Operation{ClientId: op.g, Input: len(ps), Call: op.call, Output: ps, Return: op.ret})
	}
	rep.Ops = len(pops)
	if len(pops) > 0 {
		model := porcupine.Model{
			Init: func() interface{} { return 0 },
			Step: func(state, input, output interface{}) (bool, interface{}) {
				n := state.(int)
				k := input.(int)
				ps := output.([]int)
				for i := 0; i < k; i++ {
					if ps[i] != n+i {
						return false, state
					}
				}
				return true, n + k
			},
			Equal: func(a, b interface{}) bool { return a.(int) == b.(int) },
		}
		switch porcupine.CheckOperationsTimeout(model, pops, 60*time.Second) {
		case porcupine.Ok:
			rep.Porcupine = "ok"
		case porcupine.Illegal:
			rep.Porcupine = "illegal"
			var desc []string
			sort.Slice(pops, func(i, j int) bool { return pops[i].Call < pops[j].Call })
			for _, o := range pops {
				desc = append(desc, fmt.Sprintf("g%d call=%d ret=%d positions=%v", o.ClientId, o.Call, o.Return, o.Output))
			}
			add("commit-order-not-linearizable", "the commit log of the shared connection is not a linearization of the Send calls (a batch is not contiguous, or a Send that returned earlier was committed later)", strings.Join(desc, "\n"))
		default:
			rep.Porcupine = "unknown"
			rep.Inconclusive = append(rep.Inconclusive, "porcupine timed out")
		}
	}
	if c.StartTLS {
		c13FirstDials(c, &rep, add)
	}
	if callerCfg != nil && callerCfg.ServerName != "" {
		// not a violation by itself (the property speaks about races, which the detector judges): recorded as observation
		rep.CfgWritten = true
	}
	rep.Done = true
	return rep
}

// c13FirstDials: what a Client does once per lifetime (first use of a configuration value, lazily built state) only
// meets concurrency in its very first dial-ups. So: many short-lived Clients, each with a tls.Config of its own that
// names no server, each used by four goroutines at once for one small DialAndSend over STARTTLS.
func c13FirstDials(c c13Case, rep *c13Report, add func(key, what, obs string)) {
	rounds := 24
	for round := 0; round < rounds; round++ {
		farm := &refsmtp.Farm{NewConfig: func(int) *refsmtp.Config {
			return &refsmtp.Config{AllowUTF8: true, TLS: gen.ServerTLS(gen.TLS().Good, 0, 0), Caps: func(_ int, on bool) []string {
				if on {
					return []string{"8BITMIME"}
				}
				return []string{"8BITMIME", "STARTTLS"}
			}}
		}}
		cfg := &tls.Config{InsecureSkipVerify: true, MinVersion: tls.VersionTLS12}
		cl, err := mail.NewClient(netHost, mail.WithDialContextFunc(farm.Dial), mail.WithTLSPolicy(mail.TLSMandatory), mail.WithTLSConfig(cfg), mail.WithTimeout(30*time.Second), mail.WithHELO("client.verif.example"))
		if err != nil {
			add("harness", "first-dials NewClient: "+err.Error(), "")
			return
		}
		const n = 4
		errs := make([]error, n)
		var wg sync.WaitGroup
		start := make(chan struct{})
		for g := 0; g < n; g++ {
			wg.Add(1)
			go func(g int) {
				defer wg.Done()
				m, _ := simpleMsg(fmt.Sprintf("c13-first-%d-%d", round, g), fmt.Sprintf("f%d@sender.example", g), []string{fmt.Sprintf("f%d@rcpt.example", g)}, "quoted-printable", "first dial-ups of a Client\r\n")
				<-start
				errs[g] = cl.DialAndSend(m)
			}(g)
		}
		close(start)
		done := make(chan struct{})
		go func() { wg.Wait(); close(done) }()
		select {
		case <-done:
		case <-time.After(60 * time.Second):
			rep.Inconclusive = append(rep.Inconclusive, "first dial-ups did not finish within 60 s")
			farm.Shutdown()
			return
		}
		farm.Shutdown()
		sessions, _ := farm.Snapshot()
		commits := 0
		for _, s := range sessions {
			_, cms, _ := s.Snapshot()
			for _, cm := range cms {
				if cm.Accepted && cm.Complete {
					commits++
				}
			}
		}
		for g, e := range errs {
			if e != nil {
				add("send-returned-error", fmt.Sprintf("first dial-ups of a Client, goroutine %d: DialAndSend returned %v", g, e), "")
			}
		}
		if commits != n {
			add(fmt.Sprintf("first-dials-delivered-%d-of-%d", commits, n), fmt.Sprintf("%d concurrent first DialAndSend calls on a fresh Client: %d messages were committed", n, commits), "")
		}
		rep.FirstDials += n
	}
}

var yieldCtr int64

// c13Child: vcheck child c13 <mode> <G> <rep> <seed>
func c13Child(args []string) int {
	if len(args) < 4 {
		return 2
	}
	var c c13Case
	c.Mode = args[0]
	fmt.Sscan(args[1], &c.G)
	fmt.Sscan(args[2], &c.Rep)
	fmt.Sscan(args[3], &c.Seed)
	if len(args) > 4 {
		c.Auth = args[4]
	}
	if len(args) > 5 {
		c.SMIME = args[5] == "smime"
	}
	if len(args) > 6 {
		c.Fallback = args[6] == "fallback"
	}
	if len(args) > 7 {
		c.DebugLog = args[7] == "debuglog"
	}
	if len(args) > 8 {
		c.DeadConn = args[8] == "deadconn"
	}
	if len(args) > 9 {
		c.StartTLS = args[9] == "starttls"
	}
	if len(args) > 10 {
		c.Refused = args[10] == "refused"
	}
	if len(args) > 11 {
		c.Queue = args[11] == "queue"
	}
	rep := c13Run(c)
	b, _ := json.Marshal(rep)
	fmt.Printf("C13REPORT %s\n", b)
	return 0
}

func runC13(r *ev.Run, rep *ev.ReplayDoc) ev.Summary {
	sum := ev.Summary{
		Rule: "G in {2,4,8,16,32,64} goroutines, each sending a batch of 1-3 distinct messages (unique ids and envelopes - a third of them with local parts that need quoting -, 100 B - 300 KB, some with producers that yield or sleep between chunks, in every third repetition about half of them S/MIME signed through SignWithTLSCertificate with one shared certificate value) through ONE mail.Client: all via Send on one established connection, all via DialAndSend, and mixed (in a quarter of the repetitions with the debug log on and one log.Stdlog value shared by all connections; in half of the DialAndSend / mixed repetitions the Client has a fallback port and nothing answers on the primary one; in some repetitions the server refuses recipients of about a third of the messages - all of them or one of two - so that those messages fail at RCPT while everybody else's are delivered); in one more kind of repetition 24 callers share one connection to a server that takes 200 ms per end-of-data while the Client timeout is 3 s, so that the queue for the connection lasts several timeouts and no single call does); the reference server adds seeded latency jitter to every reply and reads DATA slowly. Every repetition runs in its own child process built with -race. non-trivial = at least two Sends were in flight at a commit instant; distinct by commit order",
		Assumptions: []string{
			"exactly-once, envelope/content pairing and transaction contiguity are judged from the reference server's per-connection logs; expected renderings are produced after all sends returned",
			"porcupine (v1.3.0) checks that the shared connection's commit log is a linearization of the Send calls w.r.t. an append-only-log model; a checker timeout is inconclusive",
			"the race detector only reports races of schedules that actually occurred",
		},
		Floors: []ev.Floor{{Counter: "runs_completed", Min: 20}, {Counter: "commits_checked", Min: 300}, {Counter: "runs_with_concurrency", Min: 10}, {Counter: "commit_orders", Min: 10}, {Counter: "race_detector_active", Min: 1}},
	}
	exe, _ := os.Executable()
	runChild := func(c c13Case) {
		cmd := exec.Command(exe, "child", "c13", c.Mode, fmt.Sprint(c.G), fmt.Sprint(c.Rep), fmt.Sprint(c.Seed), c.Auth, map[bool]string{true: "smime", false: "plain"}[c.SMIME], map[bool]string{true: "fallback", false: "direct"}[c.Fallback], map[bool]string{true: "debuglog", false: "nolog"}[c.DebugLog], map[bool]string{true: "deadconn", false: "liveconn"}[c.DeadConn], map[bool]string{true: "starttls", false: "notls"}[c.StartTLS], map[bool]string{true: "refused", false: "allaccepted"}[c.Refused], map[bool]string{true: "queue", false: "noqueue"}[c.Queue])
		cmd.Env = os.Environ()
		var outb, errb bytes.Buffer
		cmd.Stdout, cmd.Stderr = &outb, &errb
		done := make(chan error, 1)
		if err := cmd.Start(); err != nil {
			r.HarnessError("cannot start child: " + err.Error())
			return
		}
		go func() { done <- cmd.Wait() }()
		var err error
		select {
		case err = <-done:
		case <-time.After(300 * time.Second):
			_ = cmd.Process.Kill()
			<-done
			r.Inconclusive(fmt.Sprintf("C13 child %+v exceeded 300 s", c))
			return
		}
		var cr c13Report
		got := false
		for _, line := range strings.Split(outb.String(), "\n") {
			if strings.HasPrefix(line, "C13REPORT ") && json.Unmarshal([]byte(strings.TrimPrefix(line, "C13REPORT ")), &cr) == nil {
				got = true
			}
		}
		if !got {
			st := errb.String()
			key := "process-death"
			switch {
			case strings.Contains(st, "concurrent map"):
				key = "fatal:concurrent-map-access"
			case strings.Contains(st, "fatal error"):
				key = "fatal-error"
			case strings.Contains(st, "panic:"):
				key = "panic"
			}
			r.Violate(ev.Violation{Key: key, What: fmt.Sprintf("the process running the concurrent workload died (%v)", err), Case: c, Observed: ev.Trunc(st, 4000)})
			return
		}
		for _, v := range cr.Viol {
			if v.Key == "harness" {
				r.HarnessError("C13 child: " + v.What)
				continue
			}
			r.Violate(ev.Violation{Key: v.Key, What: v.What, Case: c, Observed: v.Obs})
		}
		for _, in := range cr.Inconclusive {
			r.Inconclusive(in)
		}
		if cr.Done {
			r.Count("runs_completed", 1)
		}
		r.Count("messages_sent", int64(cr.Messages))
		r.Count("commits_checked", int64(cr.Commits))
		r.Count("signed_commits_verified", int64(cr.SignedCommits))
		r.Count("commands_observed", int64(cr.Commands))
		r.Count("connections", int64(cr.Connections))
		r.Count("porcupine_operations", int64(cr.Ops))
		if cr.Porcupine == "ok" {
			r.Count("porcupine_histories_ok", 1)
		}
		r.Max("max_sends_in_flight_at_a_commit", int64(cr.MaxInFlight))
		r.Count("sum_in_flight_at_commits", int64(cr.SumInFlight))
		if c.StartTLS {
			r.Count("runs_over_starttls_with_a_shared_tls_config", 1)
			r.Count("concurrent_first_dialups_of_fresh_clients", int64(cr.FirstDials))
			if cr.CfgWritten {
				r.Count("runs_in_which_the_callers_tls_config_was_written_to", 1)
			}
		}
		if c.Queue {
			r.Count("runs_with_a_queue_longer_than_the_timeout", 1)
		}
		if c.Refused {
			r.Count("runs_with_refused_recipients", 1)
			r.Count("messages_with_refused_recipients", int64(cr.RefusedMsgs))
		}
		if c.DeadConn {
			r.Count("runs_with_shared_connection_lost", 1)
			r.Count("send_calls_failed_after_connection_loss", int64(cr.SharedFailed))
		}
		if cr.MaxInFlight >= 2 {
			r.Count("runs_with_concurrency", 1)
		}
		r.Seen("commit_orders", cr.CommitOrder)
		if c.Auth != "" {
			r.Count("runs_with_authentication_"+c.Auth, 1)
		}
		if c.Fallback {
			r.Count("runs_through_a_fallback_port", 1)
		}
		if c.DebugLog {
			r.Count("runs_with_a_shared_debug_logger", 1)
		}
		r.Eval(cr.CommitOrder, cr.MaxInFlight >= 2)
	}
	if rep != nil {
		var c c13Case
		if err := json.Unmarshal(rep.Case, &c); err != nil {
			r.HarnessError("bad replay case: " + err.Error())
			return sum
		}
		runChild(c)
		r.CollectRaceLogs()
		return sum
	}
	reps := r.Pick(4, 60)
	var cases []c13Case
	for _, mode := range []string{"shared", "dialandsend", "mixed"} {
		for _, g := range []int{2, 4, 8, 16, 32, 64} {
			rr := reps
			if g >= 32 && !r.Thorough() {
				rr = 1
			}
			for i := 0; i < rr; i++ {
				// every other repetition authenticates at each dial-up (stateful mechanisms included)
				auth := []string{"", "LOGIN", "", "SCRAM-SHA-256", "", "PLAIN"}[(i+g)%6]
				if mode == "shared" && i%2 == 0 {
					auth = ""
				}
				// every third repetition has S/MIME signed messages among the others (one certificate value for all)
				cs := c13Case{Mode: mode, G: g, Rep: i, Seed: r.Seed, Auth: auth, SMIME: (i+g/2)%3 == 1}
				// per-call connections through a fallback port (no AUTH: the session is unencrypted and opportunistic)
				if mode != "shared" && (i+g/4)%2 == 1 {
					cs.Fallback, cs.Auth = true, ""
				}
				cs.DebugLog = (i+g/8)%4 == 2
				cases = append(cases, cs)
				if mode != "shared" && !cs.Fallback && (i+g/2)%2 == 0 {
					// the same repetition over STARTTLS with a tls.Config of the caller's that every dial-up shares
					tc := cs
					tc.StartTLS, tc.DebugLog = true, false
					cases = append(cases, tc)
				}
				if g >= 4 && g <= 16 && i%4 == 0 {
					// the same repetition with recipients the server refuses in about a third of the messages
					rc := cs
					rc.Refused, rc.SMIME, rc.DebugLog = true, false, false
					cases = append(cases, rc)
				}
				if mode == "mixed" && g >= 8 && (i == 0 || i%3 == 1) {
					// the same repetition with the shared connection lost half way
					dc := cs
					dc.DeadConn, dc.SMIME = true, false
					cases = append(cases, dc)
				}
			}
		}
	}
	// all callers share one connection to a slow server: the queue for the connection lasts several timeouts
	for i := 0; i < r.Pick(1, 6); i++ {
		cases = append(cases, c13Case{Mode: "shared", G: 24, Rep: 900 + i, Seed: r.Seed, Queue: true})
	}
	r.ParallelN(6, len(cases), func(i int) {
		runChild(cases[i])
		if i%7 == 0 {
			r.Sample(cases[i])
		}
	})
	blocks := r.CollectRaceLogs()
	sum.Extra = map[string]any{"race_report_blocks": blocks, "race_build": ev.RaceBuild()}
	_ = mrand.Int
	return sum
}
