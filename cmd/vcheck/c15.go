//go:build verif

package main

import (
	"context"
	"crypto/hmac"
	"crypto/sha1"
	"crypto/sha256"
	"encoding/base64"
	"encoding/json"
	"fmt"
	"hash"
	"strings"
	"sync"
	"time"

	mail "github.com/wneessen/go-mail"
	"github.com/wneessen/go-mail/smtp"

	"verif/internal/ev"
	"verif/internal/gen"
	"verif/internal/refsmtp"
	"verif/internal/sasl"
)

func init() { register("C15", "fault_enumeration", runC15) }

// server message alphabet
var c15Alphabet = []string{"SF", "SFn", "SFt", "SFm", "SFz", "V", "Vk", "Vx", "Vp", "Ve", "Vz", "Vw", "V0", "Vc", "Vg", "Er", "E", "J", "235", "535"}

type c15Case struct {
	Mech   string   `json:"mech"`
	TLS    string   `json:"tls"` // none | 1.2 | 1.3
	Via    string   `json:"via"` // client | direct
	Script []string `json:"script"`
	// Prior: the script of an earlier exchange, on another connection, that used the same smtp.Auth value (direct) or
	// the same mail.Client (client);
	// only the exchange that follows it is judged. What an observer of the earlier exchange knows (its server-final,
	// the length of its AuthMessage) is available to the forger of the judged one.
	Prior []string `json:"prior_exchange_with_the_same_auth_value,omitempty"`
	// SameConn (direct, with Prior): the earlier exchange runs on the SAME connection and smtp.Client, with an Auth
	// value of its own; the judged exchange is a second Auth call on that client with a fresh Auth value
	SameConn bool `json:"earlier_exchange_on_the_same_connection,omitempty"`
}

type c15Step struct {
	Sym       string `json:"sym"`
	Sent      string `json:"sent"`
	Resp      string `json:"resp,omitempty"`
	RespKind  string `json:"resp_kind"`  // client-first | client-final | ack | cancel | closed | other | none(final)
	ValidHere bool   `json:"valid_here"` // the symbol was the genuinely valid message at this point
}

type c15Trace struct {
	mu         sync.Mutex
	Steps      []c15Step
	Open       bool // script exhausted while the client was still in the exchange
	Initial    string
	authCalled bool
	calls      int
	carryFinal []byte
	carryAMLen int
}

const c15User, c15Pass = "user", "pencil"

func c15Hash(mech string) (string, func() hash.Hash) {
	if strings.Contains(mech, "256") {
		return "SHA-256", sha256.New
	}
	return "SHA-1", sha1.New
}

// c15Handler plays the script adaptively.
func c15Handler(c c15Case, tr *c15Trace) refsmtp.AuthHandler {
	return func(io refsmtp.AuthIO, mech string, initial []byte, has bool) refsmtp.Action {
		hname, hf := c15Hash(c.Mech)
		cfg := sasl.ScramConfig{Hash: hname, Plus: isPlus(c.Mech), User: c15User, Password: []byte(c15Pass), Salt: []byte("verif-salt-0123"), Iterations: 64, ServerNonce: "SrvNonce3rfcNHYJY1ZVvWVs7j"}
		if cfg.Plus {
			if st := io.Session().TLSState; st != nil {
				cfg.CBType, cfg.CBData = serverChannelBinding(st)
			}
		}
		x := sasl.NewScram(cfg)
		tr.mu.Lock()
		call := tr.calls
		tr.calls++
		script, judged := c.Script, true
		if len(c.Prior) > 0 && call == 0 {
			script, judged = c.Prior, false
		}
		tr.authCalled = tr.authCalled || judged
		prevFinal := tr.carryFinal
		carriedAMLen := tr.carryAMLen
		tr.mu.Unlock()
		haveCF := false  // a client-first of the running exchange is known
		sfValid := false // a valid server-first was sent for it
		haveFin := false // the client-final for that server-first is known
		note := func(st c15Step) {
			if !judged {
				return
			}
			tr.mu.Lock()
			tr.Steps = append(tr.Steps, st)
			tr.mu.Unlock()
		}
		lastClientFinal := ""
		lastAMLen := carriedAMLen // length of the AuthMessage the client computed last (it answered a server-first with a client-final)
		defer func() {
			// what an observer of this exchange takes along to the next one with the same Auth value
			tr.mu.Lock()
			defer tr.mu.Unlock()
			tr.carryAMLen = lastAMLen
			if haveCF && sfValid {
				if !haveFin {
					x.SetClientFinalNoProof("c=biws,r=" + x.ClientNonce + cfg.ServerNonce)
				}
				tr.carryFinal = x.ServerFinal()
			}
		}()
		consume := func(resp []byte) string {
			switch {
			case len(resp) == 0:
				return "ack"
			case strings.HasPrefix(string(resp), "n,,") || strings.HasPrefix(string(resp), "p=") || strings.HasPrefix(string(resp), "y,,"):
				if haveCF && sfValid && haveFin {
					prevFinal = x.ServerFinal() // the (valid) server-final of the exchange that is being abandoned
				} else if haveCF && sfValid {
					// abandoned after server-first: what the client would have expected had it sent its final
					x.SetClientFinalNoProof("c=biws,r=" + x.ClientNonce + cfg.ServerNonce)
					prevFinal = x.ServerFinal()
				}
				haveCF, sfValid, haveFin = false, false, false
				if x.ParseClientFirst(resp) == nil {
					haveCF = true
				}
				return "client-first"
			case strings.HasPrefix(string(resp), "c="):
				lastClientFinal = string(resp)
				lastAMLen = len(x.ClientFirstBare) + 1 + len(x.ServerFirstMsg) + 1 + len(strings.SplitN(lastClientFinal, ",p=", 2)[0])
				if sfValid {
					if ok, _ := x.VerifyClientFinal(resp); ok {
						haveFin = true
					}
				}
				return "client-final"
			}
			return "other"
		}
		if has {
			tr.mu.Lock()
			tr.Initial = string(initial)
			tr.mu.Unlock()
			consume(initial)
		}
		otherKey := sasl.ScramServerFinal
		for _, sym := range script {
			st := c15Step{Sym: sym}
			var msg []byte
			switch sym {
			case "235":
				st.RespKind = "none"
				note(st)
				return refsmtp.Action{}
			case "535":
				st.RespKind = "none"
				note(st)
				return actBadCreds
			case "E":
				msg = nil
			case "J":
				msg = []byte("hello, this is not a SCRAM message")
			case "Er": // the server-error form of the server-final message (RFC 5802, section 7): never a proof of the server
				msg = []byte("e=" + []string{"invalid-proof", "other-error", "unknown-user"}[len(c.Script)%3])
			case "SF":
				if haveCF {
					msg = x.ServerFirst()
					sfValid, haveFin = true, false
					st.ValidHere = true
				} else {
					// no client-first known: a syntactically fine server-first that cannot extend any client nonce
					msg = []byte("r=NoClientNonceYet" + cfg.ServerNonce + ",s=" + base64.StdEncoding.EncodeToString(cfg.Salt) + ",i=64")
					x.SetServerFirst(msg)
				}
			case "SFn":
				msg = []byte("r=ForeignNonceZZZZZZZZZZZZZZZZZZZZZZ" + cfg.ServerNonce + ",s=" + base64.StdEncoding.EncodeToString(cfg.Salt) + ",i=64")
				x.SetServerFirst(msg)
				sfValid = false
			case "SFt":
				n := x.ClientNonce
				if len(n) > 8 {
					n = n[:8]
				}
				msg = []byte("r=" + n + ",s=" + base64.StdEncoding.EncodeToString(cfg.Salt) + ",i=64")
				x.SetServerFirst(msg)
				sfValid = false
			case "SFm":
				msg = []byte("r=" + x.ClientNonce + cfg.ServerNonce + ",s=%%%notbase64%%%,i=many")
				x.SetServerFirst(msg)
				sfValid = false
			case "SFz":
				// correct nonce extension, iteration count 0: no key may be derivable without the password
				msg = []byte("r=" + x.ClientNonce + cfg.ServerNonce + ",s=" + base64.StdEncoding.EncodeToString(cfg.Salt) + ",i=0")
				x.SetServerFirst(msg)
				sfValid = false
			case "Vz":
				// signed with a salted password of zero octets (what a key derivation that ran zero rounds would yield)
				cfnp := strings.SplitN(lastClientFinal, ",p=", 2)[0]
				am := x.ClientFirstBare + "," + x.ServerFirstMsg + "," + cfnp
				sk := hmac.New(hf, make([]byte, hf().Size()))
				sk.Write([]byte("Server Key"))
				sg := hmac.New(hf, sk.Sum(nil))
				sg.Write([]byte(am))
				msg = []byte("v=" + base64.StdEncoding.EncodeToString(sg.Sum(nil)))
			case "Vw":
				// signed over exchange state that was overwritten with zero octets instead of being dropped: a zero key and
				// as many zero octets as the last AuthMessage had (anyone who watched the abandoned exchange knows that length)
				sk := hmac.New(hf, make([]byte, hf().Size()))
				sk.Write([]byte("Server Key"))
				sg := hmac.New(hf, sk.Sum(nil))
				sg.Write(make([]byte, lastAMLen))
				msg = []byte("v=" + base64.StdEncoding.EncodeToString(sg.Sum(nil)))
			case "V0": // a verifier without a signature
				msg = []byte("v=")
			case "Vc": // no signature, only "extensions"
				msg = []byte("v=,x=y")
			case "Vg": // the valid signature followed by bytes that are no extension (the verifier is another value then)
				msg = append(append([]byte{}, x.ServerFinal()...), []byte("AAAA")...)
			case "V":
				msg = x.ServerFinal()
				st.ValidHere = haveCF && sfValid && haveFin
			case "Vk": // right exchange, wrong key
				msg = otherKey(hname, []byte("another-password"), cfg.Salt, 64, x.AuthMessage)
			case "Vx": // right key, another exchange
				msg = otherKey(hname, []byte(c15Pass), cfg.Salt, 64, "n=user,r=otherexchange,r=otherexchangeSRV,s=c2FsdA==,i=64,c=biws,r=otherexchangeSRV")
			case "Vp": // replay: the server-final that was (or would have been) valid for the previous, abandoned exchange of this connection
				if prevFinal != nil {
					msg = prevFinal
				} else {
					msg = otherKey(hname, []byte(c15Pass), cfg.Salt, 64, "n=user,r=neverhappened,r=neverhappenedSRV,s=c2FsdA==,i=64,c=biws,r=neverhappenedSRV")
				}
			case "Ve": // computed over empty client state: HMAC(HMAC(nil,"Server Key"), "")
				k := hmac.New(hf, nil)
				k.Write([]byte("Server Key"))
				s := hmac.New(hf, k.Sum(nil))
				msg = []byte("v=" + base64.StdEncoding.EncodeToString(s.Sum(nil)))
			}
			st.Sent = string(msg)
			resp, cancel, err := io.Challenge(msg)
			switch {
			case err != nil:
				st.RespKind = "closed"
				note(st)
				return refsmtp.Action{Kind: refsmtp.Drop}
			case cancel:
				st.RespKind = "cancel"
				note(st)
				return actAborted
			}
			st.Resp = string(resp)
			st.RespKind = consume(resp)
			note(st)
		}
		if judged {
			tr.mu.Lock()
			tr.Open = true
			tr.mu.Unlock()
		}
		return actBadCreds
	}
}

func c15FirstDeviation(script []string) string {
	honest := []string{"E", "SF", "V", "235"}
	for i, s := range script {
		if i >= len(honest) {
			return s + "@after-235"
		}
		if s != honest[i] {
			return s + "@expect-" + honest[i]
		}
	}
	return "none"
}

func runC15Case(r *ev.Run, c c15Case) (open bool) {
	viol := func(key, what string, obs any) {
		r.Violate(ev.Violation{Key: key, What: what, Case: c, Observed: obs})
	}
	tr := &c15Trace{}
	tm := gen.TLS()
	farm := &refsmtp.Farm{NewConfig: func(int) *refsmtp.Config {
		sc := &refsmtp.Config{AllowUTF8: true, Auth: c15Handler(c, tr)}
		caps := []string{"AUTH " + c.Mech}
		if c.TLS != "none" {
			sc.TLS = gen.ServerTLS(tm.Good, tlsVer(c.TLS), tlsVer(c.TLS))
			sc.Caps = func(_ int, on bool) []string {
				if on {
					return caps
				}
				return []string{"STARTTLS"}
			}
		} else {
			sc.Caps = func(int, bool) []string { return caps }
		}
		return sc
	}}
	defer farm.Shutdown()
	var authErr error
	if c.Via == "direct" {
		conn, err := farm.Dial(context.Background(), "tcp", "")
		if err != nil {
			r.HarnessError(err.Error())
			return false
		}
		_ = conn.SetDeadline(time.Now().Add(15 * time.Second))
		sc, err := smtp.NewClient(conn, netHost)
		if err != nil {
			r.HarnessError("NewClient: " + err.Error())
			return false
		}
		var a smtp.Auth
		if strings.Contains(c.Mech, "256") {
			a = smtp.ScramSHA256Auth(c15User, c15Pass)
		} else {
			a = smtp.ScramSHA1Auth(c15User, c15Pass)
		}
		if len(c.Prior) > 0 && c.SameConn {
			var a0 smtp.Auth
			if strings.Contains(c.Mech, "256") {
				a0 = smtp.ScramSHA256Auth(c15User, c15Pass)
			} else {
				a0 = smtp.ScramSHA1Auth(c15User, c15Pass)
			}
			_ = sc.Auth(a0)
			r.Count("earlier_exchanges_on_the_same_connection", 1)
		} else if len(c.Prior) > 0 {
			_ = sc.Auth(a)
			_ = conn.Close()
			r.Count("earlier_exchanges_with_the_same_auth_value", 1)
			conn, err = farm.Dial(context.Background(), "tcp", "")
			if err != nil {
				r.HarnessError(err.Error())
				return false
			}
			_ = conn.SetDeadline(time.Now().Add(15 * time.Second))
			if sc, err = smtp.NewClient(conn, netHost); err != nil {
				r.HarnessError("NewClient: " + err.Error())
				return false
			}
		}
		authErr = sc.Auth(a)
		_ = conn.Close()
	} else {
		opts := []mail.Option{mail.WithDialContextFunc(farm.Dial), mail.WithTimeout(8 * time.Second), mail.WithHELO("client.verif.example"),
			mail.WithSMTPAuth(authTypeFor(c.Mech)), mail.WithUsername(c15User), mail.WithPassword(c15Pass)}
		if c.TLS != "none" {
			opts = append(opts, mail.WithTLSPolicy(mail.TLSMandatory), mail.WithTLSConfig(gen.ClientTLS(netHost, tlsVer(c.TLS), tlsVer(c.TLS))))
		} else {
			opts = append(opts, mail.WithTLSPolicy(mail.NoTLS))
		}
		cl, err := mail.NewClient(netHost, opts...)
		if err != nil {
			r.HarnessError(err.Error())
			return false
		}
		if len(c.Prior) > 0 {
			// an earlier dial-up of the same mail.Client (whatever it keeps between dial-ups is kept)
			pctx, pcancel := context.WithTimeout(context.Background(), 15*time.Second)
			if cl.DialWithContext(pctx) == nil {
				_ = cl.Close()
			}
			pcancel()
			r.Count("earlier_dialups_of_the_same_client", 1)
		}
		ctx, cancel := context.WithTimeout(context.Background(), 15*time.Second)
		authErr = cl.DialWithContext(ctx)
		cancel()
		if authErr == nil {
			_ = cl.Close()
		}
	}
	farm.Shutdown()
	tr.mu.Lock()
	steps := append([]c15Step(nil), tr.Steps...)
	open = tr.Open
	called := tr.authCalled
	tr.mu.Unlock()
	if !called && c.SameConn && len(c.Prior) > 0 {
		if authErr == nil {
			viol("success-without-any-exchange", "a second Auth call on a connection that has been through an exchange before returned nil although no AUTH command of it ever reached the server: no server message at all stands behind the reported success", steps)
		}
		r.Count("second_auth_calls_that_never_reached_the_server", 1)
		r.Eval(c.Mech+"|sameconn|"+strings.Join(c.Prior, ",")+"|"+strings.Join(c.Script, ","), true)
		return false
	}
	if !called {
		r.HarnessError(fmt.Sprintf("C15: AUTH never reached the server (%v) mech=%s", authErr, c.Mech))
		return false
	}
	r.Count("traces", 1)
	r.Count("server_messages_sent", int64(len(steps)))
	dev := c15FirstDeviation(c.Script)
	// walk the trace
	proofSeen := false    // a valid server-final was presented in the running exchange (after its valid server-first)
	invalidAcked := false // the client acknowledged a v= message that is not the valid one
	for i, st := range steps {
		switch st.Sym {
		case "SF", "SFn", "SFt", "SFm", "SFz", "J":
			// (an iteration count of 0 is out of range, but answering it gives nothing away as long as the key still
			// depends on the password: only the acknowledgement of a forged server-final is judged for SFz)
			if !st.ValidHere && st.RespKind == "client-final" && st.Sym != "SFz" {
				viol("continue-after-invalid-server-first:"+st.Sym, fmt.Sprintf("step %d: the client answered %s (%q) with a client-final message instead of aborting", i, st.Sym, ev.Trunc(st.Sent, 80)), steps)
			}
			if st.Sym == "J" && (st.RespKind == "client-final" || st.RespKind == "ack") {
				viol("continue-after-junk", fmt.Sprintf("step %d: the client continued the exchange after a junk challenge", i), steps)
			}
		case "Er":
			if st.RespKind == "ack" || st.RespKind == "client-final" {
				invalidAcked = true
				viol("ack-server-error-message", fmt.Sprintf("step %d: the client answered the server-error message %q with %s instead of ending the exchange with an error", i, st.Sent, st.RespKind), steps)
			}
		case "V", "Vk", "Vx", "Vp", "Ve", "Vz", "Vw", "V0", "Vc", "Vg":
			if st.RespKind == "ack" {
				if st.ValidHere {
					proofSeen = true
				} else {
					invalidAcked = true
					kind := map[string]string{"V": "ack-server-final-without-valid-exchange", "Vk": "ack-server-final-of-other-key", "Vx": "ack-server-final-of-other-exchange", "Vp": "ack-replayed-server-final-of-abandoned-exchange", "Ve": "ack-server-final-over-empty-state", "Vz": "ack-server-final-of-zero-key", "Vw": "ack-server-final-over-zeroed-state", "V0": "ack-empty-verifier", "Vc": "ack-verifier-of-extensions-only", "Vg": "ack-signature-with-trailing-bytes"}[st.Sym]
					viol(kind, fmt.Sprintf("step %d: the client acknowledged a server-final message that is not the valid one for the running exchange (%s)", i, st.Sym), steps)
				}
			} else if st.ValidHere && (st.RespKind == "cancel" || st.RespKind == "closed") {
				viol("reject-valid-server-final", fmt.Sprintf("step %d: the client rejected the valid server-final", i), steps)
			}
		}
		if st.RespKind == "client-first" {
			proofSeen = false // a new exchange starts
		}
	}
	if authErr == nil {
		r.Count("auth_success", 1)
		switch {
		case proofSeen:
			r.Count("auth_success_with_server_proof", 1)
		case invalidAcked:
			viol("success-after-invalid-server-final", "authentication reported successful after an invalid server-final was acknowledged", steps)
		case len(steps) == 0 || steps[len(steps)-1].Sym != "235":
			// the server never said 235: its last word was a challenge the client left unanswered, or a negative reply
			last := "nothing"
			if len(steps) > 0 {
				last = steps[len(steps)-1].Sym + ">" + steps[len(steps)-1].RespKind
			}
			viol("success-without-positive-final-reply", fmt.Sprintf("authentication reported successful although the server ended the exchange of %d messages without a 235 (last server message and the client's reaction: %s)", len(steps), last), steps)
		default:
			viol("accept-235-without-server-final", fmt.Sprintf("authentication reported successful although the server never presented the valid ServerSignature in this exchange (first deviation %s, script %v)", dev, c.Script), steps)
		}
	} else if proofSeen && len(steps) > 0 && steps[len(steps)-1].Sym == "235" {
		// honest success path must succeed
		viol("honest-exchange-fails", fmt.Sprintf("valid exchange ended with 235 but the client reports %v", authErr), steps)
	}
	r.Seen("first_deviations", dev)
	var ks []string
	for _, st := range steps {
		ks = append(ks, st.Sym+">"+st.RespKind)
	}
	r.Seen("distinct_traces", c.Mech+"|"+strings.Join(ks, ","))
	r.Eval(c.Mech+"|"+c.Via+"|"+strings.Join(c.Prior, ",")+"|"+strings.Join(c.Script, ","), len(c.Script) > 0 && dev != "none")
	return open
}

// c15UnusableCase: the client's password is one the SCRAM password preparation (OpaqueString) refuses, so no key can
// be derived from it. The same smtp.Auth value is used for several exchanges against a server that does not know the
// password and signs with the empty password - the only key material that does not depend on the secret.
type c15UnusableCase struct {
	Mech     string `json:"mech"`
	Pass     string `json:"pass"`
	Attempts int    `json:"attempts"`
	Via      string `json:"via"` // direct: smtp.Client.Auth with one Auth value | custom: mail.Client with WithSMTPAuthCustom
}

type c15UnusableObs struct {
	Attempt     int    `json:"attempt"`
	ClientFinal bool   `json:"client_final_sent"`
	ProofForKey string `json:"proof_verifies_for,omitempty"`
	Acked       bool   `json:"forged_server_final_acknowledged"`
	Err         string `json:"error"`
}

func runC15Unusable(r *ev.Run, c c15UnusableCase) {
	viol := func(key, what string, obs any) {
		r.Violate(ev.Violation{Key: key, What: what, Case: c, Observed: obs})
	}
	hname, _ := c15Hash(c.Mech)
	var mu sync.Mutex
	var obs []c15UnusableObs
	cur := &c15UnusableObs{}
	handler := func(io refsmtp.AuthIO, mech string, initial []byte, has bool) refsmtp.Action {
		x := sasl.NewScram(sasl.ScramConfig{Hash: hname, User: c15User, Password: []byte(""), Salt: []byte("forger-salt-01"), Iterations: 64, ServerNonce: "ForgerNonce0123456789"})
		first := initial
		if !has || len(initial) == 0 {
			resp, cancel, err := io.Challenge(nil)
			if err != nil || cancel {
				return actAborted
			}
			first = resp
		}
		if x.ParseClientFirst(first) != nil {
			return actBadCreds
		}
		resp, cancel, err := io.Challenge(x.ServerFirst())
		if err != nil {
			return refsmtp.Action{Kind: refsmtp.Drop}
		}
		if cancel {
			return actAborted
		}
		mu.Lock()
		cur.ClientFinal = strings.HasPrefix(string(resp), "c=")
		mu.Unlock()
		if ok, _ := x.VerifyClientFinal(resp); ok {
			mu.Lock()
			cur.ProofForKey = "the empty password"
			mu.Unlock()
		} else {
			x.SetClientFinalNoProof(strings.SplitN(string(resp), ",p=", 2)[0])
		}
		resp, cancel, err = io.Challenge(x.ServerFinal())
		if err != nil {
			return refsmtp.Action{Kind: refsmtp.Drop}
		}
		if cancel {
			return actAborted
		}
		mu.Lock()
		cur.Acked = len(resp) == 0
		mu.Unlock()
		return refsmtp.Action{}
	}
	farm := &refsmtp.Farm{NewConfig: func(int) *refsmtp.Config {
		return &refsmtp.Config{AllowUTF8: true, Auth: handler, Caps: func(int, bool) []string { return []string{"AUTH " + c.Mech} }}
	}}
	defer farm.Shutdown()
	var a smtp.Auth
	if strings.Contains(c.Mech, "256") {
		a = smtp.ScramSHA256Auth(c15User, c.Pass)
	} else {
		a = smtp.ScramSHA1Auth(c15User, c.Pass)
	}
	var cl *mail.Client
	if c.Via == "custom" {
		var err error
		cl, err = mail.NewClient(netHost, mail.WithDialContextFunc(farm.Dial), mail.WithTimeout(8*time.Second), mail.WithHELO("client.verif.example"), mail.WithTLSPolicy(mail.NoTLS), mail.WithSMTPAuthCustom(a))
		if err != nil {
			r.HarnessError(err.Error())
			return
		}
	}
	for at := 0; at < c.Attempts; at++ {
		mu.Lock()
		cur = &c15UnusableObs{Attempt: at + 1}
		mu.Unlock()
		var authErr error
		if c.Via == "custom" {
			ctx, cancel := context.WithTimeout(context.Background(), 15*time.Second)
			authErr = cl.DialWithContext(ctx)
			cancel()
			if authErr == nil {
				_ = cl.Close()
			}
		} else {
			conn, err := farm.Dial(context.Background(), "tcp", "")
			if err != nil {
				r.HarnessError(err.Error())
				return
			}
			_ = conn.SetDeadline(time.Now().Add(15 * time.Second))
			sc, err := smtp.NewClient(conn, netHost)
			if err != nil {
				r.HarnessError("NewClient: " + err.Error())
				return
			}
			authErr = sc.Auth(a)
			_ = conn.Close()
		}
		mu.Lock()
		o := *cur
		mu.Unlock()
		if authErr != nil {
			o.Err = authErr.Error()
		}
		obs = append(obs, o)
		r.Count("exchanges_with_unusable_password", 1)
		if o.Acked {
			viol("unusable-password:forged-server-final-acknowledged", fmt.Sprintf("attempt %d with a password the SCRAM preparation refuses (%q): the client acknowledged the server-final of a server that signs with %s", at+1, c.Pass, "the empty password"), obs)
		}
		if authErr == nil {
			viol("unusable-password:auth-success", fmt.Sprintf("attempt %d: authentication reported successful with a password no key can be derived from (%q); the server never held the password", at+1, c.Pass), obs)
		} else {
			r.Count("unusable_password_exchanges_failed", 1)
		}
	}
	r.Eval(fmt.Sprintf("unusable|%s|%q|%d|%s", c.Mech, c.Pass, c.Attempts, c.Via), true)
}

// c15WarmOtherPassword runs one honest, complete exchange per hash for the same account name, salt and iteration count
// as the explored cases, but with the password "another-password" (the account's former password, say) and an Auth
// value of its own. Whatever the client keeps from it must not help a server that only knows that password later on
// (symbol Vk).
func c15WarmOtherPassword(r *ev.Run) {
	for _, mech := range []string{"SCRAM-SHA-256", "SCRAM-SHA-1"} {
		hname, _ := c15Hash(mech)
		ok := false
		handler := func(io refsmtp.AuthIO, m string, initial []byte, has bool) refsmtp.Action {
			x := sasl.NewScram(sasl.ScramConfig{Hash: hname, User: c15User, Password: []byte("another-password"), Salt: []byte("verif-salt-0123"), Iterations: 64, ServerNonce: "WarmNonce0123456789"})
			first := initial
			if !has || len(initial) == 0 {
				resp, cancel, err := io.Challenge(nil)
				if err != nil || cancel {
					return actAborted
				}
				first = resp
			}
			if x.ParseClientFirst(first) != nil {
				return actBadCreds
			}
			resp, cancel, err := io.Challenge(x.ServerFirst())
			if err != nil || cancel {
				return actAborted
			}
			if v, _ := x.VerifyClientFinal(resp); !v {
				return actBadCreds
			}
			if _, cancel, err = io.Challenge(x.ServerFinal()); err != nil || cancel {
				return actAborted
			}
			ok = true
			return refsmtp.Action{}
		}
		farm := &refsmtp.Farm{NewConfig: func(int) *refsmtp.Config {
			return &refsmtp.Config{AllowUTF8: true, Auth: handler, Caps: func(int, bool) []string { return []string{"AUTH " + mech} }}
		}}
		conn, err := farm.Dial(context.Background(), "tcp", "")
		if err != nil {
			r.HarnessError(err.Error())
			return
		}
		_ = conn.SetDeadline(time.Now().Add(15 * time.Second))
		sc, err := smtp.NewClient(conn, netHost)
		if err == nil {
			var a smtp.Auth = smtp.ScramSHA1Auth(c15User, "another-password")
			if mech == "SCRAM-SHA-256" {
				a = smtp.ScramSHA256Auth(c15User, "another-password")
			}
			err = sc.Auth(a)
		}
		_ = conn.Close()
		farm.Shutdown()
		if err != nil || !ok {
			r.HarnessError(fmt.Sprintf("C15 warm-up exchange (%s) did not complete: %v", mech, err))
			return
		}
		r.Count("warm_up_exchanges_with_another_password", 1)
	}
}

func runC15(r *ev.Run, rep *ev.ReplayDoc) ev.Summary {
	sum := ev.Summary{
		Rule: "exhaustive adaptive server message sequences over the alphabet {valid server-first, server-first with foreign / truncated nonce, malformed server-first, server-first with iteration count 0, valid server-final, server-final signed with an all-zero key, empty verifier, verifier of extensions only, valid signature with trailing bytes, server-final of another key, of another exchange, over empty client state, server-error (e=...), empty challenge, junk, 235, 535} up to length 5 (quick: 4), explored as an execution tree (a branch is extended only while the client is still inside the exchange), for SCRAM-SHA-1, SCRAM-SHA-256 and both -PLUS variants (TLS 1.2 and 1.3), through mail.Client and directly through smtp.Client.Auth. 'valid' symbols are computed from what the client actually sent. Before the exploration the process completes one honest exchange per hash for the same account, salt and iteration count with another password (another Auth value). Plus: a second Auth call on a connection (the same smtp.Client) that has been through an exchange before - honest and successful, refused, or abandoned. Plus: exchanges longer than any honest one (3..14, thorough 3..40 harmless messages - empty challenges and valid server-first messages - before the server ends the exchange with 535, a forged or the valid server-final). Plus: passwords the SCRAM password preparation refuses, one smtp.Auth value used for three exchanges against a server that does not know the password and signs with the empty one. non-trivial = script deviates from the honest sequence; distinct by (mechanism, script)",
		Assumptions: []string{
			"the honest sequence is: empty challenge -> client-first, server-first, client-final, server-final, empty acknowledgement, 235",
			"success may only be reported if a valid server-final for the running exchange was acknowledged before the final reply",
		},
		Floors:     []ev.Floor{{Counter: "traces", Min: 300}, {Counter: "auth_success_with_server_proof", Min: 4}, {Counter: "distinct_traces", Min: 100}, {Counter: "first_deviations", Min: 20}},
		Exhaustive: true,
	}
	if err := sasl.SelfTest(); err != nil {
		r.HarnessError("sasl self-test: " + err.Error())
		return sum
	}
	c15WarmOtherPassword(r)
	if rep != nil {
		var u c15UnusableCase
		if err := json.Unmarshal(rep.Case, &u); err == nil && u.Attempts > 0 {
			runC15Unusable(r, u)
			return sum
		}
		var c c15Case
		if err := json.Unmarshal(rep.Case, &c); err != nil {
			r.HarnessError("bad replay case: " + err.Error())
			return sum
		}
		runC15Case(r, c)
		return sum
	}
	maxLen := r.Pick(5, 8)
	type root struct {
		mech, tls, via string
	}
	roots := []root{
		{"SCRAM-SHA-256", "none", "client"}, {"SCRAM-SHA-1", "none", "client"},
		{"SCRAM-SHA-256-PLUS", "1.3", "client"}, {"SCRAM-SHA-1-PLUS", "1.2", "client"},
		{"SCRAM-SHA-256", "none", "direct"},
	}
	if r.Thorough() {
		roots = append(roots, root{"SCRAM-SHA-1", "none", "direct"}, root{"SCRAM-SHA-256-PLUS", "1.2", "client"}, root{"SCRAM-SHA-1-PLUS", "1.3", "client"}, root{"SCRAM-SHA-256", "1.3", "client"})
	}
	type item struct {
		rt     root
		script []string
	}
	var level []item
	for _, rt := range roots {
		level = append(level, item{rt, nil})
	}
	for len(level) > 0 {
		var mu sync.Mutex
		var next []item
		cur := level
		r.Parallel(len(cur), func(i int) {
			it := cur[i]
			c := c15Case{Mech: it.rt.mech, TLS: it.rt.tls, Via: it.rt.via, Script: it.script}
			open := runC15Case(r, c)
			if i%211 == 0 && len(it.script) > 1 {
				r.Sample(c)
			}
			if open && len(it.script) < maxLen {
				var kids []item
				for _, s := range c15Alphabet {
					kids = append(kids, item{it.rt, append(append([]string(nil), it.script...), s)})
				}
				mu.Lock()
				next = append(next, kids...)
				mu.Unlock()
			}
		})
		level = next
	}
	// an Auth value that has been through an earlier exchange (abandoned after the server-first, ended by a bad or a
	// valid server-final): every script of up to three messages in the exchange that follows
	var pcases []c15Case
	for _, mech := range []string{"SCRAM-SHA-256", "SCRAM-SHA-1"} {
		for _, prior := range [][]string{{"E", "SF", "J"}, {"E", "SF", "Vk"}, {"E", "SF", "535"}, {"E", "SF", "V", "235"}, {"E", "SF", "E", "J"}, {"SF", "J"}} {
			for _, a := range c15Alphabet {
				pcases = append(pcases, c15Case{Mech: mech, TLS: "none", Via: "direct", Prior: prior, Script: []string{a, "235"}})
				pcases = append(pcases, c15Case{Mech: mech, TLS: "none", Via: "client", Prior: prior, Script: []string{a, "235"}})
				if a == "235" || a == "535" {
					continue
				}
				for _, b := range c15Alphabet {
					if b != "235" && b != "535" {
						pcases = append(pcases, c15Case{Mech: mech, TLS: "none", Via: "direct", Prior: prior, Script: []string{a, b, "235"}})
					}
				}
			}
		}
	}
	// a connection that has been through an exchange before (honest and successful, refused, abandoned): a second Auth
	// call on the same smtp.Client is a new exchange and is judged like any other
	for _, mech := range []string{"SCRAM-SHA-256", "SCRAM-SHA-1"} {
		for _, prior := range [][]string{{"E", "SF", "V", "235"}, {"E", "SF", "535"}, {"E", "SF", "Vk"}, {"E", "J"}} {
			for _, a := range c15Alphabet {
				pcases = append(pcases, c15Case{Mech: mech, TLS: "none", Via: "direct", Prior: prior, SameConn: true, Script: []string{a, "235"}})
			}
			pcases = append(pcases, c15Case{Mech: mech, TLS: "none", Via: "direct", Prior: prior, SameConn: true, Script: []string{"E", "SF", "V", "235"}},
				c15Case{Mech: mech, TLS: "none", Via: "direct", Prior: prior, SameConn: true, Script: []string{"E", "SF", "Vk", "235"}},
				c15Case{Mech: mech, TLS: "none", Via: "direct", Prior: prior, SameConn: true, Script: []string{"E", "SF", "535"}})
		}
	}
	r.Parallel(len(pcases), func(i int) { runC15Case(r, pcases[i]) })
	// exchanges that are longer than any honest one: the server keeps the client inside the exchange with messages that
	// are harmless one by one (the empty challenge, which the client answers with a new client-first, and valid
	// server-first messages) and only then ends it - with 535, with a forged server-final, or with the valid one and 235
	var lcases []c15Case
	for _, rt := range []root{{"SCRAM-SHA-256", "none", "direct"}, {"SCRAM-SHA-1", "none", "client"}, {"SCRAM-SHA-256-PLUS", "1.3", "client"}} {
		for n := 3; n <= r.Pick(14, 40); n++ {
			for _, shape := range []string{"pairs", "empties", "mixed"} {
				var body []string
				rng := r.Rng("c15long|"+rt.mech+"|"+shape, n)
				for len(body) < n {
					switch shape {
					case "pairs":
						body = append(body, "E", "SF")
					case "empties":
						body = append(body, "E")
					default:
						if rng.Intn(2) == 0 {
							body = append(body, "E", "SF")
						} else {
							body = append(body, "E")
						}
					}
				}
				for _, end := range [][]string{{"535"}, {"E", "SF", "Vk", "235"}, {"E", "SF", "V", "235"}, nil} {
					lcases = append(lcases, c15Case{Mech: rt.mech, TLS: rt.tls, Via: rt.via, Script: append(append([]string(nil), body...), end...)})
				}
			}
		}
	}
	r.Parallel(len(lcases), func(i int) {
		runC15Case(r, lcases[i])
		r.Count("exchanges_longer_than_honest", 1)
		r.Max("longest_exchange_messages", int64(len(lcases[i].Script)))
	})
	// passwords the SCRAM password preparation refuses, the same Auth value used for several exchanges
	var ucases []c15UnusableCase
	for _, mech := range []string{"SCRAM-SHA-256", "SCRAM-SHA-1"} {
		for _, pw := range []string{"secret\n", "\x01ctl", "tab\tinside", "line\r\nbreak", "", "del\x7f"} {
			for _, via := range []string{"direct", "custom"} {
				ucases = append(ucases, c15UnusableCase{Mech: mech, Pass: pw, Attempts: 3, Via: via})
			}
		}
	}
	r.Parallel(len(ucases), func(i int) { runC15Unusable(r, ucases[i]) })
	return sum
}
