//go:build verif

package main

import (
	"bytes"
	"context"
	"crypto/rand"
	"crypto/tls"
	"encoding/base64"
	"encoding/hex"
	"encoding/json"
	"fmt"
	"hash/fnv"
	"net"
	"os"
	"path/filepath"
	"regexp"
	"strings"
	"sync"
	"time"

	mail "github.com/wneessen/go-mail"
	"github.com/wneessen/go-mail/smtp"

	"verif/internal/ev"
	"verif/internal/faultio"
	"verif/internal/gen"
	"verif/internal/refsmtp"
)

func init() { register("C07", "fault_enumeration", runC07) }

type c07Case struct {
	Policy    string `json:"policy"`    // mandatory | opportunistic | none | implicit
	AuthType  string `json:"auth_type"` // one of the 13 SMTPAuthType values
	Host      string `json:"host"`      // localhost | 127.0.0.1 | 127.0.0.2
	StartTLS  bool   `json:"starttls_advertised"`
	Reply     string `json:"starttls_reply"` // 220 | 4yz | 5yz | garbage
	Handshake string `json:"handshake"`      // ok | wrongname | untrusted | garbage
	AuthList  string `json:"auth_list"`      // advertised AUTH mechanisms ("" = no AUTH)
	// PlainServer (implicit policies only): the peer on that port is a clear-text SMTP server that greets first;
	// a client doing implicit TLS sends it a ClientHello and nothing else
	PlainServer bool `json:"plain_server,omitempty"`
	// StaleCustom: a custom smtp.Auth that reveals the password on unencrypted connections (PLAIN with allowUnenc) is
	// configured first and then replaced by the auth type of the case: "option" = WithSMTPAuthCustom followed by
	// WithSMTPAuth, "setter" = SetSMTPAuthCustom followed by SetSMTPAuth. The later choice is the caller's choice.
	StaleCustom string `json:"stale_custom_auth,omitempty"`
}

var c07AuthTypes = []string{"NOAUTH", "PLAIN", "PLAIN-NOENC", "LOGIN", "LOGIN-NOENC", "CRAM-MD5", "XOAUTH2", "SCRAM-SHA-1", "SCRAM-SHA-1-PLUS", "SCRAM-SHA-256", "SCRAM-SHA-256-PLUS", "AUTODISCOVER", "CUSTOM"}
var c07AuthLists = []string{"PLAIN LOGIN", "CRAM-MD5 SCRAM-SHA-1 SCRAM-SHA-256 PLAIN LOGIN XOAUTH2 SCRAM-SHA-1-PLUS SCRAM-SHA-256-PLUS VERIF-CUSTOM", "LOGIN PLAIN", ""}

// verifCustomAuth is the harness' own mechanism for SMTPAuthCustom: it carries no password.
type verifCustomAuth struct{}

func (verifCustomAuth) Start(*smtp.ServerInfo) (string, []byte, error) {
	return "VERIF-CUSTOM", []byte("no-secret-here"), nil
}
func (verifCustomAuth) Next([]byte, bool) ([]byte, error) { return nil, nil }

var clearCmdRe = regexp.MustCompile(`(?i)(?:^|\r\n)(EHLO |HELO |MAIL FROM:|RCPT TO:|AUTH [A-Z0-9-]+|DATA\r\n|RSET\r\n)`)

// stripTLSRecords removes well-formed TLS records from the front of b and returns what is left.
func stripTLSRecords(b []byte) (rest []byte, records int) {
	for len(b) >= 5 && b[0] >= 20 && b[0] <= 23 && b[1] == 3 && b[2] <= 4 {
		l := int(b[3])<<8 | int(b[4])
		if l > 16384+2048 {
			break
		}
		records++
		if 5+l >= len(b) {
			return nil, records // last (possibly truncated) record
		}
		b = b[5+l:]
	}
	return b, records
}

var fallbackMu sync.Mutex

var b64TokenRe = regexp.MustCompile(`[A-Za-z0-9+/]{8,}={0,2}`)

func runC07Case(r *ev.Run, c c07Case) {
	viol := func(key, what string, obs any) {
		r.Violate(ev.Violation{Key: key, What: what, Case: c, Observed: obs})
	}
	var rb [12]byte
	_, _ = rand.Read(rb[:])
	user := "u" + hex.EncodeToString(rb[:4])
	pass := "Pw" + base64.RawURLEncoding.EncodeToString(rb[:]) // 18 chars, unique per session
	tm := gen.TLS()
	a := &authSrv{User: user, Pass: pass, Iter: 64, Salt: []byte("c07salt")}
	cfg := &refsmtp.Config{AllowUTF8: true}
	switch c.Handshake {
	case "wrongname":
		cfg.TLS = gen.ServerTLS(tm.WrongName, 0, 0)
	case "untrusted":
		cfg.TLS = gen.ServerTLS(tm.Untrusted, 0, 0)
	case "garbage":
		cfg.TLS = gen.ServerTLS(tm.Good, 0, 0)
		cfg.TLSGarbage = true
	default:
		cfg.TLS = gen.ServerTLS(tm.Good, 0, 0)
	}
	cfg.Caps = func(_ int, tlsOn bool) []string {
		caps := []string{"8BITMIME"}
		if c.StartTLS && !tlsOn {
			caps = append(caps, "STARTTLS")
		}
		if c.AuthList != "" {
			caps = append(caps, "AUTH "+c.AuthList)
		}
		return caps
	}
	inner := a.handler()
	cfg.Auth = func(io refsmtp.AuthIO, mech string, initial []byte, has bool) refsmtp.Action {
		if mech == "VERIF-CUSTOM" {
			return refsmtp.Action{}
		}
		return inner(io, mech, initial, has)
	}
	cfg.Decide = func(st refsmtp.Step) refsmtp.Action {
		if st.Verb != "STARTTLS" {
			return refsmtp.Action{}
		}
		switch c.Reply {
		case "4yz":
			return refsmtp.Action{Kind: refsmtp.Reply, Code: 454, Text: "4.7.0 TLS not available due to temporary reason"}
		case "5yz":
			return refsmtp.Action{Kind: refsmtp.Reply, Code: 502, Text: "5.5.1 STARTTLS not implemented"}
		case "garbage":
			return refsmtp.Action{Kind: refsmtp.Raw, Text: "@@@ this is not an SMTP reply @@@\r\n"}
		}
		return refsmtp.Action{}
	}
	ip := c.Host
	if ip == "localhost" {
		ip = "127.0.0.1"
	}
	listenAddr := ip + ":0"
	if c.Policy == "implicit-fallback" {
		// WithSSLPort(true): port 465 with fallback to port 25 - both fixed by the API. Nothing listens on
		// 465, the reference server (speaking implicit TLS) sits on the fallback port.
		fallbackMu.Lock()
		defer fallbackMu.Unlock()
		listenAddr = ip + ":25"
	}
	network, hostArg, tlsName := "tcp", c.Host, c.Host
	if c.Host == "unix" {
		// a UNIX domain socket ("unix:///path" as host): no localhost name, the TLS policy holds as for every other host
		dir, derr := os.MkdirTemp("", "verif-c07-")
		if derr != nil {
			r.HarnessError("mkdtemp: " + derr.Error())
			return
		}
		defer os.RemoveAll(dir)
		network, listenAddr = "unix", filepath.Join(dir, "smtp.sock")
		hostArg, tlsName = "unix://"+listenAddr, "localhost"
	}
	ln, err := net.Listen(network, listenAddr)
	if err != nil {
		if c.Policy == "implicit-fallback" {
			r.Count("fallback_port_25_unavailable", 1)
			return
		}
		r.HarnessError("listen: " + err.Error())
		return
	}
	port := 25
	if ta, ok := ln.Addr().(*net.TCPAddr); ok {
		port = ta.Port
	}
	sessCh := make(chan *refsmtp.Session, 1)
	go func() {
		conn, err := ln.Accept()
		_ = ln.Close()
		if err != nil {
			close(sessCh)
			return
		}
		if strings.HasPrefix(c.Policy, "implicit") && !c.PlainServer {
			sessCh <- refsmtp.ServeImplicitTLS(conn, cfg, 0)
		} else {
			sessCh <- refsmtp.Serve(conn, cfg, 0)
		}
	}()
	opts := []mail.Option{mail.WithPort(port), mail.WithTimeout(3 * time.Second), mail.WithHELO("client.verif.example"),
		mail.WithTLSConfig(gen.ClientTLS(tlsName, 0, 0)), mail.WithUsername(user), mail.WithPassword(pass)}
	switch c.Policy {
	case "mandatory":
		opts = append(opts, mail.WithTLSPolicy(mail.TLSMandatory))
	case "opportunistic":
		opts = append(opts, mail.WithTLSPolicy(mail.TLSOpportunistic))
	case "none":
		opts = append(opts, mail.WithTLSPolicy(mail.NoTLS))
	case "implicit":
		opts = append(opts, mail.WithSSL())
	case "implicit-then-notls", "implicit-then-setnotls":
		// implicit TLS first, the STARTTLS policy NoTLS afterwards ("SSL on 465, no STARTTLS"): still implicit TLS
		opts = append(opts, mail.WithSSL())
		if c.Policy == "implicit-then-notls" {
			opts = append(opts, mail.WithTLSPolicy(mail.NoTLS))
		}
	case "implicit-sslport", "implicit-setsslport":
		// implicit TLS requested through WithSSLPort / SetSSLPort on a Client whose port has been set explicitly before
		if c.Policy == "implicit-sslport" {
			opts = append(opts, mail.WithSSLPort(false))
		}
	case "implicit-fallback":
		opts = opts[1:] // no WithPort: the API derives 465 / fallback 25 only from the default port
		opts = append(opts, mail.WithSSLPort(true))
	}
	if c.StaleCustom == "option" {
		opts = append(opts, mail.WithSMTPAuthCustom(smtp.PlainAuth("", user, pass, c.Host, true)))
	}
	if c.AuthType == "CUSTOM" {
		opts = append(opts, mail.WithSMTPAuthCustom(verifCustomAuth{}))
	} else if c.StaleCustom == "setter" {
		// the type is chosen by the setter below
	} else {
		opts = append(opts, mail.WithSMTPAuth(mail.SMTPAuthType(c.AuthType)))
	}
	cl, err := mail.NewClient(hostArg, opts...)
	if err != nil {
		_ = ln.Close()
		r.HarnessError("C07 NewClient: " + err.Error())
		return
	}
	if c.StaleCustom == "setter" {
		cl.SetSMTPAuthCustom(smtp.LoginAuth(user, pass, c.Host, true))
		cl.SetSMTPAuth(mail.SMTPAuthType(c.AuthType))
	}
	if c.StaleCustom != "" {
		r.Count("sessions_after_a_replaced_custom_auth", 1)
	}
	if c.Policy == "implicit-setsslport" {
		cl.SetSSLPort(true, false)
	}
	if c.Policy == "implicit-then-setnotls" {
		cl.SetTLSPolicy(mail.NoTLS)
	}
	var dialErr error
	if c.Policy == "quicksend" {
		// the all-in-one entry point: opportunistic TLS, auto-discovery when credentials are given; it takes no
		// tls.Config, so the harness CA has been made the process's system root store
		var ad *mail.AuthData
		if c.AuthType == "AUTODISCOVER" {
			ad = mail.NewAuthData(user, pass)
		}
		_, dialErr = mail.QuickSend(net.JoinHostPort(c.Host, fmt.Sprint(port)), ad, "sender@verif.example", []string{"rcpt@verif.example"},
			"c07 quick", []byte("confidential body "+pass[:4]+"\r\n"))
		r.Count("quicksend_sessions", 1)
	} else {
		msg, _ := simpleMsg("c07", "sender@verif.example", []string{"rcpt@verif.example"}, "quoted-printable", "confidential body "+pass[:4]+"\r\n")
		ctx, cancel := context.WithTimeout(context.Background(), 10*time.Second)
		dialErr = cl.DialAndSendWithContext(ctx, msg)
		cancel()
	}
	var sess *refsmtp.Session
	select {
	case sess = <-sessCh:
	case <-time.After(3 * time.Second):
	}
	_ = ln.Close()
	if sess == nil {
		r.Count("cases_without_session", 1)
		return
	}
	select {
	case <-sess.Done:
	case <-time.After(3 * time.Second):
		sess.Stop()
		<-sess.Done
	}
	r.Count("sessions", 1)
	if c.Host == "unix" {
		r.Count("sessions_over_a_unix_domain_socket", 1)
	}
	clear := sess.Clear()
	if strings.HasPrefix(c.Policy, "implicit") {
		clear = nil
	}
	cmds, commits, _ := sess.Snapshot()
	_ = commits
	encrypted := sess.TLSOK
	if encrypted {
		r.Count("sessions_encrypted", 1)
	}
	if dialErr == nil {
		r.Count("sessions_delivered", 1)
	}
	// cleartext command lines
	var clearLines []string
	for _, l := range strings.Split(string(clear), "\r\n") {
		if l != "" {
			clearLines = append(clearLines, l)
		}
	}
	r.Count("cleartext_lines_scanned", int64(len(clearLines)))
	cfgKey := fmt.Sprintf("%s:starttls=%t:reply=%s:hs=%s", c.Policy, c.StartTLS, c.Reply, c.Handshake)
	switch c.Policy {
	case "mandatory":
		for _, l := range clearLines {
			up := strings.ToUpper(l)
			ok := strings.HasPrefix(up, "EHLO ") || strings.HasPrefix(up, "HELO ") || up == "STARTTLS" || up == "QUIT"
			if !ok {
				verb := strings.SplitN(up, " ", 2)[0]
				viol("mandatory-cleartext-command:"+verb+":"+cfgKey, fmt.Sprintf("with mandatory TLS the client sent %q in clear", ev.Trunc(l, 80)), clearLines)
			}
		}
		if dialErr == nil && !encrypted {
			viol("mandatory-delivered-unencrypted:"+cfgKey, "message delivered although no TLS handshake completed", clearLines)
		}
	case "implicit", "implicit-fallback", "implicit-sslport", "implicit-setsslport", "implicit-then-notls", "implicit-then-setnotls":
		if c.Policy == "implicit-fallback" {
			r.Count("implicit_sessions_on_fallback_port", 1)
		}
		sessRaw := sess.RawBytes
		if c.PlainServer {
			sessRaw = sess.Clear() // what the clear-text server received
			r.Count("implicit_tls_clients_against_cleartext_servers", 1)
		}
		if len(sessRaw) > 0 && sessRaw[0] != 0x16 {
			viol("implicit-first-byte", fmt.Sprintf("with implicit TLS the first byte on the wire is %#x, not a TLS handshake record", sessRaw[0]), ev.Q(sessRaw, 100))
		}
		// everything on the wire must be TLS records; whatever is left after stripping them is cleartext
		if rest, n := stripTLSRecords(sessRaw); len(rest) > 0 {
			viol("implicit-cleartext", fmt.Sprintf("%d bytes on an implicit TLS connection are not TLS records (after %d records)", len(rest), n), ev.Q(rest, 300))
		} else {
			r.Count("tls_records_on_implicit_connections", int64(n))
		}
	}
	// after a failed handshake: no application data
	if c.Handshake != "ok" && (sess.TLSStarted || strings.HasPrefix(c.Policy, "implicit")) {
		if sess.PostTLSAppData > 0 {
			viol("appdata-after-bad-handshake:"+c.Handshake, fmt.Sprintf("the server decrypted %d bytes of application data although its certificate is %s", sess.PostTLSAppData, c.Handshake), nil)
		}
		// what the client still sends may only be TLS records (hello, alerts); the remainder is searched
		// for command lines (the records themselves are binary and may contain any byte pattern)
		pf, _ := stripTLSRecords(sess.PostFailBytes)
		if m := clearCmdRe.Find(pf); m != nil {
			viol("plaintext-after-failed-handshake:"+c.Handshake, fmt.Sprintf("after the failed handshake the client sent %q in clear", m), ev.Q(pf, 300))
		}
		if dialErr == nil {
			viol("delivered-after-bad-handshake:"+c.Handshake+":"+c.Policy, "DialAndSend succeeded although the TLS handshake could not be completed with a valid certificate", nil)
		}
		r.Count("bad_handshakes_observed", 1)
	}
	// credential confidentiality under every policy
	localhost := c.Host == "localhost" || c.Host == "127.0.0.1"
	exempt := c.AuthType == "PLAIN-NOENC" || c.AuthType == "LOGIN-NOENC" || localhost
	allClear := append([]byte{}, clear...)
	allClear = append(allClear, sess.PostFailBytes...)
	found := ""
	for form, v := range secretForms(pass) {
		if bytes.Contains(allClear, []byte(v)) {
			found = form
		}
	}
	for _, tok := range b64TokenRe.FindAll(allClear, -1) {
		if dec, err := base64.StdEncoding.DecodeString(string(tok)); err == nil && bytes.Contains(dec, []byte(pass)) {
			found = "inside a base64 SASL message"
		}
	}
	clearMech := ""
	for _, cr := range cmds {
		if cr.Verb == "AUTH" && !cr.TLS && cr.Parsed != nil {
			clearMech = cr.Parsed.Arg
		}
	}
	if found != "" && clearMech != "PLAIN" && clearMech != "LOGIN" {
		// the property speaks about PLAIN and LOGIN passwords; a bearer token sent with XOAUTH2 under
		// a NoTLS policy is the caller's explicit choice
		r.Count("other_secret_in_clear_not_judged", 1)
		found = ""
	}
	if found != "" {
		r.Count("password_seen_in_clear", 1)
		if !exempt {
			viol("password-in-clear:"+c.AuthType+":"+cfgKey, fmt.Sprintf("the password left the process unencrypted (%s) although the auth type is %s and the host %s is not a localhost name", found, c.AuthType, c.Host), clearLines)
		} else {
			r.Count("password_in_clear_permitted", 1)
		}
	}
	// autodiscover never picks a password-revealing mechanism on an unencrypted connection
	if c.AuthType == "AUTODISCOVER" {
		for _, cr := range cmds {
			if cr.Verb == "AUTH" && !cr.TLS && cr.Parsed != nil {
				m := cr.Parsed.Arg
				if !(strings.HasPrefix(m, "SCRAM-") || m == "CRAM-MD5") {
					viol("autodiscover-unencrypted:"+m, fmt.Sprintf("auto-discovery selected %s on an unencrypted connection", m), nil)
				}
				r.Count("autodiscover_unencrypted_auth", 1)
			}
		}
	}
	r.Seen("policies_x_behaviour", cfgKey)
	r.Eval(fmt.Sprintf("%+v", c), true)
}

// c07SeqCase: the policy of a live Client is tightened. Dial under FirstPolicy, SetTLSPolicy(TLSMandatory), dial again
// without closing, send when that dial succeeded. After the policy change nothing but EHLO/HELO, STARTTLS and QUIT may
// travel in clear on any connection.
type c07SeqCase struct {
	FirstPolicy string `json:"first_policy"` // none | opportunistic
	StartTLS    bool   `json:"starttls_advertised"`
	Host        string `json:"host"`
	CloseFirst  bool   `json:"close_before_second_dial,omitempty"`
	Seq         bool   `json:"sequence_case"`
	// Change: what is tightened between the two dials: "" = SetTLSPolicy(TLSMandatory), "setssl" = SetSSL(true)
	// (implicit TLS: nothing at all may then be sent in clear)
	Change string `json:"change,omitempty"`
}

func runC07Seq(r *ev.Run, c c07SeqCase) {
	viol := func(key, what string, obs any) {
		r.Violate(ev.Violation{Key: key, What: what, Case: c, Observed: obs})
	}
	tm := gen.TLS()
	ip := c.Host
	if ip == "localhost" {
		ip = "127.0.0.1"
	}
	ln, err := net.Listen("tcp", ip+":0")
	if err != nil {
		r.HarnessError("listen: " + err.Error())
		return
	}
	defer ln.Close()
	var mu sync.Mutex
	var sessions []*refsmtp.Session
	go func() {
		for n := 0; ; n++ {
			conn, err := ln.Accept()
			if err != nil {
				return
			}
			cfg := &refsmtp.Config{AllowUTF8: true, TLS: gen.ServerTLS(tm.Good, 0, 0), Caps: func(_ int, tlsOn bool) []string {
				if c.StartTLS && !tlsOn {
					return []string{"8BITMIME", "STARTTLS"}
				}
				return []string{"8BITMIME"}
			}}
			s := refsmtp.Serve(conn, cfg, n)
			mu.Lock()
			sessions = append(sessions, s)
			mu.Unlock()
		}
	}()
	port := ln.Addr().(*net.TCPAddr).Port
	first := mail.NoTLS
	if c.FirstPolicy == "opportunistic" {
		first = mail.TLSOpportunistic
	}
	cl, err := mail.NewClient(c.Host, mail.WithPort(port), mail.WithTimeout(3*time.Second), mail.WithHELO("client.verif.example"), mail.WithTLSConfig(gen.ClientTLS(c.Host, 0, 0)), mail.WithTLSPolicy(first))
	if err != nil {
		r.HarnessError("C07 seq NewClient: " + err.Error())
		return
	}
	ctx, cancel := context.WithTimeout(context.Background(), 10*time.Second)
	defer cancel()
	if err := cl.DialWithContext(ctx); err != nil {
		r.HarnessError("C07 seq first dial: " + err.Error())
		return
	}
	if c.CloseFirst {
		_ = cl.Close()
	}
	if c.Change == "setssl" {
		cl.SetSSL(true)
	} else {
		cl.SetTLSPolicy(mail.TLSMandatory)
	}
	changed := faultio.Tick()
	msg, _ := simpleMsg("c07s", "sender@verif.example", []string{"rcpt@verif.example"}, "quoted-printable", "confidential body\r\n")
	dialErr := cl.DialWithContext(ctx)
	if dialErr == nil {
		_ = cl.Send(msg)
		_ = cl.Close()
		r.Count("second_dial_succeeded_under_mandatory_policy", 1)
	} else {
		r.Count("second_dial_refused_under_mandatory_policy", 1)
	}
	_ = ln.Close()
	time.Sleep(20 * time.Millisecond)
	mu.Lock()
	ss := append([]*refsmtp.Session(nil), sessions...)
	mu.Unlock()
	for _, s := range ss {
		s.Stop()
	}
	r.Count("policy_change_sequences", 1)
	if c.Change == "setssl" {
		for si, s := range ss {
			if si == 0 {
				continue // the connection of the first dial
			}
			raw := s.Clear()
			r.Count("connections_after_setssl", 1)
			if rest, _ := stripTLSRecords(raw); len(rest) > 0 {
				viol("cleartext-after-setssl", fmt.Sprintf("SetSSL(true) was called on the Client, then connection %d carried %d bytes that are not TLS records (second dial error: %v)", si, len(rest), dialErr), ev.Q(rest, 300))
			}
		}
		r.Eval(fmt.Sprintf("seq|%+v", c), true)
		return
	}
	for si, s := range ss {
		cmds, _, _ := s.Snapshot()
		for _, cr := range cmds {
			if cr.Tick <= changed || cr.TLS {
				continue
			}
			switch cr.Verb {
			case "EHLO", "HELO", "STARTTLS", "QUIT", "GREETING":
			default:
				viol("cleartext-command-after-policy-change:"+cr.Verb, fmt.Sprintf("the Client's policy was set to TLSMandatory, then connection %d received %s in clear (second dial error: %v; first policy %s, STARTTLS advertised: %t)", si, cr.Verb, dialErr, c.FirstPolicy, c.StartTLS), s.Transcript())
			}
		}
	}
	r.Eval(fmt.Sprintf("seq|%+v", c), true)
}

// c07SharedCase: one *tls.Config without ServerName (only the trust anchors) is handed to two Clients for different
// hosts. Both servers present a certificate that is valid for the first host only.
type c07SharedCase struct {
	Via    string `json:"via"` // option: WithTLSConfig | setter: SetTLSConfig after NewClient
	Policy string `json:"policy"`
	Shared bool   `json:"shared_tls_config"`
}

func runC07Shared(r *ev.Run, c c07SharedCase) {
	viol := func(key, what string, obs any) {
		r.Violate(ev.Violation{Key: key, What: what, Case: c, Observed: obs})
	}
	tm := gen.TLS()
	shared := &tls.Config{RootCAs: tm.Roots, MinVersion: tls.VersionTLS12}
	type side struct {
		host, ip string
		sess     *refsmtp.Session
		err      error
	}
	sides := []*side{{host: "localhost", ip: "127.0.0.1"}, {host: "127.0.0.2", ip: "127.0.0.2"}}
	for _, sd := range sides {
		ln, err := net.Listen("tcp", sd.ip+":0")
		if err != nil {
			r.HarnessError("listen: " + err.Error())
			return
		}
		sessCh := make(chan *refsmtp.Session, 1)
		go func() {
			conn, err := ln.Accept()
			_ = ln.Close()
			if err != nil {
				close(sessCh)
				return
			}
			sessCh <- refsmtp.Serve(conn, &refsmtp.Config{AllowUTF8: true, TLS: gen.ServerTLS(tm.OnlyLocalhost, 0, 0), Caps: func(_ int, on bool) []string {
				if on {
					return []string{"8BITMIME"}
				}
				return []string{"8BITMIME", "STARTTLS"}
			}}, 0)
		}()
		pol := mail.TLSMandatory
		if c.Policy == "opportunistic" {
			pol = mail.TLSOpportunistic
		}
		opts := []mail.Option{mail.WithPort(ln.Addr().(*net.TCPAddr).Port), mail.WithTimeout(3 * time.Second), mail.WithHELO("client.verif.example"), mail.WithTLSPolicy(pol)}
		if c.Via == "option" {
			opts = append(opts, mail.WithTLSConfig(shared))
		}
		cl, err := mail.NewClient(sd.host, opts...)
		if err != nil {
			_ = ln.Close()
			r.HarnessError("C07 shared NewClient: " + err.Error())
			return
		}
		if c.Via == "setter" {
			if err := cl.SetTLSConfig(shared); err != nil {
				r.HarnessError("SetTLSConfig: " + err.Error())
				return
			}
		}
		msg, _ := simpleMsg("c07t", "sender@verif.example", []string{"rcpt@verif.example"}, "quoted-printable", "confidential\r\n")
		ctx, cancel := context.WithTimeout(context.Background(), 8*time.Second)
		sd.err = cl.DialAndSendWithContext(ctx, msg)
		cancel()
		_ = ln.Close()
		select {
		case sd.sess = <-sessCh:
		case <-time.After(2 * time.Second):
		}
		if sd.sess != nil {
			sd.sess.Stop()
			<-sd.sess.Done
		}
	}
	r.Count("shared_tls_config_sequences", 1)
	b := sides[1]
	if b.sess != nil {
		cmds, commits, _ := b.sess.Snapshot()
		inTLS := 0
		for _, cr := range cmds {
			if cr.TLS {
				inTLS++
			}
		}
		if b.sess.TLSOK && inTLS > 0 {
			viol("handshake-with-certificate-for-another-host", fmt.Sprintf("the server for host %s presented a certificate that is only valid for %q; the client completed the handshake and went on with %d commands (%d messages committed); the first Client of the shared *tls.Config was for %q (its result: %v)", b.host, "localhost", inTLS, len(commits), sides[0].host, sides[0].err), b.sess.Transcript())
		}
	}
	if b.err == nil {
		viol("delivered-to-host-with-foreign-certificate", "DialAndSend to "+b.host+" succeeded although its certificate is valid for another host only", nil)
	}
	r.Eval(fmt.Sprintf("shared|%+v", c), true)
}

func runC07(r *ev.Run, rep *ev.ReplayDoc) ev.Summary {
	sum := ev.Summary{
		Rule: "matrix policy {mandatory, opportunistic, none, implicit (WithSSL; also WithSSLPort / SetSSLPort after an explicit WithPort, WithSSL followed by the STARTTLS policy NoTLS, and the fixed fallback port), a password-revealing custom smtp.Auth configured first and replaced by an auth type (option order, setter order), QuickSend (opportunistic TLS and auto-discovery chosen by the library; the harness CA is the process's system root store)} x auth type (all 13; custom = a harness mechanism without password) x host {localhost, 127.0.0.1, 127.0.0.2 (a non-localhost name reachable on loopback; certificate SANs cover all three), a UNIX domain socket (unix:///path; no localhost name either)} x server behaviour {STARTTLS advertised or not; STARTTLS reply 220 / 454 / 502 / garbage; handshake ok / wrong-name certificate / untrusted certificate / garbage bytes} x 4 advertised AUTH lists, over real loopback TCP with the library's own dialers (tls.Dialer for implicit TLS). thorough enumerates the full matrix (minus combinations that cannot differ), quick a deterministic covering subset. The tap below the TLS layer records every byte before the first TLS record. Plus sequences on one live Client: dial under NoTLS / opportunistic, SetTLSPolicy(TLSMandatory), dial again (with and without Close in between), send; and one *tls.Config without ServerName shared by two Clients for different hosts whose servers both present the certificate of the first host. distinct by case",
		Assumptions: []string{
			"'localhost names' are localhost, 127.0.0.1, ::1; 127.0.0.2 stands for any other host",
			"credentials are unique 16-18 character random strings; searched raw, base64 (3 alphabets), hex, and inside every base64 token of the cleartext",
		},
		Floors:     []ev.Floor{{Counter: "sessions", Min: 500}, {Counter: "sessions_encrypted", Min: 100}, {Counter: "bad_handshakes_observed", Min: 60}, {Counter: "cleartext_lines_scanned", Min: 1000}, {Counter: "password_in_clear_permitted", Min: 10}},
		Exhaustive: r.Thorough(),
	}
	if err := gen.TrustHarnessCAAsSystemRoot(); err != nil {
		r.HarnessError("system root store: " + err.Error())
		return sum
	}
	if rep != nil {
		var sh c07SharedCase
		if err := json.Unmarshal(rep.Case, &sh); err == nil && sh.Shared {
			runC07Shared(r, sh)
			return sum
		}
		var q c07SeqCase
		if err := json.Unmarshal(rep.Case, &q); err == nil && q.Seq {
			runC07Seq(r, q)
			return sum
		}
		var c c07Case
		if err := json.Unmarshal(rep.Case, &c); err != nil {
			r.HarnessError("bad replay case: " + err.Error())
			return sum
		}
		runC07Case(r, c)
		return sum
	}
	var cases []c07Case
	n := 0
	for _, pol := range []string{"mandatory", "opportunistic", "none", "implicit"} {
		for _, at := range c07AuthTypes {
			for _, host := range []string{"localhost", "127.0.0.1", "127.0.0.2", "unix"} {
				for _, al := range c07AuthLists {
					type beh struct {
						st        bool
						reply, hs string
					}
					var behs []beh
					if pol == "implicit" {
						for _, hs := range []string{"ok", "wrongname", "untrusted", "garbage"} {
							behs = append(behs, beh{false, "220", hs})
						}
					} else {
						behs = append(behs, beh{false, "220", "ok"})
						for _, rp := range []string{"4yz", "5yz", "garbage"} {
							behs = append(behs, beh{true, rp, "ok"})
						}
						for _, hs := range []string{"ok", "wrongname", "untrusted", "garbage"} {
							behs = append(behs, beh{true, "220", hs})
						}
					}
					for _, b := range behs {
						n++
						c := c07Case{Policy: pol, AuthType: at, Host: host, StartTLS: b.st, Reply: b.reply, Handshake: b.hs, AuthList: al}
						if !r.Thorough() {
							// deterministic covering subset: every (policy, behaviour) with rotating auth type / host / list
							hh := fnv.New32a()
							fmt.Fprintf(hh, "%+v|%d", c, r.Seed)
							if hh.Sum32()%4 != 0 {
								continue
							}
						}
						cases = append(cases, c)
					}
				}
			}
		}
	}
	// implicit TLS with the fixed fallback port (465 -> 25)
	for hi, host := range []string{"127.0.0.2", "localhost", "127.0.0.1"} {
		for ai, at := range []string{"NOAUTH", "PLAIN", "LOGIN", "SCRAM-SHA-256", "AUTODISCOVER", "XOAUTH2"} {
			for _, hs := range []string{"ok", "wrongname", "garbage"} {
				if !r.Thorough() && (hi+ai)%3 != 0 {
					continue
				}
				cases = append(cases, c07Case{Policy: "implicit-fallback", AuthType: at, Host: host, Reply: "220", Handshake: hs, AuthList: c07AuthLists[1]})
			}
		}
	}
	// implicit TLS requested with WithSSLPort / SetSSLPort after an explicit port
	for hi, host := range []string{"127.0.0.2", "localhost"} {
		for ai, at := range []string{"NOAUTH", "PLAIN-NOENC", "LOGIN", "AUTODISCOVER"} {
			for pi, pol := range []string{"implicit-sslport", "implicit-setsslport", "implicit-then-notls", "implicit-then-setnotls"} {
				if !r.Thorough() && (hi+ai+pi)%2 != 0 {
					continue
				}
				cases = append(cases, c07Case{Policy: pol, AuthType: at, Host: host, Reply: "220", Handshake: "ok", AuthList: c07AuthLists[0]})
				cases = append(cases, c07Case{Policy: pol, AuthType: at, Host: host, Reply: "220", Handshake: "ok", AuthList: c07AuthLists[0], PlainServer: true})
			}
		}
		cases = append(cases, c07Case{Policy: "implicit", AuthType: "PLAIN-NOENC", Host: host, Reply: "220", Handshake: "ok", AuthList: c07AuthLists[0], PlainServer: true})
	}
	// a password-revealing custom mechanism configured first and replaced by an auth type afterwards
	for _, sc := range []string{"option", "setter"} {
		for _, at := range []string{"PLAIN", "LOGIN", "NOAUTH", "SCRAM-SHA-256", "AUTODISCOVER", "CRAM-MD5"} {
			for _, pol := range []string{"none", "opportunistic", "mandatory"} {
				for _, st := range []bool{false, true} {
					if pol == "mandatory" && !st {
						continue
					}
					cases = append(cases, c07Case{Policy: pol, AuthType: at, Host: "127.0.0.2", StartTLS: st, Reply: "220", Handshake: "ok", AuthList: c07AuthLists[1], StaleCustom: sc})
				}
			}
		}
	}
	// QuickSend: opportunistic TLS and auto-discovery chosen by the library itself
	for _, host := range []string{"127.0.0.2", "localhost"} {
		for _, at := range []string{"AUTODISCOVER", "NOAUTH"} {
			for ali, al := range c07AuthLists {
				cases = append(cases, c07Case{Policy: "quicksend", AuthType: at, Host: host, Reply: "220", Handshake: "ok", AuthList: al})
				for _, rp := range []string{"4yz", "5yz", "garbage"} {
					if r.Thorough() || ali == 0 {
						cases = append(cases, c07Case{Policy: "quicksend", AuthType: at, Host: host, StartTLS: true, Reply: rp, Handshake: "ok", AuthList: al})
					}
				}
				for _, hs := range []string{"ok", "wrongname", "untrusted", "garbage"} {
					if r.Thorough() || ali < 2 {
						cases = append(cases, c07Case{Policy: "quicksend", AuthType: at, Host: host, StartTLS: true, Reply: "220", Handshake: hs, AuthList: al})
					}
				}
			}
		}
	}
	r.ParallelN(48, len(cases), func(i int) {
		if i%131 == 0 {
			r.Sample(cases[i])
		}
		runC07Case(r, cases[i])
	})
	// the policy of a live Client is tightened between two dials
	var seqs []c07SeqCase
	for _, fp := range []string{"none", "opportunistic"} {
		for _, st := range []bool{false, true} {
			for _, h := range []string{"localhost", "127.0.0.2"} {
				for _, cf := range []bool{false, true} {
					seqs = append(seqs, c07SeqCase{FirstPolicy: fp, StartTLS: st, Host: h, CloseFirst: cf, Seq: true})
					seqs = append(seqs, c07SeqCase{FirstPolicy: fp, StartTLS: st, Host: h, CloseFirst: cf, Seq: true, Change: "setssl"})
				}
			}
		}
	}
	r.ParallelN(8, len(seqs), func(i int) { runC07Seq(r, seqs[i]) })
	// one *tls.Config value shared by Clients for different hosts
	for _, via := range []string{"option", "setter"} {
		for _, pol := range []string{"mandatory", "opportunistic"} {
			runC07Shared(r, c07SharedCase{Via: via, Policy: pol, Shared: true})
		}
	}
	sum.Extra = map[string]any{"matrix_cells_run": len(cases), "policy_change_sequences": len(seqs)}
	return sum
}
