//go:build verif

package main

import (
	"bytes"
	"encoding/json"
	"fmt"
	"io"
	mrand "math/rand"
	"regexp"
	"runtime/debug"
	"sort"
	"strings"

	mail "github.com/wneessen/go-mail"

	"verif/internal/ev"
	"verif/internal/gen"
	"verif/internal/mimeread"
)

func init() { register("C02", "exploration", runC02) }

// c02Case: which hostile string goes to which setter.
type c02Case struct {
	Enc     string            `json:"enc"`
	Shape   string            `json:"shape"`                   // single | alt | mixed | related | filesonly
	Values  map[string]string `json:"values"`                  // setter -> value
	Classes map[string]string `json:"classes"`                 // setter -> hostile class
	Prior   int               `json:"prior_renders,omitempty"` // the message has been rendered that often before the judged render
}

var c02Setters = []string{
	"Subject", "GenHeader", "GenHeaderMulti", "MessageID", "Organization", "UserAgent",
	"FromFormat", "AddToFormat", "AddCcFormat", "AddBccFormat", "ReplyToFormat", "EnvelopeFromFormat", "RequestMDNToFormat", "RequestMDNAddToFormat",
	"ToString", "CcString",
	"AttachName", "EmbedName", "WithFileName", "FileDescription", "PartDescription", "FileContentID",
}

var hostileClasses = []string{
	"benign", "cr", "lf", "crlf", "crlf-sp", "crlf-field", "crlfcrlf-body", "lf-field", "cr-field", "nul", "c0", "del", "bad-utf8", "utf8",
	"quote", "backslash", "parens", "angle", "comma", "semicolon", "colon", "encoded-word", "ew-end", "blanks", "long", "long-utf8", "mixed",
	"backslash-quote", "tab", "leading-blank", "only-blanks", "quote-crlf-field",
	"ew-q-crlf-field", "ew-b-crlfcrlf", "ew-q-lf-field", "ew-two-words-crlf",
	"utf8-comma", "utf8-parens", "utf8-angle", "utf8-quote", "utf8-colon-semicolon", "utf8-at-brackets",
}

func hostile(r *mrand.Rand, class string, n int) string {
	sent := fmt.Sprintf("SENT%dX", n)
	inj := fmt.Sprintf("X-Inj-%d: 1", n)
	w := func() string { return gen.Pick(r, []string{"alpha", "beta", "gamma", "x", "hello world"}) }
	switch class {
	case "benign":
		return w() + " " + sent
	case "cr":
		return w() + "\r" + sent
	case "lf":
		return w() + "\n" + sent
	case "crlf":
		return w() + "\r\n" + sent
	case "crlf-sp":
		return w() + "\r\n " + sent
	case "crlf-field":
		return w() + "\r\n" + inj + "\r\n" + sent
	case "crlfcrlf-body":
		return w() + "\r\n\r\n" + inj + "\r\nbody " + sent
	case "lf-field":
		return w() + "\n" + inj + "\n" + sent
	case "cr-field":
		return w() + "\r" + inj + "\r" + sent
	case "quote-crlf-field":
		return w() + "\"\r\n" + inj + "\r\n\"" + sent
	case "nul":
		return w() + "\x00" + sent
	case "c0":
		return w() + string([]byte{byte(1 + r.Intn(31))}) + sent + string([]byte{byte(1 + r.Intn(31))})
	case "del":
		return w() + "\x7f" + sent
	case "bad-utf8":
		return w() + "\xff\xfe\xc3" + sent
	case "utf8":
		return gen.Pick(r, []string{"Grüße", "日本語", "Ελληνικά 😀", "naïve café"}) + " " + sent
	case "quote":
		return w() + " \"quoted\" " + sent
	case "backslash":
		return w() + " a\\b " + sent
	case "backslash-quote":
		return "a\\b \"q\" \\\" " + sent + "\\"
	case "parens":
		return w() + " (comment) ) ( " + sent
	case "angle":
		return w() + " <x@y.example> > < " + sent
	case "comma":
		return w() + ", other <o@o.example>, " + sent
	case "semicolon":
		return w() + "; name=x; " + sent
	case "colon":
		return "Key: value " + sent
	case "encoded-word":
		return "=?UTF-8?q?pre=20encoded?= " + sent
	case "ew-end":
		return w() + " ?= =? " + sent + "?="
	case "blanks":
		return w() + "   " + sent + "  \t " + w()
	case "leading-blank":
		return "  " + w() + " " + sent
	case "only-blanks":
		return "   "
	case "tab":
		return w() + "\t" + sent
	case "long":
		return strings.Repeat(w()+" ", 50+r.Intn(400)) + sent
	case "long-utf8":
		return strings.Repeat("längé ", 50+r.Intn(300)) + sent
	case "utf8-comma":
		// non-ASCII text (so it has to be encoded) together with characters that are special in a phrase / parameter
		return "Müller, Jörg, other <o@o.example>, " + sent
	case "utf8-parens":
		return "Jörg (Vertrieb) ) ( " + sent
	case "utf8-angle":
		return "é <evil@example.org>, y " + sent
	case "utf8-quote":
		return "Jörg \"Joe\" Müller \\ " + sent
	case "utf8-colon-semicolon":
		return "Grüße: alle; " + sent
	case "utf8-at-brackets":
		return "ü@example.org [x] " + sent
	case "ew-q-crlf-field":
		// the outer form of one valid encoded-word, with a line break and a field inside the encoded text
		return "=?UTF-8?q?" + sent + "\r\nX-Inj-" + fmt.Sprint(n) + ":_1\r\nX-Rest:?="
	case "ew-q-lf-field":
		return "=?utf-8?Q?" + sent + "\nX-Inj-" + fmt.Sprint(n) + ":_1\nX-Rest:?="
	case "ew-b-crlfcrlf":
		return "=?UTF-8?b?QUJD\r\n\r\nX-Inj-" + fmt.Sprint(n) + ": 1\r\nQUJD?="
	case "ew-two-words-crlf":
		return "=?UTF-8?q?" + sent + "?= =?UTF-8?q?x\r\nX-Inj-" + fmt.Sprint(n) + ":_1\r\ny?="
	case "mixed":
		return "ü\"\\\r\n" + inj + "\r\n\x00\xff(,;:<>" + sent
	}
	panic("class " + class)
}

type c02Expect struct {
	setter   string
	section  string // top | part | file
	field    string
	want     string // expected decoded value ("" = no value expectation)
	kind     string // text | name | msgid | filename | cid
	rejected bool
}

func c02Build(c c02Case, viol func(key, what string, obs any)) (m *mail.Msg, exp []c02Expect, nParts, nEmb, nAtt int, err error) {
	m = mail.NewMsg(mail.WithEncoding(mail.Encoding(c.Enc)))
	v := func(s string) (string, bool) { x, ok := c.Values[s]; return x, ok }
	add := func(e c02Expect) { exp = append(exp, e) }
	if x, ok := v("Subject"); ok {
		m.Subject(x)
		add(c02Expect{setter: "Subject", section: "top", field: "Subject", want: x, kind: "text"})
	}
	if x, ok := v("GenHeader"); ok {
		m.SetGenHeader("X-Verif-One", x)
		add(c02Expect{setter: "GenHeader", section: "top", field: "X-Verif-One", want: x, kind: "text"})
	}
	if x, ok := v("GenHeaderMulti"); ok {
		m.SetGenHeader("X-Verif-Multi", "first", x)
		add(c02Expect{setter: "GenHeaderMulti", section: "top", field: "X-Verif-Multi", want: "first, " + x, kind: "text"})
	}
	if x, ok := v("MessageID"); ok {
		m.SetMessageIDWithValue(x)
		add(c02Expect{setter: "MessageID", section: "top", field: "Message-ID", want: "<" + x + ">", kind: "text"})
	}
	if x, ok := v("Organization"); ok {
		m.SetOrganization(x)
		add(c02Expect{setter: "Organization", section: "top", field: "Organization", want: x, kind: "text"})
	}
	if x, ok := v("UserAgent"); ok {
		m.SetUserAgent(x)
		add(c02Expect{setter: "UserAgent", section: "top", field: "User-Agent", want: x, kind: "text"})
		add(c02Expect{setter: "UserAgent", section: "top", field: "X-Mailer", want: x, kind: "text"})
	}
	nameSetter := func(setter, field string, fn func(name, addr string) error, addr string, idx int) {
		x, ok := v(setter)
		if !ok {
			return
		}
		e := fn(x, addr)
		add(c02Expect{setter: setter, section: "top", field: field, want: x, kind: fmt.Sprintf("name:%s:%d", addr, idx), rejected: e != nil})
	}
	fromSet := false
	if x, ok := v("FromFormat"); ok {
		e := m.FromFormat(x, "from@sender.example")
		add(c02Expect{setter: "FromFormat", section: "top", field: "From", want: x, kind: "name:from@sender.example:0", rejected: e != nil})
		fromSet = e == nil
	}
	if x, ok := v("EnvelopeFromFormat"); ok {
		e := m.EnvelopeFromFormat(x, "env@sender.example")
		if !fromSet {
			// rendered as From when no From is set
			add(c02Expect{setter: "EnvelopeFromFormat", section: "top", field: "From", want: x, kind: "name:env@sender.example:0", rejected: e != nil})
			fromSet = fromSet || e == nil
		}
	}
	if !fromSet {
		if err = m.From("plain@sender.example"); err != nil {
			return
		}
	}
	if err = m.To("first@rcpt.example"); err != nil {
		return
	}
	nameSetter("AddToFormat", "To", m.AddToFormat, "to2@rcpt.example", 1)
	nameSetter("AddCcFormat", "Cc", m.AddCcFormat, "cc@rcpt.example", 0)
	if x, ok := v("AddBccFormat"); ok {
		_ = m.AddBccFormat(x, "bcc@rcpt.example") // never rendered; must not leak or inject
	}
	nameSetter("ReplyToFormat", "Reply-To", m.ReplyToFormat, "reply@sender.example", 0)
	nameSetter("RequestMDNToFormat", "Disposition-Notification-To", m.RequestMDNToFormat, "mdn@sender.example", 0)
	if x, ok := v("RequestMDNAddToFormat"); ok {
		if _, has := v("RequestMDNToFormat"); !has {
			e := m.RequestMDNAddToFormat(x, "mdn2@sender.example")
			add(c02Expect{setter: "RequestMDNAddToFormat", section: "top", field: "Disposition-Notification-To", want: x, kind: "name:mdn2@sender.example:0", rejected: e != nil})
		}
	}
	// caller-formatted address strings: expectation is what the harness parser reads from the string
	strSetter := func(setter, field string, fn func(...string) error, addr string) {
		x, ok := v(setter)
		if !ok {
			return
		}
		in := x + " <" + addr + ">"
		e := fn(in)
		as, perr := mimeread.ParseAddressList(in)
		want := ""
		kind := "addrstring-unparsed"
		if perr == nil && len(as) == 1 && as[0].Spec() == addr {
			want = as[0].Name
			kind = "name:" + addr + ":0"
		}
		add(c02Expect{setter: setter, section: "top", field: field, want: want, kind: kind, rejected: e != nil})
	}
	if _, has := v("AddCcFormat"); !has {
		strSetter("CcString", "Cc", m.Cc, "ccs@rcpt.example")
	}
	if _, has := v("AddToFormat"); !has {
		if x, ok := v("ToString"); ok {
			in := x + " <tos@rcpt.example>"
			e := m.AddTo(in)
			as, perr := mimeread.ParseAddressList(in)
			want, kind := "", "addrstring-unparsed"
			if perr == nil && len(as) == 1 && as[0].Spec() == "tos@rcpt.example" {
				want, kind = as[0].Name, "name:tos@rcpt.example:1"
			}
			add(c02Expect{setter: "ToString", section: "top", field: "To", want: want, kind: kind, rejected: e != nil})
		}
	}

	// body shape
	var po []mail.PartOption
	if x, ok := v("PartDescription"); ok {
		po = append(po, mail.WithPartContentDescription(x))
	}
	switch c.Shape {
	case "single":
		m.SetBodyString(mail.TypeTextPlain, "plain body\r\n", po...)
		nParts = 1
	case "alt", "mixed", "related":
		m.SetBodyString(mail.TypeTextPlain, "plain body\r\n", po...)
		m.AddAlternativeString(mail.TypeTextHTML, "<p>html body</p>\r\n")
		nParts = 2
	case "filesonly":
	}
	if _, ok := v("PartDescription"); ok && nParts > 1 {
		add(c02Expect{setter: "PartDescription", section: "part0", field: "Content-Description", want: c.Values["PartDescription"], kind: "text"})
	}
	if _, ok := v("PartDescription"); ok && c.Shape == "single" {
		// a message that consists of this one part carries the part's description in the message header
		add(c02Expect{setter: "PartDescription", section: "top", field: "Content-Description", want: c.Values["PartDescription"], kind: "text"})
	}
	fileOpts := func() []mail.FileOption {
		var fo []mail.FileOption
		if x, ok := v("WithFileName"); ok {
			fo = append(fo, mail.WithFileName(x))
		}
		if x, ok := v("FileDescription"); ok {
			fo = append(fo, mail.WithFileDescription(x))
		}
		if x, ok := v("FileContentID"); ok {
			fo = append(fo, mail.WithFileContentID(x))
		}
		return fo
	}
	wantFile := func(kind string, idx int, given string) {
		name := given
		setter := map[string]string{"attach": "AttachName", "embed": "EmbedName"}[kind]
		if x, ok := v("WithFileName"); ok {
			name, setter = x, "WithFileName"
		}
		sec := fmt.Sprintf("%s%d", kind, idx)
		add(c02Expect{setter: setter, section: sec, field: "Content-Disposition", want: gen.SanitizeName(name), kind: "filename"})
		add(c02Expect{setter: setter, section: sec, field: "Content-Type", want: gen.SanitizeName(name), kind: "ctname"})
		if x, ok := v("FileDescription"); ok {
			add(c02Expect{setter: "FileDescription", section: sec, field: "Content-Description", want: x, kind: "text"})
		}
		if x, ok := v("FileContentID"); ok {
			add(c02Expect{setter: "FileContentID", section: sec, field: "Content-Id", want: x, kind: "text"})
		} else if kind == "embed" {
			add(c02Expect{setter: setter, section: sec, field: "Content-Id", want: "<" + gen.SanitizeName(name) + ">", kind: "text"})
		}
	}
	aname, ename := "plain.txt", "image.png"
	if x, ok := v("AttachName"); ok {
		aname = x
	}
	if x, ok := v("EmbedName"); ok {
		ename = x
	}
	switch c.Shape {
	case "mixed", "filesonly":
		if err = m.AttachReader(aname, strings.NewReader("attachment content"), fileOpts()...); err != nil {
			return
		}
		nAtt = 1
		wantFile("attach", 0, aname)
		if c.Shape == "filesonly" {
			if err = m.AttachReader("second.bin", strings.NewReader("x")); err != nil {
				return
			}
			nAtt = 2
		}
	case "related":
		if err = m.EmbedReader(ename, strings.NewReader("embedded content"), fileOpts()...); err != nil {
			return
		}
		nEmb = 1
		wantFile("embed", 0, ename)
	}
	return
}

var sentinelRe = regexp.MustCompile(`X-Inj-(\d+)|SENT(\d+)X`)

var topSingletons = map[string]bool{
	"date": true, "mime-version": true, "message-id": true, "user-agent": true, "x-mailer": true, "subject": true,
	"from": true, "to": true, "cc": true, "reply-to": true, "content-type": true, "content-transfer-encoding": true,
	"organization": true, "disposition-notification-to": true, "x-verif-one": true, "x-verif-multi": true,
}
var partAllowed = map[string]bool{"content-type": true, "content-transfer-encoding": true, "content-disposition": true, "content-id": true, "content-description": true}

func runC02Case(r *ev.Run, c c02Case) {
	viol := func(key, what string, obs any) {
		r.Violate(ev.Violation{Key: key, What: what, Case: c, Observed: obs})
	}
	var m *mail.Msg
	var exp []c02Expect
	var nP, nE, nA int
	var err error
	var out bytes.Buffer
	func() {
		defer func() {
			if p := recover(); p != nil {
				err = fmt.Errorf("panic: %v", p)
				viol("panic", fmt.Sprintf("builder/render panicked: %v", p), string(debug.Stack()))
			}
		}()
		m, exp, nP, nE, nA, err = c02Build(c, viol)
		if err != nil {
			return
		}
		for k := 0; k < c.Prior; k++ {
			_, _ = m.WriteTo(io.Discard)
		}
		_, err = m.WriteTo(&out)
	}()
	if err != nil {
		if !strings.HasPrefix(err.Error(), "panic") {
			r.Count("cases_build_or_render_error", 1)
		}
		return
	}
	raw := out.Bytes()
	setterOf := func(n string) string {
		var ss []string
		for s, cl := range c.Classes {
			if cl != "benign" {
				ss = append(ss, s+"="+cl)
			}
		}
		sort.Strings(ss)
		return strings.Join(ss, ",")
	}
	culprit := func() string {
		// the hostile setters of this case (usually one)
		var ss []string
		for s, cl := range c.Classes {
			if cl != "benign" {
				ss = append(ss, s)
			}
		}
		sort.Strings(ss)
		if len(ss) > 2 {
			ss = ss[:2]
		}
		return strings.Join(ss, "+")
	}
	_ = setterOf
	sentRe := sentinelRe
	blame := func(texts ...string) string {
		for _, t := range texts {
			for _, m := range sentRe.FindAllStringSubmatch(t, -1) {
				num := m[1]
				if num == "" {
					num = m[2]
				}
				for st, val := range c.Values {
					if strings.Contains(val, "SENT"+num+"X") {
						return st + ":" + c.Classes[st]
					}
				}
			}
		}
		return "unattributed:" + culprit()
	}
	// raw scan: an injected field line anywhere
	for _, pat := range []string{"\nX-Inj-", "\rX-Inj-"} {
		if i := bytes.Index(raw, []byte(pat)); i >= 0 {
			viol("injected-line:"+blame(string(window(raw, i))), fmt.Sprintf("the output contains a line starting with the injected field name: %s", ev.Q(window(raw, i), 200)), nil)
		}
	}
	root := mimeread.Parse(raw)
	r.Count("header_sections_scanned", 1)
	// structure of every header section
	root.Walk(func(e *mimeread.Entity) {
		if e != root {
			r.Count("header_sections_scanned", 1)
		}
		for _, p := range e.Problems {
			switch p.Code {
			case "not-a-field", "orphan-continuation", "bare-cr", "bare-lf", "no-header-end", "no-crlf-at-end":
				viol("section-structure:"+p.Code+":"+blame(p.Detail, string(e.Raw[:min(len(e.Raw), e.BodyStart-e.Start+200)])), "header section is not a sequence of fields: "+p.String(), ev.Q(e.Raw[:min(len(e.Raw), 600)], 600))
			}
		}
		seen := map[string]int{}
		for _, f := range e.Fields {
			r.Count("fields_parsed", 1)
			n := strings.ToLower(f.Name)
			seen[n]++
			if e == root {
				_, partDesc := c.Values["PartDescription"]
				if !topSingletons[n] && !(n == "content-description" && c.Shape == "single" && partDesc) {
					viol("extra-field:top:"+blame(f.Name+f.Value), fmt.Sprintf("unexpected top-level field %q", f.Name), f.RawLines)
				}
			} else if !partAllowed[n] {
				viol("extra-field:part:"+blame(f.Name+f.Value), fmt.Sprintf("unexpected part field %q", f.Name), f.RawLines)
			}
		}
		for n, k := range seen {
			if k > 1 {
				viol("duplicate-field:"+n+":"+blame(string(e.Raw[:min(len(e.Raw), e.BodyStart-e.Start)])), fmt.Sprintf("field %s appears %d times in one header section", n, k), nil)
			}
		}
	})
	// premature end of headers: the defaults and the structure must be there
	for _, need := range []string{"Date", "MIME-Version", "Message-ID", "From", "To", "Content-Type"} {
		if len(root.Get(need)) != 1 && !(need == "Content-Type" && c.Shape == "filesonly" && false) {
			viol("missing-field:"+need+":"+blame(string(raw[:min(len(raw), 3000)])), fmt.Sprintf("top-level header has %d %s fields (premature end of headers?)", len(root.Get(need)), need), ev.Q(raw[:min(len(raw), 700)], 700))
		}
	}
	leaves := root.Leaves()
	if len(leaves) != nP+nE+nA {
		viol("leaf-count:"+blame(string(raw[:min(len(raw), 6000)])), fmt.Sprintf("reader finds %d leaves, %d were built (tree %s)", len(leaves), nP+nE+nA, treeString(root)), ev.Q(raw, 1500))
		return
	}
	section := func(name string) *mimeread.Entity {
		switch {
		case name == "top":
			return root
		case name == "part0":
			return leaves[0]
		case strings.HasPrefix(name, "embed"):
			return leaves[nP]
		case strings.HasPrefix(name, "attach"):
			return leaves[nP+nE]
		}
		return nil
	}
	for _, x := range exp {
		if x.rejected {
			r.Count("setter_rejections", 1)
			continue
		}
		e := section(x.section)
		if e == nil {
			continue
		}
		vals := e.Get(x.field)
		cls := c.Classes[x.setter]
		if len(vals) != 1 {
			viol("field-count:"+x.setter+":"+cls, fmt.Sprintf("%s: %d %s fields in section %s", x.setter, len(vals), x.field, x.section), nil)
			continue
		}
		got := vals[0]
		var dec string
		switch {
		case x.kind == "text":
			dec, _ = mimeread.DecodeWords(got)
		case x.kind == "filename" || x.kind == "ctname":
			_, ps, perr := mimeread.ParseParamHeader(got)
			key := "filename"
			if x.kind == "ctname" {
				key = "name"
			}
			pv, ok := mimeread.GetParam(ps, key)
			if perr != nil || !ok {
				viol("param-syntax:"+x.setter+":"+cls, fmt.Sprintf("%s: %s does not parse / has no %s parameter: %v: %q", x.setter, x.field, key, perr, got), nil)
				continue
			}
			dec, _ = mimeread.DecodeWords(pv)
		case strings.HasPrefix(x.kind, "name:"):
			var addr string
			var idx int
			parts := strings.Split(x.kind, ":")
			addr = parts[1]
			fmt.Sscanf(parts[2], "%d", &idx)
			as, perr := mimeread.ParseAddressList(got)
			if perr != nil {
				viol("address-syntax:"+x.setter+":"+cls, fmt.Sprintf("%s: rendered %s does not parse as an address list: %v: %q", x.setter, x.field, perr, got), nil)
				continue
			}
			found := false
			for _, a := range as {
				if a.Spec() == addr {
					dec, found = a.Name, true
				}
			}
			if !found {
				viol("address-lost:"+x.setter+":"+cls, fmt.Sprintf("%s: %s has no mailbox %s: %q", x.setter, x.field, addr, got), nil)
				continue
			}
			if len(as) > idx+1+1 {
				viol("address-extra:"+x.setter+":"+cls, fmt.Sprintf("%s: %s lists %d mailboxes: %q", x.setter, x.field, len(as), got), nil)
			}
		default:
			continue
		}
		r.Count("values_round_tripped", 1)
		if mimeread.CollapseWS(dec) != mimeread.CollapseWS(x.want) && cls == "encoded-word" && x.kind == "text" {
			viol("value-altered:encoded-word-passthrough", fmt.Sprintf("%s: a pure-ASCII value that has the form of an RFC 2047 encoded-word is emitted verbatim: %s decodes to %q, the value set was %q", x.setter, x.field, ev.Trunc(dec, 300), ev.Trunc(x.want, 300)), ev.Trunc(got, 600))
		} else if mimeread.CollapseWS(dec) != mimeread.CollapseWS(x.want) {
			viol("value-altered:"+x.setter+":"+cls, fmt.Sprintf("%s: %s decodes to %q, the value set was %q", x.setter, x.field, ev.Trunc(dec, 300), ev.Trunc(x.want, 300)), ev.Trunc(got, 600))
		}
	}
	sig := c.Enc + "|" + c.Shape
	var ks []string
	for s, cl := range c.Classes {
		ks = append(ks, s+"="+cl)
		r.Seen("setter_x_class", s+"="+cl)
	}
	sort.Strings(ks)
	r.Eval(sig+"|"+strings.Join(ks, ","), true)
}

func runC02(r *ev.Run, rep *ev.ReplayDoc) ev.Summary {
	sum := ev.Summary{
		Rule: "every text-accepting setter x every hostile string class (CR, LF, CRLF+field, CRLFCRLF+body, NUL, C0, DEL, invalid UTF-8, quotes, backslashes, parens, angle brackets, separators, pre-encoded words, blank runs, lengths up to ~4000) x header encoders (Q, B) x message shapes, alone (exhaustive cross product) and in random combinations; each string carries a unique sentinel and injected field name. non-trivial = every case; distinct by (encoding, shape, setter=class set)",
		Assumptions: []string{
			"values are compared after unfolding, RFC 2047 decoding and collapsing blank runs; file names against the documented '_' sanitisation",
			"for caller-formatted address strings the expected display name is what the harness' RFC 5322 parser reads from the input; if it cannot parse the input no value expectation is made",
			"*Preformatted setters, header names and ContentType values are out of scope per the property",
		},
		Floors: []ev.Floor{{Counter: "evaluations", Min: 1000}, {Counter: "header_sections_scanned", Min: 2000}, {Counter: "values_round_tripped", Min: 2000}, {Counter: "setter_x_class", Min: 300}},
	}
	if rep != nil {
		var c c02Case
		if err := json.Unmarshal(rep.Case, &c); err != nil {
			r.HarnessError("bad replay case: " + err.Error())
			return sum
		}
		runC02Case(r, c)
		return sum
	}
	shapes := []string{"single", "alt", "mixed", "related", "filesonly"}
	encs := []string{"quoted-printable", "base64", "8bit"}
	var cases []c02Case
	n := 0
	// exhaustive: setter x class, alone
	for _, st := range c02Setters {
		for _, cl := range hostileClasses {
			for ei, enc := range encs {
				if !r.Thorough() && ei != n%3 {
					n++
					continue
				}
				n++
				rng := r.Rng("c02x", n)
				shape := "mixed"
				switch st {
				case "EmbedName":
					shape = "related"
				case "PartDescription":
					shape = gen.Pick(rng, []string{"alt", "mixed", "related"})
				case "FileContentID":
					shape = gen.Pick(rng, []string{"related", "mixed"})
				default:
					if !strings.Contains(st, "File") && st != "AttachName" {
						shape = gen.Pick(rng, shapes)
					}
				}
				cases = append(cases, c02Case{Enc: enc, Shape: shape, Values: map[string]string{st: hostile(rng, cl, n)}, Classes: map[string]string{st: cl}})
			}
		}
	}
	// sweep: values whose trailing (or inner) blank runs meet the folding limit - pure ASCII, so not RFC 2047 encoded
	for _, st := range []string{"Subject", "GenHeader", "GenHeaderMulti", "Organization", "UserAgent", "FileDescription", "PartDescription", "MessageID"} {
		for wl := 30; wl <= 80; wl++ {
			for _, k := range []int{1, 2, 3, 65, 80} {
				for _, lead := range []string{"", "Hello "} {
					n++
					if !r.Thorough() && (wl+k+len(lead)+n)%3 != 0 {
						continue
					}
					val := lead + strings.Repeat("w", wl-len(lead)) + strings.Repeat(" ", k)
					if n%5 == 0 {
						val = lead + strings.Repeat("w", wl-len(lead)) + strings.Repeat(" ", k) + "tail"
					}
					shape := "mixed"
					if st == "PartDescription" {
						shape = "alt"
					}
					cases = append(cases, c02Case{Enc: encs[n%3], Shape: shape, Values: map[string]string{st: val}, Classes: map[string]string{st: "blank-run-at-fold"}})
				}
			}
		}
	}
	// combinations
	m := r.Pick(40000, 600000)
	for i := 0; i < m; i++ {
		rng := r.Rng("c02", i)
		c := c02Case{Enc: gen.Pick(rng, encs), Shape: gen.Pick(rng, shapes), Values: map[string]string{}, Classes: map[string]string{}}
		k := 2 + rng.Intn(5)
		for j := 0; j < k; j++ {
			st := gen.Pick(rng, c02Setters)
			cl := gen.Pick(rng, hostileClasses)
			if rng.Intn(3) == 0 {
				cl = "benign"
			}
			c.Values[st] = hostile(rng, cl, 1000000+i*10+j)
			c.Classes[st] = cl
		}
		if i%4 == 3 {
			c.Prior = 1 + i%2
		}
		cases = append(cases, c)
	}
	r.Parallel(len(cases), func(i int) {
		if i%997 == 0 {
			r.Sample(map[string]any{"enc": cases[i].Enc, "shape": cases[i].Shape, "classes": cases[i].Classes})
		}
		runC02Case(r, cases[i])
	})
	return sum
}
