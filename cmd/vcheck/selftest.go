//go:build verif

package main

import (
	"fmt"

	"verif/internal/sasl"
)

// selftest validates the trusted base of the monitors on published vectors.
func selftest() int {
	if err := sasl.SelfTest(); err != nil {
		fmt.Println("HARNESS-ERROR sasl self-test:", err)
		return 2
	}
	fmt.Println("selftest ok")
	return 0
}
