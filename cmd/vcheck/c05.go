//go:build verif

package main

import (
	"context"
	"encoding/json"
	"fmt"
	mrand "math/rand"
	"sort"
	"strings"
	"time"

	mail "github.com/wneessen/go-mail"
	"github.com/wneessen/go-mail/smtp"

	"verif/internal/ev"
	"verif/internal/gen"
	"verif/internal/refsmtp"
	"verif/internal/rfc5321"
	"verif/internal/sasl"
)

func init() { register("C05", "exploration", runC05) }

type c05Addr struct {
	Local   string `json:"local"`
	Domain  string `json:"domain"`
	Spell   string `json:"spelling"` // bare | angle | named | quoted-bare ...
	Written string `json:"written"`  // the string handed to the setter
}

type c05Case struct {
	From    c05Addr   `json:"from"`
	EnvFrom *c05Addr  `json:"envelope_from,omitempty"`
	To      []c05Addr `json:"to"`
	Cc      []c05Addr `json:"cc,omitempty"`
	Bcc     []c05Addr `json:"bcc,omitempty"`
	HELO    string    `json:"helo,omitempty"`
	Auth    string    `json:"auth,omitempty"`
	User    string    `json:"user,omitempty"`
	Pass    string    `json:"pass,omitempty"`
	DSN     string    `json:"dsn,omitempty"` // "" | default | hdrs | full | notify:<list>
	Caps    []string  `json:"caps"`
	Kind    string    `json:"kind"` // what this case is about
	// ListSep: when set, To / Cc / Bcc are handed over as one string each, joined with it (ToFromString / CcFromString / BccFromString)
	ListSep string `json:"list_sep,omitempty"`
	// RcptReply (501 / 553 / 550): the server refuses every RCPT whose forward-path has a quoted local part with this
	// code (a server that does not implement quoted-strings); whatever the client does then is a well-formed line too
	RcptReply int `json:"rcpt_reply_to_quoted_local_parts,omitempty"`
}

var c05Locals = []string{
	"plain", "first.last", "with+tag", "under_score", "x", "a-b", "o'neil", "{brace}", "a!b#c$d%e&f", "UPPER.Case",
	"a b", "a  b", " lead", "trail ", "a<b", "a>b", "a@b", "a,b", "a;b", "a:b", "a\\b", "a\"b", "a\"b\"c", "\\", "\"", "()", "a(b)c", "[x]", "..", ".lead", "trail.", "a..b",
	"a> NOTIFY=NEVER ORCPT=rfc822;x <b", "x> BODY=8BITMIME <y", "a> SIZE=1 <b", "a>\" <b", "a b> <c d",
	"jürgen", "用户", "émile.zola", "δοκιμή",
	// UTF-8 that is not in a Unicode normalisation form (a local part is opaque: the octets are the mailbox)
	"ame\u0301lie", "jo\u0308rg", "\u212bke", "\u2126hm", "\ufb01le", "\u212bke doe", "e\u0301",
}

var c05Domains = []string{"example.com", "sub.example.org", "xn--mller-kva.example", "a.b", "EXAMPLE.NET", "müller.example", "[192.0.2.1]"}

func isDotAtom(s string) bool {
	if s == "" || strings.HasPrefix(s, ".") || strings.HasSuffix(s, ".") || strings.Contains(s, "..") {
		return false
	}
	for i := 0; i < len(s); i++ {
		c := s[i]
		if c >= 128 {
			continue
		}
		if !(c >= 'a' && c <= 'z' || c >= 'A' && c <= 'Z' || c >= '0' && c <= '9' || strings.IndexByte("!#$%&'*+-/=?^_`{|}~.", c) >= 0) {
			return false
		}
	}
	return true
}

func quoteLocalRFC5322(l string) string {
	return `"` + strings.NewReplacer(`\`, `\\`, `"`, `\"`).Replace(l) + `"`
}

func genC05Addr(r *mrand.Rand, hostile bool) c05Addr {
	a := c05Addr{Domain: gen.Pick(r, c05Domains)}
	if hostile {
		a.Local = gen.Pick(r, c05Locals)
	} else {
		a.Local = gen.Pick(r, c05Locals[:10])
	}
	spec := a.Local + "@" + a.Domain
	if !isDotAtom(a.Local) {
		spec = quoteLocalRFC5322(a.Local) + "@" + a.Domain
	}
	switch r.Intn(5) {
	case 4:
		// handed to the *Format setters (display name and address as two arguments)
		a.Spell, a.Written = "format:"+gen.Pick(r, []string{"Some Name", "Quote \" and \\ name", "Ünï Cödé", "comma, name", ""}), spec
	case 0:
		a.Spell, a.Written = "bare", spec
	case 1:
		a.Spell, a.Written = "angle", "<"+spec+">"
	case 2:
		a.Spell, a.Written = "named", "Some Name <"+spec+">"
	case 3:
		a.Spell, a.Written = "quoted-name", `"Name, With <specials>" <`+spec+">"
	}
	return a
}

var c05HELOs = []string{"client.example.org", "host with blank", "tab\there", "a\rb", "a\nb", "x\r\nMAIL FROM:<evil@example.com>", "x\nRSET", "", " ", "trailing ", " leading", strings.Repeat("h", 600), "[192.0.2.7]", "host;semi", "über.example", "a b c d"}

var c05Creds = []string{"user", "us er", "user\r\nMAIL FROM:<x@y>", "u\nx", "u\rx", "pa=ss,word", "p\tq", "ünï", "", "a b c", "\x01ctl", "x y\r\n"}

func (c *c05Case) mailboxes() (sender string, rcpts []string) {
	s := c.From
	if c.EnvFrom != nil {
		s = *c.EnvFrom
	}
	sender = s.Local + "@" + s.Domain
	for _, l := range [][]c05Addr{c.To, c.Cc, c.Bcc} {
		for _, a := range l {
			rcpts = append(rcpts, a.Local+"@"+a.Domain)
		}
	}
	return
}

func runC05Case(r *ev.Run, c c05Case) {
	viol := func(key, what string, obs any) {
		r.Violate(ev.Violation{Key: key, What: what, Case: c, Observed: obs})
	}
	m := mail.NewMsg()
	m.Subject("c05")
	m.SetBodyString(mail.TypeTextPlain, "body\r\n")
	rejected := false
	set := func(fn func(string) error, ffn func(string, string) error, a c05Addr, which string) {
		var err error
		if name, ok := strings.CutPrefix(a.Spell, "format:"); ok {
			err = ffn(name, a.Written)
			r.Count("addresses_set_with_format_setters", 1)
		} else {
			err = fn(a.Written)
		}
		if err != nil {
			rejected = true
			r.Count("addresses_rejected_by_setter", 1)
			r.Seen("rejected", which+":"+a.Local)
		}
	}
	set(m.From, m.FromFormat, c.From, "from")
	if c.EnvFrom != nil {
		set(m.EnvelopeFrom, m.EnvelopeFromFormat, *c.EnvFrom, "envfrom")
	}
	setList := func(fn func(string) error, l []c05Addr, which string) {
		if len(l) == 0 {
			return
		}
		var ws []string
		for _, a := range l {
			ws = append(ws, a.Written)
		}
		r.Count("address_lists_set_from_one_string", 1)
		if err := fn(strings.Join(ws, c.ListSep)); err != nil {
			rejected = true
			r.Count("addresses_rejected_by_setter", 1)
			r.Seen("rejected", which+"-list:"+l[0].Local)
		}
	}
	if c.ListSep != "" {
		setList(m.ToFromString, c.To, "to")
		setList(m.CcFromString, c.Cc, "cc")
		setList(m.BccFromString, c.Bcc, "bcc")
	} else {
		for _, a := range c.To {
			set(m.AddTo, m.AddToFormat, a, "to")
		}
		for _, a := range c.Cc {
			set(m.AddCc, m.AddCcFormat, a, "cc")
		}
		for _, a := range c.Bcc {
			set(m.AddBcc, m.AddBccFormat, a, "bcc")
		}
	}
	if rejected {
		// the intended envelope is not what the message carries any more; only line well-formedness is judged
	}
	opts := []mail.Option{mail.WithTLSPolicy(mail.NoTLS)}
	heloRejected := false
	if c.HELO != "" || c.Kind == "helo" {
		cl, err := mail.NewClient(netHost, mail.WithHELO(c.HELO))
		_ = cl
		if err != nil {
			heloRejected = true
			r.Count("helo_rejected_by_option", 1)
		} else {
			opts = append(opts, mail.WithHELO(c.HELO))
		}
	}
	switch c.Auth {
	case "PLAIN":
		opts = append(opts, mail.WithSMTPAuth(mail.SMTPAuthPlainNoEnc))
	case "LOGIN":
		opts = append(opts, mail.WithSMTPAuth(mail.SMTPAuthLoginNoEnc))
	case "CRAM-MD5":
		opts = append(opts, mail.WithSMTPAuth(mail.SMTPAuthCramMD5))
	case "XOAUTH2":
		opts = append(opts, mail.WithSMTPAuth(mail.SMTPAuthXOAUTH2))
	case "SCRAM-SHA-256":
		opts = append(opts, mail.WithSMTPAuth(mail.SMTPAuthSCRAMSHA256))
	}
	if c.Auth != "" {
		opts = append(opts, mail.WithUsername(c.User), mail.WithPassword(c.Pass))
	}
	wantMailParams := map[string]string{}
	wantRcptParams := map[string]string{}
	has := func(k string) bool { return hasCap(c.Caps, k) }
	if has("8BITMIME") {
		wantMailParams["BODY"] = "8BITMIME"
	}
	if has("SMTPUTF8") {
		wantMailParams["SMTPUTF8"] = ""
	}
	anyDSNParams := false // combinations of several DSN options: only the well-formedness of what they produce is judged
	switch {
	case strings.HasPrefix(c.DSN, "combo:"):
		anyDSNParams = true
		for _, o := range strings.Split(strings.TrimPrefix(c.DSN, "combo:"), "|") {
			var opt mail.Option
			switch {
			case o == "default":
				opt = mail.WithDSN()
			case strings.HasPrefix(o, "notify:"):
				var ns []mail.DSNRcptNotifyOption
				for _, n := range strings.Split(strings.TrimPrefix(o, "notify:"), ",") {
					ns = append(ns, mail.DSNRcptNotifyOption(n))
				}
				opt = mail.WithDSNRcptNotifyType(ns...)
			case strings.HasPrefix(o, "ret:"):
				opt = mail.WithDSNMailReturnType(mail.DSNMailReturnOption(strings.TrimPrefix(o, "ret:")))
			}
			if _, err := mail.NewClient(netHost, append(append([]mail.Option{}, opts...), opt)...); err != nil {
				r.Count("dsn_options_rejected", 1)
				continue
			}
			r.Count("dsn_options_accepted", 1)
			opts = append(opts, opt)
		}
	case c.DSN == "default":
		opts = append(opts, mail.WithDSN())
		if has("DSN") {
			wantMailParams["RET"] = "FULL"
			wantRcptParams["NOTIFY"] = "FAILURE,SUCCESS"
		}
	case c.DSN == "hdrs":
		opts = append(opts, mail.WithDSNMailReturnType(mail.DSNMailReturnHeadersOnly))
		if has("DSN") {
			wantMailParams["RET"] = "HDRS"
		}
	case strings.HasPrefix(c.DSN, "notify:"):
		_, list, _ := strings.Cut(c.DSN, ":")
		var ns []mail.DSNRcptNotifyOption
		for _, n := range strings.Split(list, ",") {
			ns = append(ns, mail.DSNRcptNotifyOption(n))
		}
		opt := mail.WithDSNRcptNotifyType(ns...)
		// the typed setter may reject the combination
		if _, err := mail.NewClient(netHost, opt); err != nil {
			r.Count("dsn_options_rejected", 1)
		} else {
			r.Count("dsn_options_accepted", 1)
			opts = append(opts, opt)
			if has("DSN") {
				wantRcptParams["NOTIFY"] = list
			}
		}
	case strings.HasPrefix(c.DSN, "ret:"):
		_, val, _ := strings.Cut(c.DSN, ":")
		opt := mail.WithDSNMailReturnType(mail.DSNMailReturnOption(val))
		if _, err := mail.NewClient(netHost, opt); err != nil {
			r.Count("dsn_options_rejected", 1)
		} else {
			r.Count("dsn_options_accepted", 1)
			opts = append(opts, opt)
			if has("DSN") {
				wantMailParams["RET"] = val
			}
		}
	}
	// whether non-ASCII addresses may be sent without SMTPUTF8 is not this property: advertise it when needed
	_, allRcpts := c.mailboxes()
	sndr, _ := c.mailboxes()
	needUTF8 := false
	for _, a := range append(allRcpts, sndr, c.From.Local+"@"+c.From.Domain) {
		for i := 0; i < len(a); i++ {
			if a[i] >= 0x80 {
				needUTF8 = true
			}
		}
	}
	if needUTF8 && !has("SMTPUTF8") {
		c.Caps = append(append([]string{}, c.Caps...), "SMTPUTF8")
		wantMailParams["SMTPUTF8"] = ""
	}
	newCfg := func(int) *refsmtp.Config {
		return &refsmtp.Config{
			AllowUTF8: true,
			Decide: func(st refsmtp.Step) refsmtp.Action {
				if c.RcptReply != 0 && st.Verb == "RCPT" && strings.Contains(st.Line, "<\"") {
					return refsmtp.Action{Kind: refsmtp.Reply, Code: c.RcptReply, Text: "5.1.3 bad destination mailbox address syntax"}
				}
				return refsmtp.Action{}
			},
			Caps: func(int, bool) []string { return c.Caps },
			Auth: func(io refsmtp.AuthIO, mech string, initial []byte, hasInit bool) refsmtp.Action {
				// accept-anything handler that walks each mechanism's exchange and validates the continuation lines
				switch mech {
				case "PLAIN":
					if !hasInit {
						if _, _, err := io.Challenge(nil); err != nil {
							return refsmtp.Action{Kind: refsmtp.Drop}
						}
					}
				case "LOGIN":
					for _, q := range []string{"Username:", "Password:"} {
						if _, _, err := io.Challenge([]byte(q)); err != nil {
							return refsmtp.Action{Kind: refsmtp.Drop}
						}
					}
				case "CRAM-MD5":
					if _, _, err := io.Challenge([]byte("<1.2@verif>")); err != nil {
						return refsmtp.Action{Kind: refsmtp.Drop}
					}
				case "XOAUTH2":
				default: // SCRAM: client-first, then stop with a failure (C14/C15 cover the exchange)
					first, _, err := io.Challenge(nil)
					if err != nil {
						return refsmtp.Action{Kind: refsmtp.Drop}
					}
					x := sasl.NewScram(sasl.ScramConfig{Hash: "SHA-256", User: c.User, Password: []byte(c.Pass), Salt: []byte("salt"), Iterations: 16, ServerNonce: "srv"})
					if x.ParseClientFirst(first) == nil {
						if _, _, err := io.Challenge(x.ServerFirst()); err != nil {
							return refsmtp.Action{Kind: refsmtp.Drop}
						}
					}
					return refsmtp.Action{Kind: refsmtp.Reply, Code: 535, Text: "5.7.8 stop"}
				}
				return refsmtp.Action{}
			},
		}
	}
	sr := runSend(newCfg, nil, opts, []*mail.Msg{m}, "send", false)
	if sr.Panic != nil {
		viol("panic", fmt.Sprintf("client panicked: %v", sr.Panic), nil)
	}
	if sr.Hung {
		r.Inconclusive("C05 run hung")
		return
	}
	sender, rcpts := c.mailboxes()
	if len(sr.Sessions) == 0 {
		r.Count("cases_without_connection", 1)
		r.Eval(fmt.Sprintf("%+v", c), true)
		return
	}
	cmds, _, pv := sr.Sessions[0].Snapshot()
	for _, v := range pv {
		code, detail, _ := strings.Cut(v, ": ")
		switch code {
		case "syntax", "auth-continuation-syntax", "param-syntax", "truncated-line":
			verb := "OTHER"
			for _, cr := range cmds {
				if cr.SyntaxErr != "" {
					verb = cr.Verb
					break
				}
			}
			if code != "syntax" {
				verb = code
			}
			if verb == "EHLO" || verb == "HELO" {
				// one argument that is not a syntactically valid domain (e.g. "host;semi") is not smuggling:
				// the property is about extra arguments / line breaks
				var arg string
				for _, cr := range cmds {
					if cr.SyntaxErr != "" {
						arg = strings.TrimPrefix(strings.TrimPrefix(cr.Line, cr.Line[:min(4, len(cr.Line))]), " ")
						break
					}
				}
				if arg != "" && !strings.ContainsAny(arg, " \t\r\n\x00") {
					continue
				}
			}
			if verb == "OTHER" && strings.HasPrefix(detail, `"*"`) {
				continue // C04's known finding (cancel after a final AUTH reply), not a smuggling issue
			}
			viol("malformed-line:"+verb+":"+c.Kind, "the reference server received a line that is not one well-formed command: "+v, linesOf(cmds))
		}
	}
	rcptSeen := []string{}
	for _, cr := range cmds {
		r.Count("command_lines_parsed", 1)
		if cr.Parsed == nil {
			continue
		}
		switch cr.Verb {
		case "EHLO", "HELO":
			if !heloRejected && c.HELO != "" && cr.Parsed.Arg != c.HELO {
				viol("helo-altered", fmt.Sprintf("HELO name %q arrived as %q", c.HELO, cr.Parsed.Arg), cr.Line)
			}
		case "MAIL":
			r.Count("paths_checked", 1)
			got := ""
			if cr.Parsed.Path != nil {
				got = cr.Parsed.Path.Local + "@" + cr.Parsed.Path.Domain
			}
			if !rejected && got != sender {
				viol("reverse-path-wrong:"+localClass(sender), fmt.Sprintf("MAIL FROM denotes %q, the caller's sender is %q: %s", got, sender, cr.Line), nil)
			}
			if anyDSNParams {
				delete(wantMailParams, "RET")
				cr.Parsed.Params = dropParam(cr.Parsed.Params, "RET")
			}
			checkParamSet(viol, "MAIL", cr.Parsed.Params, wantMailParams, cr.Line)
		case "RCPT":
			r.Count("paths_checked", 1)
			if cr.Parsed.Path != nil {
				rcptSeen = append(rcptSeen, cr.Parsed.Path.Local+"@"+cr.Parsed.Path.Domain)
			}
			if anyDSNParams {
				cr.Parsed.Params = dropParam(cr.Parsed.Params, "NOTIFY")
			}
			checkParamSet(viol, "RCPT", cr.Parsed.Params, wantRcptParams, cr.Line)
		}
	}
	if !rejected && len(rcptSeen) > 0 {
		for i, g := range rcptSeen {
			if i >= len(rcpts) || g != rcpts[i] {
				w := "(none)"
				if i < len(rcpts) {
					w = rcpts[i]
				}
				viol("forward-path-wrong:"+localClass(w), fmt.Sprintf("RCPT TO #%d denotes %q, the caller's recipient is %q", i, g, w), linesOf(cmds))
				break
			}
		}
	}
	r.Seen("kinds", c.Kind)
	r.Eval(fmt.Sprintf("%+v", c), true)
}

// c05DirectCase: the smtp package used directly. Hello is called with the name (it may refuse it); whatever it
// returned, the caller carries on with Mail/Rcpt/Quit - or Noop / Extension - on the same smtp.Client.
type c05DirectCase struct {
	HELO   string `json:"helo"`
	Then   string `json:"then"` // mail | noop | extension | quit | vrfy | sendmail
	Direct bool   `json:"direct_smtp_client"`
	// Addr: a value with CR and/or LF inside, handed to Mail / Rcpt / Verify / SendMail of the smtp package as it is
	Addr string `json:"addr,omitempty"`
	Role string `json:"role,omitempty"` // from | rcpt | rcpt-dsn
}

func runC05Direct(r *ev.Run, c c05DirectCase) {
	viol := func(key, what string, obs any) {
		r.Violate(ev.Violation{Key: key, What: what, Case: c, Observed: obs})
	}
	farm := &refsmtp.Farm{NewConfig: func(int) *refsmtp.Config { return &refsmtp.Config{AllowUTF8: true} }}
	defer farm.Shutdown()
	conn, err := farm.Dial(context.Background(), "tcp", "")
	if err != nil {
		r.HarnessError(err.Error())
		return
	}
	_ = conn.SetDeadline(time.Now().Add(10 * time.Second))
	sc, err := smtp.NewClient(conn, netHost)
	if err != nil {
		r.HarnessError("smtp.NewClient: " + err.Error())
		return
	}
	func() {
		defer func() {
			if p := recover(); p != nil {
				viol("panic:direct", fmt.Sprintf("smtp.Client panicked: %v", p), nil)
			}
		}()
		herr := sc.Hello(c.HELO)
		if herr != nil {
			r.Count("helo_refused_by_smtp_client", 1)
		}
		switch c.Then {
		case "noop":
			_ = sc.Noop()
		case "extension":
			_, _ = sc.Extension("8BITMIME")
		case "quit":
		case "vrfy":
			_ = sc.Verify(c.Addr)
		case "sendmail":
			from, to := "sender@example.com", "rcpt@example.net"
			if c.Role == "from" {
				from = c.Addr
			} else {
				to = c.Addr
			}
			if sc.Mail(from) == nil && sc.Rcpt(to) == nil {
				if w, err := sc.Data(); err == nil {
					_, _ = w.Write([]byte("Subject: x\r\n\r\nbody\r\n"))
					_ = w.Close()
				}
			}
		default:
			from, to := "sender@example.com", "rcpt@example.net"
			switch c.Role {
			case "from":
				from = c.Addr
			case "rcpt":
				to = c.Addr
			case "rcpt-dsn":
				to = c.Addr
				sc.SetDSNRcptNotifyOption("SUCCESS,FAILURE")
			}
			if sc.Mail(from) == nil {
				_ = sc.Rcpt(to)
			}
		}
		_ = sc.Quit()
	}()
	_ = conn.Close()
	farm.Shutdown()
	sess, _ := farm.Snapshot()
	if len(sess) == 0 {
		return
	}
	cmds, _, pv := sess[0].Snapshot()
	r.Count("direct_smtp_client_sessions", 1)
	for _, cr := range cmds {
		r.Count("command_lines_parsed", 1)
		if c.Addr != "" {
			// a value with CR / LF inside is refused or arrives as part of one line - never as a line break, and a bare CR
			// (a line end to many servers) never reaches the wire
			if strings.ContainsAny(cr.Line, "\r\n") {
				viol("cr-lf-inside-command-line:direct:"+c.Then+":"+c.Role, fmt.Sprintf("smtp.Client.%s was handed %q: the server received the line %q", c.Then, c.Addr, cr.Line), linesOf(cmds))
			}
			if cr.Verb == "RSET" || strings.Contains(cr.Line, "smuggled") && !strings.HasPrefix(strings.ToUpper(cr.Line), "MAIL") && !strings.HasPrefix(strings.ToUpper(cr.Line), "RCPT") && !strings.HasPrefix(strings.ToUpper(cr.Line), "VRFY") {
				viol("smuggled-command:direct:"+c.Then+":"+c.Role, fmt.Sprintf("smtp.Client.%s was handed %q: the server received the extra line %q", c.Then, c.Addr, cr.Line), linesOf(cmds))
			}
		}
		if (cr.Verb == "EHLO" || cr.Verb == "HELO") && cr.Parsed != nil && cr.Parsed.Arg != c.HELO && cr.Parsed.Arg != "localhost" {
			viol("helo-altered:direct", fmt.Sprintf("HELO name %q arrived as %q", c.HELO, cr.Parsed.Arg), cr.Line)
		}
	}
	for _, v := range pv {
		code, _, _ := strings.Cut(v, ": ")
		switch code {
		case "syntax", "param-syntax", "truncated-line":
			// a single argument that is no valid domain is not smuggling (see the mail.Client cases)
			single := false
			for _, cr := range cmds {
				if cr.SyntaxErr != "" && (cr.Verb == "EHLO" || cr.Verb == "HELO") {
					arg := strings.TrimPrefix(cr.Line[min(4, len(cr.Line)):], " ")
					single = arg != "" && !strings.ContainsAny(arg, " \t\r\n\x00")
				}
			}
			if single {
				continue
			}
			viol("malformed-line:direct:"+c.Then, "smtp.Client used directly (Hello, then "+c.Then+"): the reference server received a line that is not one well-formed command: "+v, linesOf(cmds))
		}
	}
	r.Eval(fmt.Sprintf("direct|%q|%s|%q|%s", c.HELO, c.Then, c.Addr, c.Role), true)
}

func localClass(mbox string) string {
	i := strings.LastIndex(mbox, "@")
	if i < 0 {
		return "none"
	}
	l := mbox[:i]
	switch {
	case isDotAtom(l):
		return "dot-atom"
	case strings.ContainsAny(l, "<>"):
		return "quoted-angle"
	case strings.ContainsAny(l, " "):
		return "quoted-blank"
	case strings.ContainsAny(l, "\"\\"):
		return "quoted-escape"
	default:
		return "quoted-other"
	}
}

func linesOf(cmds []refsmtp.CmdRecord) []string {
	var out []string
	for _, c := range cmds {
		out = append(out, c.Line)
	}
	return out
}

func checkParamSet(viol func(string, string, any), which string, got []rfc5321.Param, want map[string]string, line string) {
	g := map[string]string{}
	for _, p := range got {
		g[strings.ToUpper(p.Key)] = p.Value
	}
	var ks []string
	for k := range g {
		ks = append(ks, k)
	}
	for k := range want {
		if _, ok := g[k]; !ok {
			ks = append(ks, k)
		}
	}
	sort.Strings(ks)
	for _, k := range ks {
		gv, gok := g[k]
		wv, wok := want[k]
		if gok != wok || (k == "NOTIFY" && !sameSet(gv, wv)) || (k != "NOTIFY" && gv != wv) {
			viol("esmtp-params:"+which+":"+k, fmt.Sprintf("%s parameter %s: got %q (present=%t), configuration implies %q (present=%t): %s", which, k, gv, gok, wv, wok, line), nil)
		}
	}
}

func dropParam(ps []rfc5321.Param, key string) []rfc5321.Param {
	var out []rfc5321.Param
	for _, p := range ps {
		if !strings.EqualFold(p.Key, key) {
			out = append(out, p)
		}
	}
	return out
}

func sameSet(a, b string) bool {
	x, y := strings.Split(a, ","), strings.Split(b, ",")
	sort.Strings(x)
	sort.Strings(y)
	return strings.Join(x, ",") == strings.Join(y, ",")
}

func runC05(r *ev.Run, rep *ev.ReplayDoc) ev.Summary {
	sum := ev.Summary{
		Rule: "addresses built from (local part, domain) pairs - dot-atoms and quoted-string local parts with blank, <, >, @, comma, ;, :, backslash, quote, UTF-8 and smuggling payloads such as 'a> NOTIFY=NEVER ORCPT=rfc822;x <b' - in four spellings, through the *Format setters and as comma-separated lists through the *FromString setters, as From / EnvelopeFrom / To / Cc / Bcc (every local part in every role); HELO names with blanks, tabs, CR, LF, embedded commands, 600 characters (through WithHELO, and through smtp.Client.Hello with the caller carrying on after a refusal); values with a bare CR, a bare LF or CRLF handed to smtp.Client.Mail / Rcpt / Verify directly; credentials with CR/LF/blanks/controls for PLAIN, LOGIN, CRAM-MD5, XOAUTH2, SCRAM; every DSN option set the typed setters accept or must reject, several DSN options together in both orders; capability subsets. Every raw line received outside DATA is parsed with the strict RFC 5321 grammar. distinct by case",
		Assumptions: []string{
			"the intended mailbox is known by construction (local part + domain); a case whose address a setter rejected is only judged for line well-formedness",
			"a stray '*' after a final AUTH reply is C04's known finding and not attributed to this property",
		},
		Floors: []ev.Floor{{Counter: "evaluations", Min: 1000}, {Counter: "command_lines_parsed", Min: 5000}, {Counter: "paths_checked", Min: 2000}, {Counter: "kinds", Min: 4}},
	}
	if rep != nil {
		var d c05DirectCase
		if err := json.Unmarshal(rep.Case, &d); err == nil && d.Direct {
			runC05Direct(r, d)
			return sum
		}
		var c c05Case
		if err := json.Unmarshal(rep.Case, &c); err != nil {
			r.HarnessError("bad replay case: " + err.Error())
			return sum
		}
		runC05Case(r, c)
		return sum
	}
	allCaps := []string{"8BITMIME", "SMTPUTF8", "DSN", "ENHANCEDSTATUSCODES", "AUTH PLAIN LOGIN CRAM-MD5 XOAUTH2 SCRAM-SHA-256"}
	var cases []c05Case
	plain := func(i int) c05Addr {
		return c05Addr{Local: fmt.Sprintf("p%d", i), Domain: "example.com", Spell: "bare", Written: fmt.Sprintf("p%d@example.com", i)}
	}
	mkAddr := func(l, d string, sp int) c05Addr {
		a := c05Addr{Local: l, Domain: d}
		spec := l + "@" + d
		if !isDotAtom(l) {
			spec = quoteLocalRFC5322(l) + "@" + d
		}
		switch sp % 3 {
		case 0:
			a.Spell, a.Written = "bare", spec
		case 1:
			a.Spell, a.Written = "angle", "<"+spec+">"
		case 2:
			a.Spell, a.Written = "named", "Display Name <"+spec+">"
		}
		return a
	}
	// every local part in every role
	n := 0
	for _, l := range c05Locals {
		for role := 0; role < 5; role++ {
			n++
			a := mkAddr(l, c05Domains[n%len(c05Domains)], n)
			c := c05Case{From: plain(0), To: []c05Addr{plain(1)}, Caps: allCaps, Kind: "address-" + []string{"from", "envfrom", "to", "cc", "bcc"}[role]}
			switch role {
			case 0:
				c.From = a
			case 1:
				c.EnvFrom = &a
			case 2:
				c.To = []c05Addr{plain(1), a, plain(2)}
			case 3:
				c.Cc = []c05Addr{a}
			case 4:
				c.Bcc = []c05Addr{a, plain(3)}
			}
			if n%3 == 0 {
				c.DSN = "default"
			}
			cases = append(cases, c)
			if role >= 2 && !isDotAtom(l) {
				// a server that refuses quoted local parts
				for _, code := range []int{501, 553, 550} {
					rc := c
					rc.RcptReply, rc.Kind = code, c.Kind+"-refused"
					cases = append(cases, rc)
				}
			}
			if role >= 2 {
				// the same recipients handed over as one comma-separated string
				for _, sep := range []string{",", ", ", " , "} {
					lc := c
					lc.ListSep, lc.Kind = sep, c.Kind+"-list"
					cases = append(cases, lc)
				}
			}
		}
	}
	for _, h := range c05HELOs {
		cases = append(cases, c05Case{From: plain(0), To: []c05Addr{plain(1)}, HELO: h, Caps: allCaps, Kind: "helo"})
	}
	for _, mech := range []string{"PLAIN", "LOGIN", "CRAM-MD5", "XOAUTH2", "SCRAM-SHA-256"} {
		for i, u := range c05Creds {
			cases = append(cases, c05Case{From: plain(0), To: []c05Addr{plain(1)}, Auth: mech, User: u, Pass: c05Creds[(i+3)%len(c05Creds)], Caps: allCaps, Kind: "credentials"})
		}
	}
	dsnSets := []string{"default", "hdrs", "notify:NEVER", "notify:SUCCESS", "notify:FAILURE,DELAY", "notify:SUCCESS,FAILURE,DELAY", "notify:NEVER,SUCCESS", "notify:BOGUS", "notify:SUCCESS FAILURE", "notify:NEVER ORCPT=rfc822;x", "notify:"}
	// option values are strings underneath: padded, lower-case, line-breaking and parameter-smuggling spellings of the keywords
	for _, v := range []string{"SUCCESS\r\n", "FAILURE\r\n,DELAY", "SUCCESS , DELAY", "NEVER ", " NEVER", "\tFAILURE", "success", "Success,delay", "SUCCESS\r\nRSET", "SUCCESS\n", "DELAY\r", "SUCCESS\x00", "SUCCESS ORCPT=rfc822;x@y.z", "FAILURE\r\nRCPT TO:<evil@example.org>"} {
		dsnSets = append(dsnSets, "notify:"+v)
	}
	for _, v := range []string{"FULL", "HDRS", "FULL\r\n", "HDRS ", " FULL", "full", "hdrs", "HDRS ENVID=x", "FULL\r\nRSET", "FULL\n", "HDRS\x00", "BOGUS", ""} {
		dsnSets = append(dsnSets, "ret:"+v)
	}
	// several DSN options together, in both orders
	for _, a := range []string{"default", "notify:NEVER", "notify:DELAY", "notify:SUCCESS,FAILURE", "ret:HDRS", "ret:FULL"} {
		for _, b := range []string{"default", "notify:NEVER", "notify:DELAY", "ret:HDRS"} {
			if a != b {
				dsnSets = append(dsnSets, "combo:"+a+"|"+b)
			}
		}
	}
	dsnSets = append(dsnSets, "combo:notify:NEVER|ret:HDRS|default", "combo:default|notify:NEVER|default")
	for _, d := range dsnSets {
		for _, caps := range [][]string{allCaps, {"8BITMIME"}, {"DSN"}, nil} {
			cases = append(cases, c05Case{From: plain(0), To: []c05Addr{plain(1), plain(2)}, DSN: d, Caps: caps, Kind: "dsn"})
		}
	}
	// random combinations
	m := r.Pick(20000, 300000)
	for i := 0; i < m; i++ {
		rng := r.Rng("c05", i)
		c := c05Case{From: genC05Addr(rng, rng.Intn(3) == 0), Caps: allCaps, Kind: "random"}
		for j := 0; j < 1+rng.Intn(3); j++ {
			c.To = append(c.To, genC05Addr(rng, rng.Intn(2) == 0))
		}
		if rng.Intn(3) == 0 {
			c.Cc = append(c.Cc, genC05Addr(rng, true))
		}
		if rng.Intn(3) == 0 {
			c.Bcc = append(c.Bcc, genC05Addr(rng, true))
		}
		if rng.Intn(4) == 0 {
			a := genC05Addr(rng, true)
			c.EnvFrom = &a
		}
		if rng.Intn(5) == 0 {
			c.HELO = gen.Pick(rng, c05HELOs)
		}
		if rng.Intn(4) == 0 {
			c.DSN = gen.Pick(rng, []string{"default", "hdrs", "notify:SUCCESS,DELAY", "notify:NEVER"})
		}
		if rng.Intn(4) == 0 {
			c.Caps = [][]string{allCaps, {"8BITMIME", "DSN"}, {"SMTPUTF8", "DSN"}}[rng.Intn(3)]
		}
		if rng.Intn(6) == 0 {
			c.ListSep = gen.Pick(rng, []string{",", ", ", " ,", " , ", ",  "})
		}
		cases = append(cases, c)
	}
	r.Parallel(len(cases), func(i int) {
		if i%409 == 0 {
			r.Sample(cases[i])
		}
		runC05Case(r, cases[i])
	})
	// the smtp package used directly: Hello with every name, then the caller carries on
	var dcases []c05DirectCase
	for _, h := range c05HELOs {
		for _, then := range []string{"mail", "noop", "extension", "quit"} {
			dcases = append(dcases, c05DirectCase{HELO: h, Then: then, Direct: true})
		}
	}
	// ... and Mail / Rcpt / Verify with values that hold a bare CR, a bare LF or CRLF
	for _, a := range []string{"a@example.com\rRSET\rMAIL FROM:<smuggled@example.org>", "a@example.com\r", "a\rb@example.com", "a@example.com\nRSET", "a@example.com\r\nRSET\r\n",
		"a@example.com>\rRCPT TO:<smuggled@example.org", "\ra@example.com", "a@example.com\r SIZE=1"} {
		for _, role := range []string{"from", "rcpt", "rcpt-dsn"} {
			dcases = append(dcases, c05DirectCase{HELO: "client.example.org", Then: "mail", Direct: true, Addr: a, Role: role})
		}
		dcases = append(dcases, c05DirectCase{HELO: "client.example.org", Then: "vrfy", Direct: true, Addr: a, Role: "vrfy"},
			c05DirectCase{HELO: "client.example.org", Then: "sendmail", Direct: true, Addr: a, Role: "from"}, c05DirectCase{HELO: "client.example.org", Then: "sendmail", Direct: true, Addr: a, Role: "rcpt"})
	}
	r.Parallel(len(dcases), func(i int) { runC05Direct(r, dcases[i]) })
	return sum
}
