//go:build verif

package main

import (
	"context"
	"fmt"
	"regexp"
	"strings"
	"sync"
	"time"

	mail "github.com/wneessen/go-mail"

	"verif/internal/ev"
	"verif/internal/faultio"
	"verif/internal/refsmtp"
	"verif/internal/sasl"
)

// scriptEntry is one deviation of the server from the expected reply.
type scriptEntry struct {
	Index int    `json:"index"`
	Kind  string `json:"kind"` // 4yz | 5yz | drop | reply | stall
	Code  int    `json:"code,omitempty"`
	Text  string `json:"text,omitempty"`
}

func scriptString(s []scriptEntry) string {
	var p []string
	for _, e := range s {
		p = append(p, fmt.Sprintf("%d:%s%d", e.Index, e.Kind, e.Code))
	}
	return strings.Join(p, ",")
}

// scriptDecide turns a script into the Decide function of the reference server.
func scriptDecide(script []scriptEntry) func(refsmtp.Step) refsmtp.Action {
	m := map[int]scriptEntry{}
	for _, e := range script {
		m[e.Index] = e
	}
	return func(st refsmtp.Step) refsmtp.Action {
		e, ok := m[st.Index]
		if !ok {
			return refsmtp.Action{}
		}
		switch e.Kind {
		case "4yz":
			return refsmtp.Action{Kind: refsmtp.Reply, Code: 451, Text: "4.3.0 scripted temporary failure"}
		case "5yz":
			return refsmtp.Action{Kind: refsmtp.Reply, Code: 550, Text: "5.7.1 scripted permanent failure"}
		case "drop":
			return refsmtp.Action{Kind: refsmtp.Drop}
		case "stall":
			return refsmtp.Action{Kind: refsmtp.Stall}
		case "mute":
			return refsmtp.Action{Kind: refsmtp.Mute}
		case "alt-2yz":
			// another positive reply code of the same class where the protocol has one (RCPT: 251 / 252)
			if st.Verb == "RCPT" {
				if st.Index%2 == 0 {
					return refsmtp.Action{Kind: refsmtp.Reply, Code: 251, Text: "2.1.5 User not local; will forward"}
				}
				return refsmtp.Action{Kind: refsmtp.Reply, Code: 252, Text: "2.1.5 Cannot VRFY user, but will accept message and attempt delivery"}
			}
			return refsmtp.Action{}
		case "odd-positive":
			// a reply that is neither a 2yz acknowledgement nor negative (354 / 150 / 334): nothing was accepted
			return refsmtp.Action{Kind: refsmtp.Reply, Code: []int{354, 150, 334}[st.Index%3], Text: "scripted reply that is no completion reply"}
		case "queue-then-drop":
			// (meaningful at end-of-data) the server queues the message, the connection dies before the 250 leaves
			return refsmtp.Action{Kind: refsmtp.Drop, Code: 250}
		case "garbage":
			return refsmtp.Action{Kind: refsmtp.Raw, Text: "hello, this line is not an SMTP reply\r\n"}
		case "reply":
			return refsmtp.Action{Kind: refsmtp.Reply, Code: e.Code, Text: e.Text}
		}
		return refsmtp.Action{}
	}
}

var tokenRe = regexp.MustCompile(`tok-c\d+-s\d+`)

// simpleMsg builds a small message with unique sender/recipients.
func simpleMsg(id string, from string, rcpts []string, enc string, body string) (*mail.Msg, error) {
	m := mail.NewMsg(mail.WithEncoding(mail.Encoding(enc)))
	m.SetGenHeader("X-Verif-Id", id)
	m.Subject("verif " + id)
	if err := m.From(from); err != nil {
		return nil, err
	}
	if err := m.To(rcpts...); err != nil {
		return nil, err
	}
	m.SetBodyString(mail.TypeTextPlain, body)
	return m, nil
}

// withWatchdog runs fn; if it does not return within d, onHang is called (it must
// unblock fn, e.g. by closing the connections) and hung=true is returned once fn has
// returned (or after a second grace period).
func withWatchdog(d time.Duration, fn func(), onHang func()) (hung bool, returned bool) {
	done := make(chan struct{})
	go func() {
		defer close(done)
		fn()
	}()
	select {
	case <-done:
		return false, true
	case <-time.After(d):
	}
	onHang()
	select {
	case <-done:
		return true, true
	case <-time.After(10 * time.Second):
		return true, false
	}
}

// plainAuthHandler accepts AUTH PLAIN / LOGIN for (user, pass) with the reference verifiers.
func plainAuthHandler(user, pass string) refsmtp.AuthHandler {
	return func(io refsmtp.AuthIO, mech string, initial []byte, has bool) refsmtp.Action {
		bad := refsmtp.Action{Kind: refsmtp.Reply, Code: 535, Text: "5.7.8 Authentication credentials invalid"}
		switch mech {
		case "PLAIN":
			if !has {
				r, cancel, err := io.Challenge(nil)
				if err != nil || cancel {
					return refsmtp.Action{Kind: refsmtp.Reply, Code: 501, Text: "5.7.0 Authentication aborted"}
				}
				initial = r
			}
			if ok, _ := sasl.VerifyPlain(initial, user, pass); ok {
				return refsmtp.Action{}
			}
			return bad
		case "LOGIN":
			u, cancel, err := io.Challenge([]byte("Username:"))
			if err != nil || cancel {
				return refsmtp.Action{Kind: refsmtp.Reply, Code: 501, Text: "5.7.0 Authentication aborted"}
			}
			p, cancel, err := io.Challenge([]byte("Password:"))
			if err != nil || cancel {
				return refsmtp.Action{Kind: refsmtp.Reply, Code: 501, Text: "5.7.0 Authentication aborted"}
			}
			if ok, _ := sasl.VerifyLogin(u, p, user, pass); ok {
				return refsmtp.Action{}
			}
			return bad
		}
		return refsmtp.Action{Kind: refsmtp.Reply, Code: 504, Text: "5.5.4 Unrecognized authentication type"}
	}
}

var bgCtx = context.Background()

// onceErr keeps the first error.
type onceErr struct {
	mu  sync.Mutex
	err error
}

func (o *onceErr) set(e error) {
	o.mu.Lock()
	if o.err == nil {
		o.err = e
	}
	o.mu.Unlock()
}

// sendRun is one client run against a farm of reference sessions.
type sendRun struct {
	Farm     *refsmtp.Farm
	Client   *mail.Client
	DialErr  error
	SendErr  error
	CloseErr error
	Panic    any
	Hung     bool
	Returned bool
	Sessions []*refsmtp.Session
	Conns    []*faultio.TrackConn
	// ConnClosedAtReturn[i]: whether conn i had been closed at the instant the public call returned
	ConnClosedAtReturn []bool
}

const netHost = "mail.verif.example"

// netTimeout is the client timeout used by runSend; checks that inject transport
// faults (where the client legitimately waits for its own deadline) lower it per call.
var defaultNetTimeout = 4 * time.Second

// runSend dials and sends msgs through the real client. via: send | dialandsend | withclient.
func runSend(newCfg func(n int) *refsmtp.Config, wrap func(n int, tc *faultio.TrackConn), opts []mail.Option, msgs []*mail.Msg, via string, tcp bool) *sendRun {
	return runSendT(newCfg, wrap, opts, msgs, via, tcp, defaultNetTimeout)
}

func runSendT(newCfg func(n int) *refsmtp.Config, wrap func(n int, tc *faultio.TrackConn), opts []mail.Option, msgs []*mail.Msg, via string, tcp bool, timeout time.Duration) *sendRun {
	return runSendF(&refsmtp.Farm{NewConfig: newCfg, Wrap: wrap, TCP: tcp}, opts, msgs, via, timeout)
}

// runSendF is runSendT over a farm the caller has configured (e.g. for implicit TLS).
func runSendF(farm *refsmtp.Farm, opts []mail.Option, msgs []*mail.Msg, via string, timeout time.Duration) *sendRun {
	return runSendFC(farm, opts, msgs, via, timeout, nil)
}

// runSendFC: ctxHook (if not nil) receives the cancel function of the context the *WithContext calls get.
func runSendFC(farm *refsmtp.Farm, opts []mail.Option, msgs []*mail.Msg, via string, timeout time.Duration, ctxHook func(context.CancelFunc)) *sendRun {
	sr := &sendRun{}
	sr.Farm = farm
	base := []mail.Option{mail.WithDialContextFunc(sr.Farm.Dial), mail.WithTimeout(timeout), mail.WithHELO("client.verif.example")}
	cl, err := mail.NewClient(netHost, append(base, opts...)...)
	if err != nil {
		sr.DialErr = fmt.Errorf("NewClient: %w", err)
		return sr
	}
	sr.Client = cl
	snapClosed := func() {
		_, cs := sr.Farm.Snapshot()
		sr.ConnClosedAtReturn = make([]bool, len(cs))
		for i, c := range cs {
			sr.ConnClosedAtReturn[i] = c.Closed()
		}
	}
	sr.Hung, sr.Returned = withWatchdog(25*time.Second, func() {
		defer func() { sr.Panic = recover() }()
		ctx, cancel := context.WithTimeout(context.Background(), 12*time.Second)
		defer cancel()
		if ctxHook != nil {
			ctxHook(cancel)
		}
		switch via {
		case "dialandsend":
			err := cl.DialAndSendWithContext(ctx, msgs...)
			snapClosed()
			// DialAndSend wraps dial errors
			if err != nil && strings.HasPrefix(err.Error(), "dial failed") {
				sr.DialErr = err
			} else {
				sr.SendErr = err
			}
		case "withclient":
			sc, err := cl.DialToSMTPClientWithContext(ctx)
			if err != nil {
				snapClosed()
				sr.DialErr = err
				return
			}
			sr.SendErr = cl.SendWithSMTPClient(sc, msgs...)
			sr.CloseErr = cl.CloseWithSMTPClient(sc)
			snapClosed()
		default:
			sr.DialErr = cl.DialWithContext(ctx)
			if sr.DialErr != nil {
				snapClosed()
				return
			}
			sr.SendErr = cl.Send(msgs...)
			sr.CloseErr = cl.Close()
			snapClosed()
		}
	}, func() { sr.Farm.Shutdown() })
	sr.Farm.Shutdown()
	sr.Sessions, sr.Conns = sr.Farm.Snapshot()
	return sr
}

// enumTree runs run(root, script) for every script with at most maxDev(root)
// deviations of the given kinds: a script is extended only at positions after its
// last deviation, so every distinct execution is visited exactly once. run returns
// the number of decision points (steps) the execution had.
func enumTree[C any](r *ev.Run, roots []C, maxDev func(C) int, kinds []string, run func(c C, script []scriptEntry) int) (executions int) {
	type item struct {
		c      C
		script []scriptEntry
	}
	var level []item
	for _, c := range roots {
		level = append(level, item{c, nil})
	}
	for len(level) > 0 {
		var mu sync.Mutex
		var next []item
		cur := level
		executions += len(cur)
		r.Parallel(len(cur), func(i int) {
			it := cur[i]
			steps := run(it.c, it.script)
			if len(it.script) >= maxDev(it.c) {
				return
			}
			last := -1
			if n := len(it.script); n > 0 {
				last = it.script[n-1].Index
			}
			var kids []item
			for pos := last + 1; pos < steps; pos++ {
				for _, k := range kinds {
					sc := append(append([]scriptEntry(nil), it.script...), scriptEntry{Index: pos, Kind: k})
					kids = append(kids, item{it.c, sc})
				}
			}
			mu.Lock()
			next = append(next, kids...)
			mu.Unlock()
		})
		level = next
	}
	return executions
}
