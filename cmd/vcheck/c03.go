//go:build verif

package main

import (
	"bytes"
	"context"
	"encoding/json"
	"fmt"
	"io"
	"strings"
	"sync"
	"sync/atomic"
	"time"

	mail "github.com/wneessen/go-mail"

	"verif/internal/ev"
	"verif/internal/faultio"
	"verif/internal/gen"
	"verif/internal/refsmtp"
)

func init() { register("C03", "fault_enumeration", runC03) }

type c03Case struct {
	Specs      []gen.MsgSpec          `json:"specs"`
	Via        string                 `json:"via"`
	Script     []scriptEntry          `json:"script,omitempty"`
	ProdFaults []map[string]gen.Fault `json:"producer_faults,omitempty"` // per message
	WriteFail  int64                  `json:"transport_write_fail_at"`   // -1: none; absolute offset in the client->server byte stream
	FailClass  string                 `json:"fail_class,omitempty"`
	// Resend: after the faulty call, the messages that were not delivered are sent again by a new call over a
	// healthy transport with all faults disarmed (what a caller does after a failed Send)
	Resend bool `json:"resend,omitempty"`
	// Multiline: the server sends every reply as a multi-line reply
	Multiline bool `json:"multiline_replies,omitempty"`
	// Prior: the same *Msg values have been sent - and delivered - by an earlier, fault-free call
	Prior bool `json:"delivered_before,omitempty"`
	// CtxEnd > 0: the context handed to the *WithContext call is cancelled by the caller while the content of a message
	// is being produced (at the n-th chunk boundary of the writer-backed producers); production then carries on after a
	// short pause. No fault: whatever the call makes of the cancellation, only complete messages may be committed.
	CtxEnd int `json:"context_cancelled_at_chunk,omitempty"`
	// Nils: the batch handed to the call holds nil entries (the API tolerates them) - "front": before the first
	// message, "between": between the messages, "all": both and at the end. The messages themselves are judged as always.
	Nils string `json:"nil_entries_in_the_batch,omitempty"`
}

type c03Dry struct {
	steps     int
	stepVerbs []string
	sent      []byte
}

// c03Batch: the slice handed to the call - the messages, with nil entries where the case says so.
func c03Batch(msgs []*mail.Msg, nils string) []*mail.Msg {
	if nils == "" {
		return msgs
	}
	var b []*mail.Msg
	for i, m := range msgs {
		if i == 0 && (nils == "front" || nils == "all") || i > 0 && (nils == "between" || nils == "all") {
			b = append(b, nil)
		}
		b = append(b, m)
	}
	if nils == "all" {
		b = append(b, nil)
	}
	return b
}

func c03Msgs(c *c03Case, gate *int32, yield func()) ([]*mail.Msg, error) {
	var msgs []*mail.Msg
	for i := range c.Specs {
		env := &gen.Env{Faults: map[string]gen.Fault{}, Yield: yield}
		if i < len(c.ProdFaults) {
			for k, f := range c.ProdFaults[i] {
				f.Gate = gate
				env.Faults[k] = f
			}
		}
		m, err := c.Specs[i].Build(env)
		if err != nil {
			return nil, err
		}
		msgs = append(msgs, m)
	}
	return msgs, nil
}

func runC03Case(r *ev.Run, c c03Case) c03Dry {
	viol := func(key, what string, obs any) {
		r.Violate(ev.Violation{Key: key, What: what, Case: c, Observed: obs})
	}
	var gate int32 = 1
	var cancelFn atomic.Value
	var chunks int32
	var yield func()
	if c.CtxEnd > 0 {
		yield = func() {
			if atomic.AddInt32(&chunks, 1) == int32(c.CtxEnd) {
				if f, ok := cancelFn.Load().(context.CancelFunc); ok {
					f()
					r.Count("contexts_cancelled_inside_a_message", 1)
					time.Sleep(60 * time.Millisecond) // whoever watches the context gets the time to act
				}
			}
		}
	}
	msgs, err := c03Msgs(&c, &gate, yield)
	if err != nil {
		r.HarnessError("C03 build: " + err.Error())
		return c03Dry{}
	}
	if c.Prior {
		atomic.StoreInt32(&gate, 0)
		pr := runSendT(func(int) *refsmtp.Config { return &refsmtp.Config{AllowUTF8: true} }, nil, []mail.Option{mail.WithTLSPolicy(mail.NoTLS)}, msgs, c.Via, false, defaultNetTimeout)
		if pr.Hung || pr.Panic != nil || pr.SendErr != nil || pr.DialErr != nil {
			if c.Specs[0].SMIME != "ed25519-unsupported" {
				r.HarnessError(fmt.Sprintf("C03: the fault-free earlier call failed: %v %v %v", pr.Panic, pr.DialErr, pr.SendErr))
			}
			return c03Dry{}
		}
		atomic.StoreInt32(&gate, 1)
		r.Count("calls_on_messages_delivered_before", 1)
	}
	tmo := defaultNetTimeout
	if c.WriteFail >= 0 {
		tmo = 500 * time.Millisecond // after a transport failure the client waits for its own deadline
	}
	var ctxHook func(context.CancelFunc)
	if c.CtxEnd > 0 {
		ctxHook = func(f context.CancelFunc) { cancelFn.Store(f) }
	}
	sr := runSendFC(&refsmtp.Farm{NewConfig: func(int) *refsmtp.Config {
		return &refsmtp.Config{Decide: scriptDecide(c.Script), AllowUTF8: true, Multiline: c.Multiline}
	}, Wrap: func(n int, tc *faultio.TrackConn) {
		tc.KeepBytes = true
		if n == 0 {
			tc.FailWriteAt = c.WriteFail
		}
	}}, []mail.Option{mail.WithTLSPolicy(mail.NoTLS)}, c03Batch(msgs, c.Nils), c.Via, tmo, ctxHook)
	if c.Nils != "" {
		r.Count("calls_with_nil_entries_in_the_batch", 1)
	}
	atomic.StoreInt32(&gate, 0)
	if sr.Panic != nil {
		viol("panic:"+c.FailClass, fmt.Sprintf("client panicked: %v", sr.Panic), nil)
	}
	if sr.Hung {
		r.Inconclusive(fmt.Sprintf("C03 run hung (returned=%t) class=%s script=%s", sr.Returned, c.FailClass, scriptString(c.Script)))
	}
	dry := c03Dry{}
	if len(sr.Sessions) == 0 {
		return dry
	}
	// the retry: same *Msg values, new call, nothing fails any more
	var sr2 *sendRun
	var resent []int
	if c.Resend && !sr.Hung {
		var again []*mail.Msg
		for i, m := range msgs {
			if !m.IsDelivered() && c.Specs[i].SMIME != "ed25519-unsupported" {
				resent = append(resent, i)
				again = append(again, m)
			}
		}
		if len(again) > 0 {
			sr2 = runSendT(func(int) *refsmtp.Config {
				return &refsmtp.Config{AllowUTF8: true, Multiline: c.Multiline}
			}, func(n int, tc *faultio.TrackConn) { tc.KeepBytes = true }, []mail.Option{mail.WithTLSPolicy(mail.NoTLS)}, again, c.Via, false, defaultNetTimeout)
			if sr2.Panic != nil {
				viol("panic:resend:"+c.FailClass, fmt.Sprintf("client panicked in the retry: %v", sr2.Panic), nil)
			}
			if sr2.Hung {
				r.Inconclusive("C03 retry hung, class=" + c.FailClass)
				sr2 = nil
			}
		}
	}
	// expected renderings, produced after the call with all producer faults disarmed
	exp := make([][]byte, len(msgs))
	unrenderable := map[int]bool{}
	for i, m := range msgs {
		if c.Specs[i].SMIME == "ed25519-unsupported" {
			unrenderable[i] = true // signing always fails: there is no rendering of this message at all
			continue
		}
		var b bytes.Buffer
		if _, err := m.WriteTo(&b); err != nil {
			r.HarnessError(fmt.Sprintf("C03: fault-free rendering of message %d failed after the call: %v", i, err))
			return dry
		}
		e := b.Bytes()
		if !bytes.HasSuffix(e, []byte("\r\n")) {
			e = append(e, '\r', '\n')
		}
		exp[i] = e
	}
	committed := make([]int, len(msgs))     // accepted and acknowledged commits per message
	queuedUnacked := make([]int, len(msgs)) // taken by the server, but the 2yz reply never left (connection lost)
	for si, s := range sr.Sessions {
		cmds, commits, _ := s.Snapshot()
		if si == 0 {
			for _, cr := range cmds {
				dry.stepVerbs = append(dry.stepVerbs, cr.Verb)
				if cr.Index+1 > dry.steps {
					dry.steps = cr.Index + 1
				}
			}
			dry.sent = sr.Conns[0].SentBytes()
		}
		r.Count("commands_observed", int64(len(cmds)))
		r.Seen("transcripts", s.Transcript())
		for _, cm := range commits {
			if !cm.Complete {
				r.Count("incomplete_data_seen_by_server", 1)
				continue
			}
			r.Count("end_of_data_observed", 1)
			if !cm.Accepted {
				continue
			}
			r.Count("commits_accepted", 1)
			which := -1
			for i := range exp {
				if exp[i] != nil && bytes.Equal(cm.Data, exp[i]) {
					which = i
				}
			}
			if which < 0 {
				kind := "mixture"
				for i := range exp {
					if exp[i] == nil {
						continue
					}
					if bytes.HasPrefix(exp[i], bytes.TrimSuffix(cm.Data, []byte("\r\n"))) || bytes.HasPrefix(exp[i], cm.Data) {
						kind = "prefix"
					} else if len(cm.Data) > 0 && bytes.Contains(exp[i], bytes.TrimSuffix(cm.Data, []byte("\r\n"))) && kind != "prefix" {
						kind = "fragment"
					}
				}
				if len(cm.Data) == 0 {
					kind = "empty"
				}
				viol("committed-incomplete:"+kind+":"+c.FailClass, fmt.Sprintf("the server accepted (2yz at end-of-data) %d bytes that are not the complete rendering of any message of the batch (%s of a message); fault class %s", len(cm.Data), kind, c.FailClass), map[string]any{"committed": ev.Q(cm.Data, 600), "transcript": s.Transcript()})
				continue
			}
			if unrenderable[which] {
				viol("committed-unrenderable", fmt.Sprintf("message %d cannot be rendered at all, yet something was committed for it", which), nil)
			}
			if cm.ReplyLost {
				queuedUnacked[which]++
				r.Count("commits_whose_reply_was_lost", 1)
			} else {
				committed[which]++
			}
			// the envelope must be the message's own
			if cm.From != fmt.Sprintf("m%d@sender.example", which) {
				viol("commit-wrong-envelope", fmt.Sprintf("content of message %d committed under reverse-path %s", which, cm.From), nil)
			}
		}
	}
	if sr2 != nil {
		recommitted := make([]int, len(msgs))
		for _, s := range sr2.Sessions {
			_, commits, _ := s.Snapshot()
			for _, cm := range commits {
				if !cm.Complete || !cm.Accepted {
					continue
				}
				r.Count("retry_commits_accepted", 1)
				which := -1
				for _, i := range resent {
					if exp[i] != nil && bytes.Equal(cm.Data, exp[i]) {
						which = i
					}
				}
				if which < 0 {
					kind := "mixture"
					for _, i := range resent {
						if exp[i] == nil {
							continue
						}
						t := bytes.TrimSuffix(cm.Data, []byte("\r\n"))
						if bytes.HasPrefix(exp[i], t) {
							kind = "prefix"
						} else if len(t) > 0 && bytes.Contains(exp[i], t) && kind != "prefix" {
							kind = "fragment"
						} else if kind == "mixture" && len(cm.Data) < len(exp[i]) && cm.From == fmt.Sprintf("m%d@sender.example", i) {
							kind = "shorter"
						}
					}
					viol("retry-committed-incomplete:"+kind+":"+c.FailClass, fmt.Sprintf("after a failed call (%s) the same messages were sent again over a healthy connection: the server accepted %d bytes that are not the complete rendering of any of them (%s)", c.FailClass, len(cm.Data), kind), map[string]any{"committed": ev.Q(cm.Data, 600), "transcript": s.Transcript()})
					continue
				}
				recommitted[which]++
			}
		}
		for _, i := range resent {
			if recommitted[i] != 1 || !msgs[i].IsDelivered() {
				viol("retry-not-delivered:"+c.FailClass, fmt.Sprintf("message %d, sent again over a healthy connection after a failed call, was committed %d times, IsDelivered()=%t, error: %v", i, recommitted[i], msgs[i].IsDelivered(), sr2.SendErr), nil)
			}
		}
		r.Count("retries_run", 1)
	}
	for i, m := range msgs {
		if sr2 != nil {
			break // IsDelivered now speaks about the retry
		}
		if committed[i]+queuedUnacked[i] > 1 {
			viol("committed-twice:"+c.FailClass, fmt.Sprintf("message %d was committed %d times in one call (%d of them with the reply lost on the way)", i, committed[i]+queuedUnacked[i], queuedUnacked[i]), nil)
		}
		if !m.IsDelivered() && committed[i] >= 1 && m.SendError() != nil && strings.Contains(m.SendError().Error(), "i/o timeout") {
			// the client's own deadline fired while the reply was on its way: SMTP cannot decide this
			r.Inconclusive(fmt.Sprintf("message %d committed but the client timed out waiting for the reply (%s)", i, c.FailClass))
		} else if c.Prior {
			// IsDelivered stays true from the earlier call; what this call has to do is report its own failure
			if committed[i] == 0 && sr.SendErr != nil && !m.HasSendError() && len(c.Script) > 0 && queuedUnacked[i] == 0 {
				// (which message a reply deviation hits is not tracked here: judged through the producer faults below)
				r.Count("prior_delivered_messages_not_committed_again", 1)
			}
		} else if m.IsDelivered() != (committed[i] >= 1) {
			viol(fmt.Sprintf("isdelivered-lies:%t-vs-committed-%t:%s", m.IsDelivered(), committed[i] >= 1, c.FailClass), fmt.Sprintf("message %d: IsDelivered()=%t but the server acknowledged its end-of-data %d times; send error: %v", i, m.IsDelivered(), committed[i], m.SendError()), map[string]any{"transcript": sr.Sessions[0].Transcript()})
		}
		if i < len(c.ProdFaults) && len(c.ProdFaults[i]) > 0 {
			// this message's rendering failed if it was reached at all (DATA accepted)
			reached := false
			for _, s := range sr.Sessions {
				cmds, _, _ := s.Snapshot()
				for _, cr := range cmds {
					if cr.Verb == "DATA" && cr.ReplyCode == 354 && cr.Parsed != nil {
						// which message? look back for the MAIL
					}
				}
				for k, cr := range cmds {
					if cr.Verb == "MAIL" && cr.Parsed != nil && cr.Parsed.Path != nil && cr.Parsed.Path.Local == fmt.Sprintf("m%d", i) {
						for _, nx := range cmds[k+1:] {
							if nx.Verb == "MAIL" {
								break
							}
							if nx.Verb == "DATA" && nx.ReplyCode == 354 {
								reached = true
							}
						}
					}
				}
			}
			if reached {
				r.Count("failed_renderings_inside_data", 1)
				if !m.HasSendError() {
					viol("render-failure-not-reported", fmt.Sprintf("message %d: its rendering failed inside DATA but HasSendError() is false (call returned %v; delivered before: %t)", i, sr.SendErr, c.Prior), map[string]any{"transcript": sr.Sessions[0].Transcript()})
				}
				if m.IsDelivered() && !c.Prior {
					viol("render-failure-delivered", fmt.Sprintf("message %d: its rendering failed but IsDelivered() is true", i), nil)
				}
			}
		}
		if unrenderable[i] {
			r.Count("unrenderable_messages_sent", 1)
			if !m.HasSendError() {
				viol("render-failure-not-reported:before-first-byte", fmt.Sprintf("message %d: signing fails, so it cannot be rendered, but HasSendError() is false", i), nil)
			}
			if m.IsDelivered() {
				viol("render-failure-delivered:before-first-byte", fmt.Sprintf("message %d cannot be rendered but IsDelivered() is true", i), nil)
			}
		}
		if m.IsDelivered() {
			r.Count("messages_delivered", 1)
		}
	}
	return dry
}

// c03ConcCase: two goroutines call Send on one established connection; the second call starts while the first one is
// inside its DATA phase (the first message's body producer waits for it).
type c03ConcCase struct {
	Rep       int    `json:"rep"`
	Lines     int    `json:"body_lines"`
	NoNoop    bool   `json:"without_noop,omitempty"`
	SecondVia string `json:"second_call"` // send (Reset racing with a Send is outside the property: RSET aborts a transaction by definition)
}

func runC03Concurrent(r *ev.Run, c c03ConcCase) {
	viol := func(key, what string, obs any) {
		r.Violate(ev.Violation{Key: key, What: what, Case: c, Observed: obs})
	}
	farm := &refsmtp.Farm{NewConfig: func(int) *refsmtp.Config { return &refsmtp.Config{AllowUTF8: true} }}
	defer farm.Shutdown()
	opts := []mail.Option{mail.WithDialContextFunc(farm.Dial), mail.WithTimeout(defaultNetTimeout), mail.WithHELO("client.verif.example"), mail.WithTLSPolicy(mail.NoTLS)}
	if c.NoNoop {
		opts = append(opts, mail.WithoutNoop())
	}
	cl, err := mail.NewClient(netHost, opts...)
	if err != nil {
		r.HarnessError("C03 concurrent NewClient: " + err.Error())
		return
	}
	var armed int32 = 1
	inData := make(chan struct{})
	secondStarted := make(chan struct{})
	var once sync.Once
	body := strings.Repeat("a line of the first message, which is sent by goroutine one\r\n", c.Lines)
	m1, _ := simpleMsg("c03c-0", "m0@sender.example", []string{"r0m0@rcpt.example"}, "quoted-printable", "x")
	m1.SetBodyWriter(mail.TypeTextPlain, func(w io.Writer) (int64, error) {
		half := len(body) / 2
		n1, err := io.WriteString(w, body[:half])
		if err != nil {
			return int64(n1), err
		}
		if atomic.LoadInt32(&armed) == 1 {
			once.Do(func() { close(inData) })
			select {
			case <-secondStarted:
				time.Sleep(30 * time.Millisecond) // let the second call reach whatever it does first
			case <-time.After(2 * time.Second):
			}
		}
		n2, err := io.WriteString(w, body[half:])
		return int64(n1 + n2), err
	})
	m2, _ := simpleMsg("c03c-1", "m1@sender.example", []string{"r0m1@rcpt.example"}, "quoted-printable", "the second message\r\n")
	ctx, cancel := context.WithTimeout(context.Background(), 10*time.Second)
	defer cancel()
	if err := cl.DialWithContext(ctx); err != nil {
		r.HarnessError("C03 concurrent dial: " + err.Error())
		return
	}
	var wg sync.WaitGroup
	var err1, err2 error
	wg.Add(2)
	go func() { defer wg.Done(); err1 = cl.Send(m1) }()
	go func() {
		defer wg.Done()
		select {
		case <-inData:
		case <-time.After(3 * time.Second):
		}
		close(secondStarted)
		switch c.SecondVia {
		case "reset":
			err2 = cl.Reset()
		default:
			err2 = cl.Send(m2)
		}
	}()
	hung, _ := withWatchdog(20*time.Second, wg.Wait, func() { farm.Shutdown() })
	atomic.StoreInt32(&armed, 0)
	if hung {
		r.Inconclusive("C03 concurrent sends hung")
		return
	}
	_ = cl.Close()
	farm.Shutdown()
	r.Count("concurrent_send_pairs", 1)
	msgs := []*mail.Msg{m1, m2}
	exp := make([][]byte, 2)
	for i, m := range msgs {
		var b bytes.Buffer
		if _, err := m.WriteTo(&b); err != nil {
			r.HarnessError("C03 concurrent render: " + err.Error())
			return
		}
		e := b.Bytes()
		if !bytes.HasSuffix(e, []byte("\r\n")) {
			e = append(e, '\r', '\n')
		}
		exp[i] = e
	}
	committed := make([]int, 2)
	sess, _ := farm.Snapshot()
	for _, s := range sess {
		_, commits, pv := s.Snapshot()
		for _, v := range pv {
			if strings.HasPrefix(v, "syntax") {
				continue
			}
			viol("concurrent:protocol:"+strings.SplitN(v, ":", 2)[0], "two overlapping calls on one connection: the reference server automaton reports "+v, s.Transcript())
		}
		for _, cm := range commits {
			if !cm.Complete || !cm.Accepted {
				continue
			}
			r.Count("commits_accepted", 1)
			which := -1
			for i := range exp {
				if bytes.Equal(cm.Data, exp[i]) {
					which = i
				}
			}
			if which < 0 {
				viol("concurrent:committed-incomplete", fmt.Sprintf("two overlapping calls on one connection: the server accepted %d bytes that are not the complete rendering of either message", len(cm.Data)), map[string]any{"committed": ev.Q(cm.Data, 500), "transcript": s.Transcript()})
				continue
			}
			committed[which]++
		}
	}
	for i, m := range msgs {
		if i == 1 && c.SecondVia == "reset" {
			continue
		}
		if committed[i] > 1 {
			viol("concurrent:committed-twice", fmt.Sprintf("message %d committed %d times", i, committed[i]), nil)
		}
		if m.IsDelivered() != (committed[i] >= 1) {
			viol(fmt.Sprintf("concurrent:isdelivered-lies:%t-vs-committed-%t", m.IsDelivered(), committed[i] >= 1), fmt.Sprintf("message %d: IsDelivered()=%t, complete commits %d (errors: %v / %v)", i, m.IsDelivered(), committed[i], err1, err2), sess[0].Transcript())
		}
	}
	r.Eval(fmt.Sprintf("concurrent|%+v", c), true)
}

func c03Spec(r *ev.Run, stream string, idx, mi int) gen.MsgSpec {
	rng := r.Rng(stream, idx*10+mi)
	np := gen.Pick(rng, []int{1, 1, 2})
	ne := gen.Pick(rng, []int{0, 0, 1})
	na := gen.Pick(rng, []int{0, 1, 1, 2})
	s := genSpec(rng, fmt.Sprintf("c03-%d-%d", idx, mi), gen.Pick(rng, []string{"quoted-printable", "base64", "8bit"}), np, ne, na)
	inMemorySources(&s, rng)
	canon8bit(&s)
	s.From = gen.AddrSpec{Addr: fmt.Sprintf("m%d@sender.example", mi)}
	s.To = []gen.AddrSpec{{Addr: fmt.Sprintf("r0m%d@rcpt.example", mi)}, {Addr: fmt.Sprintf("r1m%d@rcpt.example", mi)}}
	for i := range s.Parts {
		if len(s.Parts[i].Content) > 600 {
			s.Parts[i].Content = gen.CanonLF(stripLoneCR(s.Parts[i].Content[:600]))
		}
	}
	return s
}

func runC03(r *ev.Run, rep *ev.ReplayDoc) ev.Summary {
	sum := ev.Summary{
		Rule: "batches of 1-3 seeded messages (C01 shapes, canonical CRLF; for every fourth batch the server sends all its replies as multi-line replies; about half of the batches are handed over with nil entries in front of, between or behind the messages) sent through Send / DialAndSend / SendWithSMTPClient under single faults enumerated per batch: every content producer failing before/inside/after its data; the transport failing writes at offsets of every class inside each message's DATA phase (first byte, header block, every boundary line, part bodies, closing boundary, terminating dot) taken from a dry run; every reply class {4yz,5yz,drop} at every command position, plus 'queued, but the connection dies before the 250 leaves' and a reply that is neither 2yz nor negative (354 / 150 / 334) at end-of-data; plus fault pairs (producer x reply, transport x reply) for small batches; every transport fault, every producer fault inside or after its data and the 4yz/drop replies at DATA / end-of-data / RSET are also run with a retry (the undelivered *Msg values are sent again by a new call over a healthy connection: each must be committed once, complete). Producer faults are also run on messages an earlier fault-free call has already delivered (the failure of the later call still has to be reported on the Msg). Also fault-free messages whose bodies begin with a dot, calls whose context is cancelled by the caller while a message is being produced (no fault), and pairs of overlapping calls on one established connection (the second Send starts while the first call is inside its DATA phase). Oracle compares the reference server's commit log with the complete renderings. non-trivial = a fault was injected; distinct by (batch, fault)",
		Assumptions: []string{
			"expected renderings are produced by the harness after the call with all producer faults disarmed (rendering is repeatable, C11)",
			"what counts as committed is what the reference server received between 354 and CRLF.CRLF and acknowledged with 2yz",
		},
		Floors:     []ev.Floor{{Counter: "evaluations", Min: 300}, {Counter: "commits_accepted", Min: 200}, {Counter: "failed_renderings_inside_data", Min: 20}, {Counter: "incomplete_data_seen_by_server", Min: 20}},
		Exhaustive: false, // reply positions and producers are enumerated completely, transport offsets by class + stride
	}
	if rep != nil {
		var k c03ConcCase
		if err := json.Unmarshal(rep.Case, &k); err == nil && k.Lines > 0 {
			runC03Concurrent(r, k)
			return sum
		}
		var c c03Case
		if err := json.Unmarshal(rep.Case, &c); err != nil {
			r.HarnessError("bad replay case: " + err.Error())
			return sum
		}
		runC03Case(r, c)
		return sum
	}
	nb := r.Pick(10, 60)
	if ev.RaceSlice() {
		nb = 4
	}
	vias := []string{"send", "dialandsend", "withclient"}
	var cases []c03Case
	for b := 0; b < nb; b++ {
		size := 1 + b%3
		base := c03Case{Via: vias[b%3], WriteFail: -1, Multiline: b%4 == 1}
		if b%3 == 2 || b%5 == 1 {
			// the batch the caller hands over holds nil entries
			base.Nils = []string{"front", "between", "all"}[(b/2)%3]
		}
		for mi := 0; mi < size; mi++ {
			base.Specs = append(base.Specs, c03Spec(r, "c03", b, mi))
		}
		// dry run (also a fault-free case)
		base.FailClass = "none"
		dry := runC03Case(r, base)
		r.Eval(fmt.Sprintf("batch%d|none", b), false)
		mk := func() c03Case {
			c := base
			c.Specs = base.Specs
			return c
		}
		// (iii) reply scripts: one deviation at every position
		for pos := 0; pos < dry.steps; pos++ {
			kinds := devKinds
			if pos < len(dry.stepVerbs) && dry.stepVerbs[pos] == "DATA-END" {
				kinds = append(append([]string{}, devKinds...), "queue-then-drop", "odd-positive")
			}
			for _, k := range kinds {
				c := mk()
				c.Script = []scriptEntry{{Index: pos, Kind: k}}
				verb := "?"
				if pos < len(dry.stepVerbs) {
					verb = dry.stepVerbs[pos]
				}
				c.FailClass = "reply-" + k + "-at-" + verb
				cases = append(cases, c)
				if (verb == "DATA-END" || verb == "DATA" || verb == "RSET") && k != "5yz" {
					c.Resend = true
					cases = append(cases, c)
				}
			}
		}
		// (iv) a message whose rendering fails before the first byte (S/MIME with a key type the signer
		// does not support): nothing of it may be committed, the other messages of the batch are unaffected
		for mi := range base.Specs {
			c := mk()
			c.Specs = append([]gen.MsgSpec{}, base.Specs...)
			c.Specs[mi].SMIME = "ed25519-unsupported"
			c.FailClass = "render-fails-before-first-byte"
			cases = append(cases, c)
		}
		// (i) producer faults
		for mi := range base.Specs {
			for _, p := range producers(&base.Specs[mi]) {
				for _, after := range []int{0, 5, -1} {
					c := mk()
					c.ProdFaults = make([]map[string]gen.Fault, len(base.Specs))
					c.ProdFaults[mi] = map[string]gen.Fault{p: {After: after, ErrKind: []string{"", "eof", "wrapped-eof", "unexpected-eof"}[(mi+after+len(p)+b)%4]}}
					c.FailClass = fmt.Sprintf("producer-%s-after%d", strings.TrimRight(p, "0123456789"), after)
					cases = append(cases, c)
					if after != 0 {
						// ... and the caller sends the undelivered messages again once the producer works
						cr := c
						cr.Resend = true
						cases = append(cases, cr)
					}
					if after == 5 {
						// ... or the messages had been delivered by an earlier call (newsletter re-use) before this one fails
						cp := c
						cp.Prior = true
						cp.FailClass += "+delivered-before"
						cases = append(cases, cp)
					}
					// pair: producer fault x reply deviation at DATA-END / RSET / next MAIL
					if size <= 2 || r.Thorough() {
						for pos := 0; pos < dry.steps; pos++ {
							if pos >= len(dry.stepVerbs) {
								break
							}
							v := dry.stepVerbs[pos]
							if v != "RSET" && v != "DATA-END" && v != "MAIL" && v != "NOOP" {
								continue
							}
							if after != 5 {
								continue
							}
							c2 := c
							c2.Script = []scriptEntry{{Index: pos, Kind: devKinds[(pos+mi)%3]}}
							c2.FailClass = c.FailClass + "+reply-at-" + v
							cases = append(cases, c2)
						}
					}
				}
			}
		}
		// (ii) transport write faults inside every DATA phase
		sent := dry.sent
		off := 0
		for {
			i := bytes.Index(sent[off:], []byte("DATA\r\n"))
			if i < 0 {
				break
			}
			start := off + i + 6
			end := bytes.Index(sent[start:], []byte("\r\n.\r\n"))
			if end < 0 {
				break
			}
			end += start
			marks := map[int64]string{int64(start): "first-data-byte", int64(start + 1): "header-block", int64(start + 40): "header-block", int64(end): "before-terminator", int64(end + 2): "at-dot", int64(end + 3): "after-dot", int64(end + 4): "terminator-lf", int64(start - 6): "data-command", int64(start - 1): "data-command"}
			hdrEnd := bytes.Index(sent[start:end], []byte("\r\n\r\n"))
			if hdrEnd > 0 {
				marks[int64(start+hdrEnd)] = "end-of-headers"
				marks[int64(start+hdrEnd+4)] = "first-body-byte"
			}
			// boundary lines
			for p := start; p < end; {
				j := bytes.Index(sent[p:end], []byte("\r\n--"))
				if j < 0 {
					break
				}
				marks[int64(p+j+2)] = "boundary-line"
				marks[int64(p+j+10)] = "inside-boundary-line"
				p += j + 4
			}
			step := (end - start) / r.Pick(6, 40)
			if step < 1 {
				step = 1
			}
			for p := start; p < end; p += step {
				if _, ok := marks[int64(p)]; !ok {
					marks[int64(p)] = "inside-content"
				}
			}
			for at, cls := range marks {
				c := mk()
				c.WriteFail = at
				c.FailClass = "transport-" + cls
				cases = append(cases, c)
				c.Resend = true
				cases = append(cases, c)
			}
			off = end + 5
		}
	}
	r.Parallel(len(cases), func(i int) {
		c := cases[i]
		runC03Case(r, c)
		pf := ""
		for mi, m := range c.ProdFaults {
			for k, f := range m {
				pf += fmt.Sprintf("%d:%s@%d", mi, k, f.After)
			}
		}
		r.Eval(fmt.Sprintf("%s|%s|%s|%d|%s|%t|%t|%t", c.Specs[0].ID, c.Via, scriptString(c.Script), c.WriteFail, pf, c.Resend, c.Multiline, c.Prior), true)
		r.Seen("fault_classes", c.FailClass)
		if i%401 == 0 {
			r.Sample(map[string]any{"batch": len(c.Specs), "via": c.Via, "fault_class": c.FailClass, "script": scriptString(c.Script), "write_fail_at": c.WriteFail})
		}
	})
	// fault-free batches whose bodies begin with a dot (a line with nothing but a dot, a dot followed by text): the first
	// line of a body sits at a line start like any other
	var dc []c03Case
	dn := 0
	for _, enc := range []string{"quoted-printable", "8bit", "base64"} {
		for _, body := range []string{".\r\nsecond line\r\n", ".signature line\r\nmore text\r\n", "..\r\n.\r\n...\r\n", ".", ".\r\n"} {
			for _, via := range []string{"send", "dialandsend"} {
				for nparts := 1; nparts <= 2; nparts++ {
					dn++
					sp := gen.MsgSpec{ID: fmt.Sprintf("c03-dot-%d", dn), Enc: enc, Subject: "leading dot", From: gen.AddrSpec{Addr: "m0@sender.example"},
						To: []gen.AddrSpec{{Addr: "r0m0@rcpt.example"}}}
					for k := 0; k < nparts; k++ {
						ps := gen.PartSpec{Type: []string{"text/plain", "text/html"}[k], Content: []byte(body)}
						if dn%3 == 0 {
							ps.Via, ps.Chunk = "writer", []int{1, 2, 64}[dn%3]
						}
						sp.Parts = append(sp.Parts, ps)
					}
					dc = append(dc, c03Case{Via: via, WriteFail: -1, FailClass: "none:body-starts-with-a-dot", Specs: []gen.MsgSpec{sp}})
				}
			}
		}
	}
	r.ParallelN(8, len(dc), func(i int) {
		runC03Case(r, dc[i])
		r.Eval(dc[i].Specs[0].ID+"|"+dc[i].Via, false)
	})
	// the caller's context ends while a message is being produced (no fault at all)
	var xc []c03Case
	for b := 0; b < r.Pick(6, 30); b++ {
		for _, via := range []string{"dialandsend", "withclient"} {
			for _, at := range []int{1, 3, 7} {
				c := c03Case{Via: via, WriteFail: -1, FailClass: "context-cancelled-inside-message", CtxEnd: at}
				for mi := 0; mi < 1+b%2; mi++ {
					sp := c03Spec(r, "c03ctx", b, mi)
					for pi := range sp.Parts {
						sp.Parts[pi].Via, sp.Parts[pi].Chunk = "writer", 64
					}
					c.Specs = append(c.Specs, sp)
				}
				xc = append(xc, c)
			}
		}
	}
	r.ParallelN(8, len(xc), func(i int) {
		runC03Case(r, xc[i])
		r.Eval(fmt.Sprintf("%s|%s|ctxend%d", xc[i].Specs[0].ID, xc[i].Via, xc[i].CtxEnd), true)
	})
	// overlapping calls on one connection
	var cc []c03ConcCase
	for rep := 0; rep < r.Pick(12, 120); rep++ {
		cc = append(cc, c03ConcCase{Rep: rep, Lines: []int{40, 400, 3000}[rep%3], NoNoop: rep%4 == 3, SecondVia: "send"})
	}
	r.ParallelN(4, len(cc), func(i int) { runC03Concurrent(r, cc[i]) })
	r.CollectRaceLogs()
	return sum
}
