//go:build verif

package main

import (
	"bytes"
	"crypto/sha256"
	"encoding/json"
	"encoding/pem"
	"fmt"
	"io"
	mrand "math/rand"
	"os"
	"os/exec"
	"path/filepath"
	"runtime"
	"strings"
	"sync"

	mail "github.com/wneessen/go-mail"

	"verif/internal/cms"
	"verif/internal/ev"
	"verif/internal/gen"
	"verif/internal/mimeread"
)

func init() { register("C08", "exploration", runC08) }

type c08Case struct {
	Spec     gen.MsgSpec `json:"spec"`
	Features []string    `json:"features"` // empty-genheader, ignored-invalid-cc, ignored-invalid-to-partial, preformatted, preformatted-multiline, long-subject, envelope-from-only, bcc
	OpenSSL  bool        `json:"openssl"`
	// Mutate: builder calls made on the message after it has been rendered (and signed) twice; it is then rendered a
	// third time: add-alternative, attach, embed, subject, gen-header, set-body, add-to
	Mutate []string `json:"mutate_after_render,omitempty"`
}

func c08Mutate(m *mail.Msg, ops []string) {
	for _, op := range ops {
		switch op {
		case "add-alternative":
			m.AddAlternativeString(mail.TypeTextHTML, "<p>added after the first signing</p>\r\n")
		case "attach":
			_ = m.AttachReader("late.txt", strings.NewReader("attached after the first signing\r\n"))
		case "embed":
			_ = m.EmbedReader("late.png", strings.NewReader("embedded after the first signing\r\n"))
		case "subject":
			m.Subject("changed after the first signing")
		case "gen-header":
			m.SetGenHeader("X-Late", "added after the first signing")
		case "set-body":
			m.SetBodyString(mail.TypeTextPlain, "body replaced after the first signing\r\n")
		case "add-to":
			_ = m.AddTo("late@example.net")
		}
	}
}

const opensslBin = "/usr/bin/openssl"

var (
	c08RootOnce sync.Once
	c08RootPEM  string
)

func c08RootFile() string {
	c08RootOnce.Do(func() {
		f, err := os.CreateTemp("", "verif-c08-root-*.pem")
		if err != nil {
			return
		}
		_ = pem.Encode(f, &pem.Block{Type: "CERTIFICATE", Bytes: gen.Keys().RootCert.Raw})
		_ = f.Close()
		c08RootPEM = f.Name()
	})
	return c08RootPEM
}

func c08Build(c *c08Case) (*mail.Msg, error) {
	spec := c.Spec
	spec.Middleware = nil
	late := false
	for _, f := range c.Features {
		if k, ok := strings.CutPrefix(f, "mw-"); ok {
			spec.Middleware = append(spec.Middleware, k)
		}
		if f == "sign-via-tls-certificate" {
			spec.SignVia = "tlscert"
		}
		if f == "unsigned-render-first" || f == "unsigned-reader-first" {
			late = true
		}
	}
	spec.SignLate = late
	m, err := spec.Build(&gen.Env{})
	if err != nil {
		return nil, err
	}
	for _, f := range c.Features {
		switch f {
		case "empty-genheader":
			m.SetGenHeader("X-Empty-Header")
		case "ignored-invalid-cc":
			m.CcIgnoreInvalid("invalid address")
		case "ignored-invalid-to-partial":
			m.ToIgnoreInvalid("rcpt@example.net", "broken@", "second@example.net")
		case "preformatted":
			m.SetGenHeaderPreformatted("X-Preformatted", "one line value")
		case "preformatted-multiline":
			m.SetGenHeaderPreformatted("X-Preformatted-Multi", "first line\r\n second line\r\n third line")
		case "long-subject":
			m.Subject(strings.Repeat("a long subject that has to be folded ", 8) + "Grüße")
		case "bcc":
			_ = m.AddBcc("hidden@example.org")
		case "importance":
			m.SetImportance(mail.ImportanceHigh)
		case "mdn":
			_ = m.RequestMDNTo("mdn@example.com")
		}
	}
	if late {
		// the message is rendered (preview, archive copy) before signing is configured
		for _, f := range c.Features {
			switch f {
			case "unsigned-render-first":
				_, _ = m.WriteTo(io.Discard)
			case "unsigned-reader-first":
				_, _ = io.Copy(io.Discard, m.NewReader())
			}
		}
		if err := spec.Sign(m); err != nil {
			return nil, err
		}
	}
	return m, nil
}

func c08Feature(c *c08Case) string {
	s := &c.Spec
	var fs []string
	fs = append(fs, c.Features...)
	for _, f := range append(append([]gen.FileSpec{}, s.Embeds...), s.Attach...) {
		if f.Enc == "8bit" {
			fs = append(fs, "file-8bit")
			break
		}
	}
	for _, p := range s.Parts {
		if p.Desc != "" {
			fs = append(fs, "part-description")
			break
		}
	}
	if s.Boundary != "" {
		fs = append(fs, "custom-boundary")
	}
	if len(s.Parts) == 0 {
		if len(s.Embeds)+len(s.Attach) == 1 {
			fs = append(fs, "single-file-no-body")
		} else {
			fs = append(fs, "files-no-body")
		}
	}
	if len(s.Parts) == 1 && len(s.Embeds)+len(s.Attach) == 0 {
		fs = append(fs, "single-part")
	}
	if len(fs) == 0 {
		return "plain-multipart"
	}
	return strings.Join(fs, "+")
}

// verifySigned checks one rendering; returns the signed entity.
func verifySigned(out []byte, withInt bool, keyType string) (entity []byte, probs []string) {
	root := mimeread.Parse(out)
	if root.MediaType != "multipart/signed" {
		return nil, []string{"structure: top-level type is " + root.MediaType + ", not multipart/signed"}
	}
	// only the signed container itself is judged here: how the signed entity is structured inside
	// (e.g. nested containers sharing a caller-defined boundary) is not this property's business
	for _, p := range root.Problems {
		if structuralCodes[p.Code] {
			probs = append(probs, "structure: "+p.String())
		}
	}
	if proto, _ := mimeread.GetParam(root.CTParams, "protocol"); proto != "application/pkcs7-signature" && proto != "application/x-pkcs7-signature" {
		probs = append(probs, fmt.Sprintf("protocol: protocol parameter is %q", proto))
	}
	if mic, _ := mimeread.GetParam(root.CTParams, "micalg"); strings.ToLower(mic) != "sha-256" && strings.ToLower(mic) != "sha256" {
		probs = append(probs, fmt.Sprintf("micalg: micalg parameter is %q", mic))
	}
	if len(root.Children) != 2 {
		probs = append(probs, fmt.Sprintf("structure: multipart/signed has %d body parts, expected 2", len(root.Children)))
		return nil, probs
	}
	if !root.Closed {
		probs = append(probs, "structure: multipart/signed is not closed")
	}
	entity = root.Children[0].Raw
	sig := root.Children[1]
	if sig.MediaType != "application/pkcs7-signature" && sig.MediaType != "application/x-pkcs7-signature" {
		probs = append(probs, "structure: second body part is "+sig.MediaType)
	}
	der, dprobs := sig.DecodeLeaf()
	for _, p := range dprobs {
		if strings.HasPrefix(p, "b64-") && p != "b64-no-final-crlf" {
			probs = append(probs, "signature-encoding: "+p)
		}
	}
	info, cprobs := cms.Verify(der, entity)
	probs = append(probs, cprobs...)
	if info != nil {
		want := 1
		if withInt {
			want = 2
		}
		if len(info.Certificates) != want {
			probs = append(probs, fmt.Sprintf("certificates: %d certificates carried, expected %d (intermediate given: %t)", len(info.Certificates), want, withInt))
		}
		if withInt && keyType == "ecdsa-rootgiven" && len(info.Certificates) == 2 {
			// the certificate the caller gave is the chain's root, not the issuer: it is carried all the same
			if !info.Certificates[0].Equal(gen.Keys().RootCert) && !info.Certificates[1].Equal(gen.Keys().RootCert) {
				probs = append(probs, "certificates: the certificate given as intermediate is not among the carried certificates")
			}
		} else if withInt && len(info.Certificates) == 2 && info.SignerCert != nil {
			if err := info.SignerCert.CheckSignatureFrom(info.Certificates[1]); err != nil {
				probs = append(probs, "certificates: the second carried certificate did not issue the signer certificate")
			}
		}
		if info.SignerCert != nil {
			isRSA := info.SignerCert.PublicKeyAlgorithm.String() == "RSA"
			if isRSA != strings.HasPrefix(keyType, "rsa") {
				probs = append(probs, "signer: signer certificate key type does not match the key the caller signed with")
			}
		}
		if len(info.AttrMessageDigest) > 0 {
			h := sha256.Sum256(entity)
			if !bytes.Equal(h[:], info.AttrMessageDigest) {
				// cms.Verify already reports digest-mismatch; keep one entry
			}
		}
	}
	return entity, probs
}

func probCode(p string) string {
	c, _, _ := strings.Cut(p, ":")
	return strings.TrimSpace(c)
}

func opensslVerify(out []byte, chain bool) (ok bool, msg string) {
	f, err := os.CreateTemp("", "verif-c08-*.eml")
	if err != nil {
		return true, ""
	}
	defer os.Remove(f.Name())
	_, _ = f.Write(out)
	_ = f.Close()
	args := []string{"smime", "-verify", "-in", f.Name(), "-out", os.DevNull}
	if chain {
		args = append(args, "-CAfile", c08RootFile(), "-purpose", "any")
	} else {
		args = append(args, "-noverify")
	}
	cmd := exec.Command(opensslBin, args...)
	cmd.Env = append(os.Environ(), "OPENSSL_CONF=/dev/null")
	b, err := cmd.CombinedOutput()
	if err != nil {
		return false, strings.TrimSpace(string(b))
	}
	return true, ""
}

// c08Verify renders the case twice (three times with mutations: they are applied before the third render) and
// returns the problems per render.
func c08Verify(r *ev.Run, c c08Case, count bool) (probs [3][]string, outs [3][]byte, err error) {
	m, berr := c08Build(&c)
	if berr != nil {
		return probs, outs, berr
	}
	renders := 2
	if len(c.Mutate) > 0 {
		renders = 3
	}
	for render := 0; render < renders; render++ {
		if render == 2 {
			c08Mutate(m, c.Mutate)
		}
		var buf bytes.Buffer
		var werr error
		func() {
			defer func() {
				if p := recover(); p != nil {
					werr = fmt.Errorf("panic: %v", p)
				}
			}()
			_, werr = m.WriteTo(&buf)
		}()
		if werr != nil {
			probs[render] = []string{"render-error: " + werr.Error()}
			return probs, outs, nil
		}
		outs[render] = buf.Bytes()
		_, p := verifySigned(buf.Bytes(), c.Spec.WithInt, c.Spec.SMIME)
		probs[render] = p
		if count {
			r.Count("signatures_verified", 1)
			if render == 2 {
				r.Count("signatures_verified_after_mutation", 1)
			}
		}
	}
	return probs, outs, nil
}

func hardProblems(ps []string) []string {
	var out []string
	seen := map[string]bool{}
	for _, p := range ps {
		c := probCode(p)
		if !seen[c] {
			seen[c] = true
			out = append(out, p)
		}
	}
	return out
}

func runC08Case(r *ev.Run, c c08Case) {
	viol := func(key, what string, obs any) {
		r.Violate(ev.Violation{Key: key, What: what, Case: c, Observed: obs})
	}
	probs, outs, err := c08Verify(r, c, true)
	if err != nil {
		r.HarnessError("C08 build: " + err.Error())
		return
	}
	feat := c08Feature(&c)
	failing := len(probs[0])+len(probs[1])+len(probs[2]) > 0
	if failing {
		// find a minimal set of removable features that still fails (greedy delta)
		min := c
		min.Features = append([]string{}, c.Features...)
		for _, f := range c.Features {
			var without []string
			for _, g := range min.Features {
				if g != f {
					without = append(without, g)
				}
			}
			t := min
			t.Features = without
			if p, _, e := c08Verify(r, t, false); e == nil && len(p[0])+len(p[1])+len(p[2]) > 0 {
				min = t
			}
		}
		// spec-derived features: try to remove part descriptions and 8bit file encodings
		t := min
		t.Spec = c.Spec
		t.Spec.Parts = append([]gen.PartSpec{}, c.Spec.Parts...)
		for i := range t.Spec.Parts {
			t.Spec.Parts[i].Desc = ""
		}
		if p, _, e := c08Verify(r, t, false); e == nil && len(p[0])+len(p[1])+len(p[2]) > 0 {
			min = t
		}
		t = min
		t.Spec.Embeds = append([]gen.FileSpec{}, min.Spec.Embeds...)
		t.Spec.Attach = append([]gen.FileSpec{}, min.Spec.Attach...)
		for i := range t.Spec.Embeds {
			if t.Spec.Embeds[i].Enc == "8bit" {
				t.Spec.Embeds[i].Enc = ""
			}
		}
		for i := range t.Spec.Attach {
			if t.Spec.Attach[i].Enc == "8bit" {
				t.Spec.Attach[i].Enc = ""
			}
		}
		if p, _, e := c08Verify(r, t, false); e == nil && len(p[0])+len(p[1])+len(p[2]) > 0 {
			min = t
		}
		feat = c08Feature(&min)
		r.Count("minimised_failing_cases", 1)
	}
	for render := 0; render < 3; render++ {
		if render == 2 && len(probs[2]) > 0 && len(probs[0])+len(probs[1]) == 0 {
			feat = "after-" + strings.Join(c.Mutate, "+") + ":" + feat
		}
		for _, p := range hardProblems(probs[render]) {
			viol(fmt.Sprintf("%s:%s", probCode(p), feat), fmt.Sprintf("render %d (%s key, intermediate=%t): the signature does not verify: %s (minimal failing feature set: %s)", render+1, c.Spec.SMIME, c.Spec.WithInt, p, feat), ev.Q(outs[render], 2500))
		}
		if c.OpenSSL && outs[render] != nil {
			ok, msg := opensslVerify(outs[render], false)
			r.Count("openssl_verifications", 1)
			if !ok && len(probs[render]) == 0 {
				viol("openssl-disagrees:"+feat, "own CMS verifier accepts, openssl smime -verify rejects: "+ev.Trunc(msg, 400), ev.Q(outs[render], 2500))
			}
			if ok && len(probs[render]) > 0 {
				onlySoft := true
				for _, p := range probs[render] {
					switch probCode(p) {
					case "attrs-not-der-sorted", "certificates", "protocol", "micalg", "trailing-data":
					case "digest-alg-unsupported":
						// a digest other than SHA-256 (the one the property names and micalg announces) is a finding about
						// the message, not a disagreement between the verifiers: OpenSSL accepts any digest it knows
					default:
						onlySoft = false
					}
				}
				if !onlySoft {
					r.HarnessError(fmt.Sprintf("C08: own verifier rejects (%v) but openssl accepts - the verifier is wrong (feature %s)", probs[render], feat))
				}
			}
			if c.Spec.WithInt && len(probs[render]) == 0 && c.Spec.SMIME != "ecdsa-rootgiven" {
				ok, msg := opensslVerify(outs[render], true)
				r.Count("openssl_chain_verifications", 1)
				if !ok {
					viol("openssl-chain:"+feat, "openssl cannot verify with the chain root <- intermediate <- signer from the carried certificates: "+ev.Trunc(msg, 400), nil)
				}
			}
		}
	}
	r.Seen("features", c08Feature(&c))
	r.Eval(c.Spec.Shape()+"|"+c08Feature(&c), true)
}

var c08Mutations = []string{"add-alternative", "attach", "embed", "subject", "gen-header", "set-body", "add-to"}

var c08Features = []string{"unsigned-render-first", "unsigned-reader-first", "sign-via-tls-certificate", "mw-footer", "mw-header", "mw-encoding", "mw-attach", "empty-genheader", "ignored-invalid-cc", "ignored-invalid-to-partial", "preformatted", "preformatted-multiline", "long-subject", "bcc", "importance", "mdn"}

func genC08(rng *mrand.Rand, id string, p, e, a int, enc string) c08Case {
	s := genSpec(rng, id, enc, p, e, a)
	inMemorySources(&s, rng)
	canon8bit(&s)
	for i := range s.Parts {
		s.Parts[i].Content = gen.CanonLF(stripLoneCR(s.Parts[i].Content))
		if rng.Intn(4) == 0 {
			s.Parts[i].Desc = gen.Pick(rng, []string{"a part description", "Beschreibung mit Ümlaut", "説明 of the part", "a part description"})
		}
	}
	fix := func(fs []gen.FileSpec) {
		for i := range fs {
			fs[i].Content = gen.CanonLF(stripLoneCR(fs[i].Content))
		}
	}
	fix(s.Embeds)
	fix(s.Attach)
	s.SMIME = gen.Pick(rng, []string{"rsa", "ecdsa", "rsa", "ecdsa", "rsa-ca384", "ecdsa-ca384", "rsa-sameserial", "rsa-utf8issuer", "ecdsa-rootgiven", "ecdsa-p384", "ecdsa-p521"})
	s.WithInt = rng.Intn(2) == 0
	if s.SMIME == "rsa-sameserial" || s.SMIME == "rsa-utf8issuer" || s.SMIME == "ecdsa-rootgiven" {
		s.WithInt = true
	}
	if rng.Intn(6) == 0 {
		s.Boundary = "verif-custom-boundary-0123456789"
	}
	c := c08Case{Spec: s}
	if rng.Intn(4) == 0 {
		for k := 0; k < 1+rng.Intn(2); k++ {
			c.Mutate = append(c.Mutate, gen.Pick(rng, c08Mutations))
		}
	}
	for _, f := range c08Features {
		if rng.Intn(7) == 0 {
			c.Features = append(c.Features, f)
		}
	}
	return c
}

// runC08Concurrent: eight goroutines, each with a signed message of its own (distinct content, 3 MiB attachment),
// render at the same time; every output has to verify.
func runC08Concurrent(r *ev.Run, round int) {
	const n = 8
	outs := make([][]byte, n)
	errs := make([]error, n)
	kinds := make([]string, n)
	var msgs []*mail.Msg
	for g := 0; g < n; g++ {
		line := fmt.Sprintf("line of the attachment of message %d in round %d, some filler text to make it long\r\n", g, round)
		s := gen.MsgSpec{ID: fmt.Sprintf("c08-conc-%d-%d", round, g), Enc: "quoted-printable", Subject: "concurrent signed render", From: gen.AddrSpec{Addr: "sender@example.com"},
			To:     []gen.AddrSpec{{Addr: "rcpt@example.net"}},
			Parts:  []gen.PartSpec{{Type: "text/plain", Content: []byte(fmt.Sprintf("body of message %d\r\n", g))}},
			Attach: []gen.FileSpec{{Name: "big.txt", Enc: []string{"8bit", "base64"}[g%2], Content: bytes.Repeat([]byte(line), 3000000/len(line))}},
			SMIME:  []string{"rsa", "ecdsa"}[g%2], WithInt: g%4 < 2}
		kinds[g] = s.SMIME
		m, err := s.Build(&gen.Env{})
		if err != nil {
			r.HarnessError("C08 concurrent build: " + err.Error())
			return
		}
		msgs = append(msgs, m)
	}
	var wg sync.WaitGroup
	start := make(chan struct{})
	for g := 0; g < n; g++ {
		wg.Add(1)
		go func(g int) {
			defer wg.Done()
			var b bytes.Buffer
			<-start
			_, errs[g] = msgs[g].WriteTo(&b)
			outs[g] = b.Bytes()
		}(g)
	}
	close(start)
	wg.Wait()
	r.Count("concurrent_signed_renders", n)
	for g := 0; g < n; g++ {
		if errs[g] != nil {
			r.Violate(ev.Violation{Key: "render-error:concurrent-renders", What: fmt.Sprintf("signed message %d rendered while %d others render: WriteTo returned %v", g, n-1, errs[g]), Case: map[string]any{"concurrent_round": round}})
			continue
		}
		_, probs := verifySigned(outs[g], g%4 < 2, kinds[g])
		for _, p := range hardProblems(probs) {
			r.Violate(ev.Violation{Key: probCode(p) + ":concurrent-renders", What: fmt.Sprintf("signed message %d (%s key) rendered while %d other goroutines render messages of their own: the signature does not verify: %s", g, kinds[g], n-1, p), Case: map[string]any{"concurrent_round": round}, Observed: ev.Q(outs[g], 1200)})
		}
		r.Count("signatures_verified", 1)
	}
	r.Eval(fmt.Sprintf("concurrent|%d", round), true)
}

func runC08(r *ev.Run, rep *ev.ReplayDoc) ev.Summary {
	sum := ev.Summary{
		Rule: "S/MIME-signed messages over enumerated shapes (parts 0-3 x embeds 0-2 x attachments 0-2) and random specs with canonical-CRLF content, every transfer encoding per part and file, part and file descriptions that need encoded-words under every message encoding and charset, empty generic headers, address lists emptied by the IgnoreInvalid setters, (multi-line) preformatted headers, long folded headers, signing configured through SignWithTLSCertificate, signing configured after the message has been rendered unsigned, message middlewares that change the body / a header / the part encoding / add an attachment, RSA-2048 and ECDSA (P-256, P-384, P-521) signer certificates with and without the intermediate, also leaves whose own certificate is signed ecdsa-with-SHA384 by a P-384 CA, a leaf that has the same serial number as its issuing intermediate, a leaf whose issuer field spells the intermediate's name in another string encoding, and the chain's root handed over in place of the direct issuer; each message rendered twice, and a third time after further builder calls (add an alternative / attachment / embed, change subject or header, replace the body, add a recipient). Also eight goroutines that sign and render large messages of their own at the same time. The harness splits multipart/signed with its own MIME reader and verifies the detached CMS SignedData with its own verifier; openssl smime -verify cross-checks (all cases in quick, a sample in thorough). distinct by (shape, features)",
		Assumptions: []string{
			"the signed entity is the first body part exactly as emitted, without the CRLF that belongs to the following delimiter (RFC 1847)",
			"trust in the harness CMS verifier is established per run against OpenSSL 3 on every cross-checked message (a disagreement in the accepting direction is a harness error)",
		},
		Floors: []ev.Floor{{Counter: "signatures_verified", Min: 400}, {Counter: "openssl_verifications", Min: 100}, {Counter: "features", Min: 10}},
	}
	_ = filepath.Join
	if rep != nil {
		var cr struct {
			Round *int `json:"concurrent_round"`
		}
		if json.Unmarshal(rep.Case, &cr) == nil && cr.Round != nil {
			runC08Concurrent(r, *cr.Round)
			return sum
		}
		var c c08Case
		if err := json.Unmarshal(rep.Case, &c); err != nil {
			r.HarnessError("bad replay case: " + err.Error())
			return sum
		}
		runC08Case(r, c)
		return sum
	}
	if _, err := os.Stat(opensslBin); err != nil {
		r.HarnessError("openssl not found at " + opensslBin)
		return sum
	}
	defer func() {
		if c08RootPEM != "" {
			_ = os.Remove(c08RootPEM)
		}
	}()
	var cases []c08Case
	n := 0
	maxP, maxE, maxA := 2, 1, 1
	if r.Thorough() {
		maxP, maxE, maxA = 3, 2, 2
	}
	for p := 0; p <= maxP; p++ {
		for e := 0; e <= maxE; e++ {
			for a := 0; a <= maxA; a++ {
				if p+e+a == 0 {
					continue
				}
				for _, enc := range msgEncs {
					n++
					c := genC08(r.Rng("c08e", n), fmt.Sprintf("c08-e%d", n), p, e, a, enc)
					c.OpenSSL = !r.Thorough() || n%4 == 0
					cases = append(cases, c)
				}
			}
		}
	}
	// every single feature on a small multipart shape, both key types
	for _, f := range c08Features {
		for _, k := range []string{"rsa", "ecdsa"} {
			n++
			c := genC08(r.Rng("c08f", n), fmt.Sprintf("c08-f%d", n), 1+n%2, 0, n%2, "quoted-printable")
			c.Spec.SMIME = k
			c.Features = []string{f}
			c.OpenSSL = true
			cases = append(cases, c)
		}
	}
	// header values of the signed part that are encoded on every render (part and file descriptions, file names), under
	// every message encoding (it selects the encoded-word flavour) and charset, both key types
	for _, enc := range msgEncs {
		for _, cs := range []string{"", "ISO-8859-1", "ISO-8859-15", "US-ASCII"} {
			for _, k := range []string{"rsa", "ecdsa"} {
				n++
				rng := r.Rng("c08d", n)
				c := genC08(rng, fmt.Sprintf("c08-d%d", n), 1+n%2, n%2, (n/2)%2, enc)
				c.Spec.SMIME, c.Spec.Charset = k, cs
				for i := range c.Spec.Parts {
					c.Spec.Parts[i].Desc = gen.Pick(rng, []string{"Beschreibung mit Ümlaut", "説明 of the part", "déjà vu – description"})
				}
				for i := range c.Spec.Embeds {
					c.Spec.Embeds[i].Desc = "Bild für den Text"
				}
				for i := range c.Spec.Attach {
					c.Spec.Attach[i].Desc = "Anhang – größer"
				}
				c.Features = nil
				c.OpenSSL = n%3 == 0
				cases = append(cases, c)
			}
		}
	}
	// a caller-defined boundary on every multi-leaf shape, both key types
	for p := 1; p <= 2; p++ {
		for a := 0; a <= 1; a++ {
			for e := 0; e <= 1; e++ {
				for _, k := range []string{"rsa", "ecdsa"} {
					n++
					c := genC08(r.Rng("c08b", n), fmt.Sprintf("c08-b%d", n), p, e, a, "quoted-printable")
					c.Spec.SMIME = k
					c.Spec.Boundary = "verif-custom-boundary-0123456789"
					c.Features = nil
					c.OpenSSL = n%2 == 0
					cases = append(cases, c)
				}
			}
		}
	}
	// every mutation between renders on small shapes, both key types
	for _, mu := range c08Mutations {
		for _, k := range []string{"rsa", "ecdsa"} {
			for shape := 0; shape < 3; shape++ {
				n++
				c := genC08(r.Rng("c08m", n), fmt.Sprintf("c08-m%d", n), []int{1, 2, 1}[shape], 0, []int{0, 0, 1}[shape], "quoted-printable")
				c.Spec.SMIME = k
				c.Features = nil
				c.Mutate = []string{mu}
				c.OpenSSL = shape == 0
				cases = append(cases, c)
			}
		}
	}
	m := r.Pick(800, 30000)
	for i := 0; i < m; i++ {
		rng := r.Rng("c08", i)
		c := genC08(rng, fmt.Sprintf("c08-r%d", i), gen.Pick(rng, []int{0, 1, 1, 2, 3}), gen.Pick(rng, []int{0, 0, 1, 2}), gen.Pick(rng, []int{0, 1, 1, 2}), "")
		if len(c.Spec.Parts)+len(c.Spec.Embeds)+len(c.Spec.Attach) == 0 {
			c.Spec.Parts = []gen.PartSpec{{Type: "text/plain", Content: []byte("x\r\n")}}
		}
		c.OpenSSL = !r.Thorough() || i%40 == 0
		cases = append(cases, c)
	}
	// several goroutines sign and render messages of their own at the same time (large bodies: the time between the
	// signing pass and the final pass of one render is long enough for the others to get in between)
	// (with two processors for eight goroutines: per-processor caches - sync.Pool and the like - are shared by several
	// goroutines then, as they are in any program that has more goroutines than cores)
	prevProcs := runtime.GOMAXPROCS(2)
	for round := 0; round < r.Pick(8, 40); round++ {
		runC08Concurrent(r, round)
	}
	runtime.GOMAXPROCS(prevProcs)
	r.Parallel(len(cases), func(i int) {
		if i%97 == 0 {
			r.Sample(map[string]any{"shape": cases[i].Spec.Shape(), "features": cases[i].Features, "key": cases[i].Spec.SMIME, "intermediate": cases[i].Spec.WithInt})
		}
		runC08Case(r, cases[i])
	})
	return sum
}
