//go:build verif

package main

import (
	"bytes"
	"encoding/json"
	"fmt"
	"io"
	mrand "math/rand"
	"os"
	"runtime/debug"
	"strconv"
	"strings"
	"sync/atomic"
	"time"

	mail "github.com/wneessen/go-mail"

	"verif/internal/ev"
	"verif/internal/faultio"
	"verif/internal/gen"
	"verif/internal/mimeread"
	"verif/internal/refsmtp"
)

func init() { register("C11", "exploration", runC11) }

type c11Case struct {
	Spec gen.MsgSpec `json:"spec"`
	Ops  []string    `json:"ops"` // writeto write reader reader1 updatereader tofile totmp skipmw send failsink:<k> failprod:<producer>
}

var c11Ops = []string{"writeto", "write", "reader", "reader1", "updatereader", "partialupdate", "tofile", "tofile:over", "totmp", "skipmw", "send", "failsink", "failprod"}

func canon8bit(s *gen.MsgSpec) {
	for i := range s.Parts {
		if effEnc(s.Enc, s.Parts[i].Enc) == "8bit" || effEnc(s.Enc, s.Parts[i].Enc) == "7bit" {
			s.Parts[i].Content = gen.CanonLF(stripLoneCR(s.Parts[i].Content))
		}
	}
	fix := func(fs []gen.FileSpec) {
		for i := range fs {
			if fs[i].Enc == "8bit" || fs[i].Enc == "7bit" {
				fs[i].Content = gen.CanonLF(stripLoneCR(fs[i].Content))
			}
		}
	}
	fix(s.Embeds)
	fix(s.Attach)
}

// sendAndCapture sends m through a fresh reference server and returns the committed payload.
func sendAndCapture(m *mail.Msg) ([]byte, error) {
	farm := &refsmtp.Farm{NewConfig: func(int) *refsmtp.Config { return &refsmtp.Config{AllowUTF8: true} }}
	defer farm.Shutdown()
	cl, err := mail.NewClient("mail.verif.example", mail.WithDialContextFunc(farm.Dial), mail.WithTLSPolicy(mail.NoTLS), mail.WithTimeout(5*time.Second), mail.WithHELO("client.verif.example"))
	if err != nil {
		return nil, err
	}
	if err := cl.DialAndSend(m); err != nil {
		return nil, err
	}
	farm.Shutdown()
	ss, _ := farm.Snapshot()
	if len(ss) != 1 {
		return nil, fmt.Errorf("expected one session, have %d", len(ss))
	}
	_, commits, _ := ss[0].Snapshot()
	if len(commits) != 1 || !commits[0].Accepted {
		return nil, fmt.Errorf("expected one accepted commit, have %d", len(commits))
	}
	return commits[0].Data, nil
}

// smimeView reduces an S/MIME rendering to what must be stable: the top-level header
// with the (per-render) outer boundary masked, and the signed entity.
func smimeView(out []byte) ([]byte, error) {
	root := mimeread.Parse(out)
	if root.MediaType != "multipart/signed" || len(root.Children) != 2 {
		return nil, fmt.Errorf("not a two-part multipart/signed message (%s, %d children)", root.MediaType, len(root.Children))
	}
	hdr := out[:root.BodyStart]
	hdr = bytes.ReplaceAll(hdr, []byte(root.Boundary), []byte("OUTER-BOUNDARY"))
	return append(append([]byte{}, hdr...), root.Children[0].Raw...), nil
}

func runC11Case(r *ev.Run, c c11Case, env *gen.Env) {
	viol := func(key, what string, obs any) {
		r.Violate(ev.Violation{Key: key, What: what, Case: c, Observed: obs})
	}
	var gate int32
	localEnv := &gen.Env{Dir: env.Dir, Faults: map[string]gen.Fault{}}
	for _, op := range c.Ops {
		if strings.HasPrefix(op, "failprod:") {
			localEnv.Faults[strings.TrimPrefix(op, "failprod:")] = gen.Fault{After: 3, Gate: &gate}
		}
	}
	m, err := c.Spec.Build(localEnv)
	if err != nil {
		r.HarnessError("C11 build: " + err.Error())
		return
	}
	var first []byte
	firstOp := ""
	var rd *mail.Reader
	for oi, op := range c.Ops {
		var out []byte
		var operr error
		expectFail := false
		failedRefresh := false
		func() {
			defer func() {
				if p := recover(); p != nil {
					operr = fmt.Errorf("panic: %v\n%s", p, debug.Stack())
					viol("panic:"+op, fmt.Sprintf("render op %s panicked: %v", op, p), nil)
				}
			}()
			name, arg, _ := strings.Cut(op, ":")
			switch name {
			case "writeto":
				var b bytes.Buffer
				_, operr = m.WriteTo(&b)
				out = b.Bytes()
			case "write":
				var b bytes.Buffer
				_, operr = m.Write(&b)
				out = b.Bytes()
			case "skipmw":
				var b bytes.Buffer
				_, operr = m.WriteToSkipMiddleware(&b, "verif-none")
				out = b.Bytes()
			case "reader":
				rd = m.NewReader()
				out, operr = io.ReadAll(rd)
				if operr == nil {
					operr = rd.Error()
				}
			case "reader1":
				rd = m.NewReader()
				var b bytes.Buffer
				buf := make([]byte, 7)
				for {
					n, e := rd.Read(buf)
					b.Write(buf[:n])
					if e == io.EOF {
						break
					}
					if e != nil {
						operr = e
						break
					}
				}
				out = b.Bytes()
			case "partialupdate":
				// a Reader that has been read in part (not to EOF), then refreshed, then read to the end
				rd = m.NewReader()
				k, _ := strconv.Atoi(arg)
				if _, operr = io.ReadFull(rd, make([]byte, k)); operr != nil && operr != io.ErrUnexpectedEOF && operr != io.EOF {
					break
				}
				m.UpdateReader(rd)
				out, operr = io.ReadAll(rd)
				if operr == nil {
					operr = rd.Error()
				}
			case "updatereader":
				if rd == nil {
					rd = m.NewReader()
				}
				m.UpdateReader(rd)
				out, operr = io.ReadAll(rd)
				if operr == nil {
					operr = rd.Error()
				}
			case "tofile":
				f, e := os.CreateTemp(env.Dir, "c11-*.eml")
				if e != nil {
					operr = e
					return
				}
				name := f.Name()
				if arg == "over" {
					// the path already holds another, longer file (a re-used spool path): it has to be replaced
					_, _ = f.Write(bytes.Repeat([]byte("stale content of an older, longer file\r\n"), 20000))
				}
				_ = f.Close()
				operr = m.WriteToFile(name)
				if operr == nil {
					out, operr = os.ReadFile(name)
				}
				_ = os.Remove(name)
			case "totmp":
				name, e := m.WriteToTempFile()
				operr = e
				if e == nil {
					out, operr = os.ReadFile(name)
				}
				if name != "" {
					_ = os.Remove(name)
				}
			case "send":
				out, operr = sendAndCapture(m)
			case "failsink":
				var k int64
				fmt.Sscanf(arg, "%d", &k)
				sink := &faultio.Sink{Limit: k}
				_, operr = m.WriteTo(sink)
				expectFail = sink.Failed
				if !sink.Failed {
					operr = nil
				}
				out = nil
			case "failprod":
				atomic.StoreInt32(&gate, 1)
				var b bytes.Buffer
				_, operr = m.WriteTo(&b)
				if rd != nil {
					// the Reader the caller holds is refreshed while the producer fails ...
					m.UpdateReader(rd)
					failedRefresh = rd.Error() != nil
				}
				atomic.StoreInt32(&gate, 0)
				expectFail = true
				if failedRefresh {
					// ... and once more now that it works again: the Reader delivers the message like every other path
					m.UpdateReader(rd)
					out, operr = io.ReadAll(rd)
					if operr == nil {
						operr = rd.Error()
					}
					expectFail = false
					r.Count("readers_refreshed_after_a_failed_refresh", 1)
				}
			}
		}()
		r.Count("ops_"+strings.SplitN(op, ":", 2)[0], 1)
		if expectFail {
			r.Count("failed_renders_injected", 1)
			continue
		}
		if strings.HasPrefix(op, "failsink") {
			continue
		}
		if operr != nil {
			viol("render-op-error:"+strings.SplitN(op, ":", 2)[0], fmt.Sprintf("op %d (%s) failed without an injected fault: %v", oi, op, operr), nil)
			continue
		}
		cmp := out
		if op == "send" {
			// SMTP mandates a final CRLF; the dot-writer adds one only when missing
			if first != nil && !bytes.HasSuffix(first, []byte("\r\n")) && bytes.HasSuffix(cmp, []byte("\r\n")) && c.Spec.SMIME == "" {
				cmp = cmp[:len(cmp)-2]
			}
		}
		if c.Spec.SMIME != "" {
			v, err := smimeView(cmp)
			if err != nil {
				viol("smime-structure:"+op, fmt.Sprintf("op %d (%s): %v", oi, op, err), ev.Q(out, 1200))
				continue
			}
			cmp = v
		}
		if first == nil {
			first, firstOp = cmp, op
			if op == "send" && c.Spec.SMIME == "" {
				// first output came through SMTP: later outputs may lack the final CRLF the dot-writer added
			}
			continue
		}
		a, b := first, cmp
		if firstOp == "send" && op != "send" && c.Spec.SMIME == "" && !bytes.HasSuffix(b, []byte("\r\n")) && bytes.HasSuffix(a, []byte("\r\n")) {
			a = a[:len(a)-2]
		}
		r.Count("outputs_compared", 1)
		if !bytes.Equal(a, b) {
			d := firstDiff(a, b)
			viol("output-differs:"+diffClass(a, b, d, &c.Spec), fmt.Sprintf("op %d (%s) produced different bytes than the first render (%s): first difference at offset %d: %s vs %s (lengths %d vs %d)", oi, op, firstOp, d, ev.Q(window(a, d), 160), ev.Q(window(b, d), 160), len(a), len(b)), nil)
		}
	}
}

func firstDiff(a, b []byte) int {
	n := len(a)
	if len(b) < n {
		n = len(b)
	}
	for i := 0; i < n; i++ {
		if a[i] != b[i] {
			return i
		}
	}
	return n
}

func window(b []byte, at int) []byte {
	st := at - 60
	if st < 0 {
		st = 0
	}
	en := at + 60
	if en > len(b) {
		en = len(b)
	}
	return b[st:en]
}

// diffClass names where two renderings start to differ.
func diffClass(a, b []byte, at int, s *gen.MsgSpec) string {
	hdrEnd := bytes.Index(a, []byte("\r\n\r\n"))
	if hdrEnd < 0 || at <= hdrEnd {
		// which header line?
		st := bytes.LastIndex(a[:min(at, len(a))], []byte("\r\n"))
		line := a[max(st, 0):min(at+1, len(a))]
		if i := bytes.IndexByte(bytes.TrimLeft(line, "\r\n"), ':'); i > 0 {
			return "top-header:" + string(bytes.TrimLeft(line, "\r\n")[:i])
		}
		return "top-header"
	}
	// inside the body: find the leaf
	root := mimeread.Parse(a)
	kind := "body"
	leaves := root.Leaves()
	np, ne := len(s.Parts), len(s.Embeds)
	for i, l := range leaves {
		if at >= l.Start && at <= l.End {
			switch {
			case i < np:
				kind = "part"
			case i < np+ne:
				kind = "embed:" + s.Embeds[i-np].Enc
			case i-np-ne < len(s.Attach):
				kind = "attach:" + s.Attach[i-np-ne].Enc
			}
			if at < l.BodyStart {
				kind += ":header"
			} else {
				kind += ":content"
			}
		}
	}
	return kind
}

// c11Addrs gives two thirds of the messages further address headers (Cc, Reply-To, several To): their lines are part
// of the bytes every render has to repeat.
func c11Addrs(rng *mrand.Rand, s *gen.MsgSpec) {
	if rng.Intn(3) == 0 {
		return
	}
	if rng.Intn(2) == 0 {
		s.To = append(s.To, gen.AddrSpec{Name: "Second Recipient", Addr: "second@example.net"})
	}
	for i := 0; i < 1+rng.Intn(2); i++ {
		s.Cc = append(s.Cc, gen.AddrSpec{Name: gen.Pick(rng, []string{"", "Carbon Copy", "Jürgen Müller"}), Addr: fmt.Sprintf("cc%d@example.org", i)})
	}
	if rng.Intn(3) != 0 {
		s.ReplyTo = &gen.AddrSpec{Name: gen.Pick(rng, []string{"", "Replies"}), Addr: "replies@example.com"}
	}
	if rng.Intn(4) == 0 {
		s.Bcc = append(s.Bcc, gen.AddrSpec{Addr: "hidden@example.org"})
	}
}

func genC11Ops(rng *mrand.Rand, s *gen.MsgSpec, n int) []string {
	var ops []string
	prods := producers(s)
	for i := 0; i < n; i++ {
		op := gen.Pick(rng, c11Ops)
		if s.SMIME != "" && op == "skipmw" {
			op = "writeto" // WriteToSkipMiddleware is not one of the paths the property names; it does not sign
		}
		switch op {
		case "partialupdate":
			op = fmt.Sprintf("%s:%d", op, gen.Pick(rng, []int{1, 7, 64, 200, 1000, rng.Intn(3000)}))
		case "failsink":
			op = fmt.Sprintf("failsink:%d", rng.Intn(2500))
		case "failprod":
			if len(prods) == 0 {
				op = "writeto"
			} else {
				op = "failprod:" + gen.Pick(rng, prods)
			}
		}
		ops = append(ops, op)
	}
	// make sure at least two successful renders are compared
	ok := 0
	for _, o := range ops {
		if !strings.HasPrefix(o, "fail") {
			ok++
		}
	}
	for ok < 2 {
		ops = append(ops, gen.Pick(rng, []string{"writeto", "reader", "tofile"}))
		ok++
	}
	return ops
}

func runC11(r *ev.Run, rep *ev.ReplayDoc) ev.Summary {
	env := &gen.Env{}
	d, _ := os.MkdirTemp("", "verif-c11-")
	env.Dir = d
	defer env.Cleanup()
	sum := ev.Summary{
		Rule: "seeded message specs (all file sources incl. os files, read-seekers on os.File, fs.FS, templates, and ONE io.ReadSeeker of the caller's behind several files of a message; all file encodings, incl. quoted-printable assigned to File.Enc directly; S/MIME on a share, message middlewares on another) x operation sequences of length 2-5 over {WriteTo, Write, NewReader+ReadAll, 7-byte Reads, UpdateReader, a Reader read in part and then refreshed by UpdateReader, WriteToFile (to a new path and over an existing longer file), WriteToTempFile, WriteToSkipMiddleware, Send via reference server, failing-sink render, failing-producer render (which also refreshes the Reader the caller holds while the producer fails, and again afterwards)}; all pairs of operations enumerated, longer sequences sampled. Every successful output must equal the first successful output byte for byte. non-trivial = message has a file or >=2 parts; distinct by (shape, ops)",
		Assumptions: []string{
			"for Send the payload is what the reference server committed (dot-unstuffed); contents of 8bit/7bit entities are canonical CRLF so that SMTP's bare-LF canonicalisation does not blur the comparison",
			"S/MIME: the outer boundary and the signature legitimately change per render; the top-level header (boundary masked) and the signed entity are compared",
		},
		Floors: []ev.Floor{{Counter: "evaluations", Min: 300}, {Counter: "outputs_compared", Min: 500}, {Counter: "failed_renders_injected", Min: 20}},
	}
	if rep != nil {
		var c c11Case
		if err := json.Unmarshal(rep.Case, &c); err != nil {
			r.HarnessError("bad replay case: " + err.Error())
			return sum
		}
		runC11Case(r, c, env)
		return sum
	}
	// all ordered pairs of the basic operations on a fixed set of specs, then sampled sequences
	basic := []string{"writeto", "write", "reader", "reader1", "updatereader", "partialupdate:64", "tofile", "tofile:over", "totmp", "skipmw", "send", "failsink:100", "failprod:*"}
	var cases []c11Case
	nspec := r.Pick(6, 40)
	for si := 0; si < nspec; si++ {
		rng := r.Rng("c11pairs", si)
		s := genSpec(rng, fmt.Sprintf("c11-p%d", si), "", 1+rng.Intn(2), rng.Intn(2), 1+rng.Intn(2))
		if si%3 == 1 && shareReadSeeker(rng, &s) {
			r.Count("messages_with_one_readseeker_behind_several_files", 1)
		}
		canon8bit(&s)
		c11Addrs(rng, &s)
		if si%5 == 4 {
			s.SMIME = gen.Pick(rng, []string{"rsa", "ecdsa"})
		}
		prods := producers(&s)
		for _, a := range basic {
			for _, b := range basic {
				ops := []string{a, b, "writeto"}
				for i := range ops {
					if ops[i] == "failprod:*" {
						ops[i] = "failprod:" + gen.Pick(rng, prods)
					}
					if ops[i] == "skipmw" && s.SMIME != "" {
						ops[i] = "write"
					}
				}
				cases = append(cases, c11Case{Spec: s, Ops: ops})
			}
		}
	}
	n := r.Pick(4000, 150000)
	for i := 0; i < n; i++ {
		rng := r.Rng("c11", i)
		np := gen.Pick(rng, []int{0, 1, 1, 2, 3})
		ne := gen.Pick(rng, []int{0, 0, 1, 2})
		na := gen.Pick(rng, []int{0, 1, 1, 2})
		if np+ne+na == 0 {
			np = 1
		}
		for i%6 == 3 && ne+na < 2 {
			na++
		}
		s := genSpec(rng, fmt.Sprintf("c11-%d", i), "", np, ne, na)
		if i%6 == 3 && shareReadSeeker(rng, &s) {
			r.Count("messages_with_one_readseeker_behind_several_files", 1)
		}
		canon8bit(&s)
		c11Addrs(rng, &s)
		if rng.Intn(6) == 0 {
			// a file whose exported Enc field the caller sets to quoted-printable after attaching it
			if len(s.Attach) > 0 {
				s.Attach[0].Enc = "qp-direct"
			} else if len(s.Embeds) > 0 {
				s.Embeds[0].Enc = "qp-direct"
			}
		}
		if rng.Intn(8) == 0 {
			s.SMIME = gen.Pick(rng, []string{"rsa", "ecdsa"})
			s.WithInt = rng.Intn(2) == 0
		} else if rng.Intn(7) == 0 {
			// message middlewares: every render applies them (one works in place and is idempotent, one returns a copy)
			s.Middleware = [][]string{{"copy-body"}, {"footer"}, {"header", "copy-body"}}[rng.Intn(3)]
		}
		cases = append(cases, c11Case{Spec: s, Ops: genC11Ops(rng, &s, 2+rng.Intn(4))})
	}
	r.Parallel(len(cases), func(i int) {
		c := cases[i]
		if i%701 == 0 {
			r.Sample(map[string]any{"shape": c.Spec.Shape(), "ops": c.Ops})
		}
		runC11Case(r, c, env)
		r.Eval(c.Spec.Shape()+"|"+strings.Join(c.Ops, ","), len(c.Spec.Embeds)+len(c.Spec.Attach) > 0 || len(c.Spec.Parts) > 1)
	})
	return sum
}
