//go:build verif

package main

import (
	"context"
	"crypto/tls"
	"encoding/json"
	"fmt"
	"math"
	mrand "math/rand"
	"net"
	"strings"
	"sync"
	"time"

	mail "github.com/wneessen/go-mail"
	"github.com/wneessen/go-mail/smtp"

	"verif/internal/ev"
	"verif/internal/gen"
	"verif/internal/refsmtp"
	"verif/internal/sasl"
)

func init() { register("C14", "exploration", runC14) }

type c14Case struct {
	Mech      string `json:"mech"` // PLAIN LOGIN CRAM-MD5 XOAUTH2 SCRAM-SHA-1 SCRAM-SHA-256 SCRAM-SHA-1-PLUS SCRAM-SHA-256-PLUS AUTODISCOVER
	User      string `json:"user"`
	Pass      string `json:"pass"`
	UserClass string `json:"user_class"`
	PassClass string `json:"pass_class"`
	// what the server stores (after the normalisation every profile agrees on)
	StoredUser    string `json:"stored_user"`
	StoredPass    string `json:"stored_pass"`
	Wrong         bool   `json:"wrong_secret"` // the server holds a different password
	Admissible    bool   `json:"admissible"`   // false: no profile admits the credentials for SCRAM
	SaltLen       int    `json:"salt_len"`
	SaltOctets    string `json:"salt_octets,omitempty"` // "" pattern | tail-zero | tail-zeros | lead-zero | all-zero | all-ff | text (the salt is an octet string)
	Iter          int    `json:"iter"`
	Nonce         string `json:"server_nonce"`
	Challenge     string `json:"cram_challenge"`
	ScramExt      string `json:"scram_server_first_extensions,omitempty"` // optional extensions behind i= (RFC 5802 section 7)
	TLSVersion    string `json:"tls"`                                     // none | 1.2 | 1.3
	Via           string `json:"via"`                                     // client (mail.Client) | direct (smtp.Client.Auth) | retry (same Auth object twice)
	RetryVariant  string `json:"retry_variant,omitempty"`                 // what differs at the server on the second attempt: same | iter | salt | both | nonce
	AdvertiseSeed int    `json:"advertise_seed,omitempty"`                // AUTODISCOVER: selects the advertised mechanism subset
	// DebugLog: "" off | on = debug log switched on (auth data redacted in the log) | on-authdata = also logging auth data;
	// what is logged has no bearing on what the server receives
	DebugLog string `json:"debug_log,omitempty"`
}

type credClass struct {
	name, val, stored string
	admissible        bool
}

var c14Users = []credClass{
	{"ascii", "user", "user", true}, {"email", "user@example.com", "user@example.com", true},
	{"comma", "us,er", "us,er", true}, {"equals", "us=er", "us=er", true}, {"comma-equals", "a=2C,b=3D", "a=2C,b=3D", true},
	{"blank", "us er", "us er", true}, {"utf8", "jürgen", "jürgen", true}, {"cjk", "用户名", "用户名", true},
	{"nbsp", "us er", "us er", true}, {"decomposed", "café", "café", true},
	{"upper", "USER", "USER", true}, {"long", strings.Repeat("u", 200), strings.Repeat("u", 200), true},
	{"ctl", "us\x01er", "us\x01er", false}, {"tab", "us\ter", "us\ter", false}, {"empty", "", "", false},
}

var c14Passes = []credClass{
	{"ascii", "pencil", "pencil", true}, {"symbols", "p@ss=w,ord!", "p@ss=w,ord!", true}, {"blank", "pass word", "pass word", true},
	{"utf8", "pässwörd", "pässwörd", true}, {"cjk", "密码", "密码", true}, {"nbsp", "pass word", "pass word", true},
	{"decomposed", "éclair", "éclair", true}, {"long", strings.Repeat("p", 300), strings.Repeat("p", 300), true},
	{"quote", `pa"ss\word`, `pa"ss\word`, true}, {"percent", "100%s%d", "100%s%d", true},
	{"ctl", "pa\x02ss", "pa\x02ss", false}, {"empty", "", "", false},
}

var c14Mechs = []string{"PLAIN", "LOGIN", "CRAM-MD5", "XOAUTH2", "SCRAM-SHA-1", "SCRAM-SHA-256", "SCRAM-SHA-1-PLUS", "SCRAM-SHA-256-PLUS"}

func authTypeFor(mech string) mail.SMTPAuthType {
	switch mech {
	case "PLAIN":
		return mail.SMTPAuthPlain
	case "LOGIN":
		return mail.SMTPAuthLogin
	case "CRAM-MD5":
		return mail.SMTPAuthCramMD5
	case "XOAUTH2":
		return mail.SMTPAuthXOAUTH2
	case "SCRAM-SHA-1":
		return mail.SMTPAuthSCRAMSHA1
	case "SCRAM-SHA-256":
		return mail.SMTPAuthSCRAMSHA256
	case "SCRAM-SHA-1-PLUS":
		return mail.SMTPAuthSCRAMSHA1PLUS
	case "SCRAM-SHA-256-PLUS":
		return mail.SMTPAuthSCRAMSHA256PLUS
	}
	return mail.SMTPAuthAutoDiscover
}

func isScram(m string) bool { return strings.HasPrefix(m, "SCRAM") }
func isPlus(m string) bool  { return strings.HasSuffix(m, "PLUS") }

func genC14(r *mrand.Rand, i int) c14Case {
	c := c14Case{Mech: c14Mechs[i%len(c14Mechs)], Via: "client"}
	u, p := gen.Pick(r, c14Users), gen.Pick(r, c14Passes)
	c.User, c.UserClass, c.StoredUser = u.val, u.name, u.stored
	c.Pass, c.PassClass, c.StoredPass = p.val, p.name, p.stored
	c.Admissible = u.admissible && p.admissible
	if !isScram(c.Mech) {
		// no normalisation outside SCRAM: the server holds the bytes as given
		c.StoredUser, c.StoredPass = c.User, c.Pass
		c.Admissible = true
		if c.Mech == "PLAIN" && (c.User == "" || c.Pass == "") {
			c.Admissible = false // RFC 4616 requires non-empty authcid and passwd
		}
		if c.Mech == "XOAUTH2" && (strings.Contains(c.User, "\x01") || strings.Contains(c.Pass, "\x01")) {
			c.Admissible = false // the mechanism has no escaping for ^A
		}
	}
	if i%11 == 10 {
		// auto-discovery: the server advertises a subset, the client picks; only credentials whose stored
		// form is the same under every mechanism
		c.Mech = "AUTODISCOVER"
		u, p = gen.Pick(r, c14Users[:8]), gen.Pick(r, c14Passes[:5])
		c.User, c.UserClass, c.StoredUser = u.val, u.name, u.val
		c.Pass, c.PassClass, c.StoredPass = p.val, p.name, p.val
		c.Admissible = true
		c.AdvertiseSeed = r.Intn(1 << 20)
	}
	c.Wrong = r.Intn(4) == 0
	c.SaltLen = gen.Pick(r, []int{0, 1, 8, 16, 16, 24, 32, 64})
	c.Iter = int(math.Exp(r.Float64() * math.Log(20000)))
	if c.Iter < 1 {
		c.Iter = 1
	}
	c.Nonce = gen.Pick(r, []string{"3rfcNHYJY1ZVvWVs7j", "%hvYDpWUa2RaTCAfuxFIlj)hNlF$k0", "x", "srv=nonce+with/base64==", strings.Repeat("N", 80), "~!@#$%^&*()_+"})
	c.Challenge = gen.Pick(r, []string{"<1896.697170952@postoffice.example.net>", "<x@y>", "challenge with blanks", strings.Repeat("c", 300), "ünï",
		// the challenge is an opaque octet string: white space at its ends, control characters and NUL belong to it
		"<id@host>\r\n", " <id@host>", "\tnonce\t", "<id@host>\u00a0", "\x0c<id@host> ", "a\x00b", "\n", "  "})
	c.TLSVersion = gen.Pick(r, []string{"1.2", "1.3"})
	if r.Intn(3) == 0 {
		c.SaltOctets = gen.Pick(r, []string{"tail-zero", "tail-zero", "tail-zeros", "lead-zero", "all-zero", "all-ff", "text"})
	}
	if r.Intn(4) == 0 {
		c.ScramExt = gen.Pick(r, []string{"t=ext1", "t=ext1,u=x=y", "x=" + strings.Repeat("e", 100)})
	}
	if !isPlus(c.Mech) && r.Intn(2) == 0 && (isScram(c.Mech) || c.Mech == "CRAM-MD5" || c.Mech == "XOAUTH2") {
		c.TLSVersion = "none"
	}
	switch r.Intn(6) {
	case 3:
		// the same mail.Client dialled twice (closed in between): every dial-up authenticates afresh, for the -PLUS
		// variants against the TLS connection of that dial-up
		c.Via = "client-redial"
	case 0:
		if !isPlus(c.Mech) && c.Mech != "AUTODISCOVER" {
			c.Via = "direct"
		}
	case 1, 2:
		if !isPlus(c.Mech) && c.Mech != "AUTODISCOVER" {
			c.Via = "retry"
			vars := []string{"same", "first-454-step1", "first-454-step2", "first-535-final", "first-drop-step1"}
			if isScram(c.Mech) {
				vars = append(vars, "iter", "iter", "salt", "both", "nonce")
			}
			c.RetryVariant = gen.Pick(r, vars)
			if c.SaltLen == 0 {
				c.SaltLen = 16
			}
		}
	}
	c.DebugLog = gen.Pick(r, []string{"", "", "on", "on-authdata"})
	return c
}

type c14Nonces struct {
	mu   sync.Mutex
	seen map[string]int
}

func tlsVer(s string) uint16 {
	if s == "1.2" {
		return tls.VersionTLS12
	}
	return tls.VersionTLS13
}

func (c *c14Case) srv(n int) *authSrv {
	a := &authSrv{User: c.StoredUser, Pass: c.StoredPass, Iter: c.Iter, ServerNonce: c.Nonce, CramChallenge: c.Challenge, ScramExt: c.ScramExt}
	// a retry on the same Auth object meets a server whose parameters have changed
	saltSeed := 0
	if n > 0 {
		switch c.RetryVariant {
		case "iter":
			a.Iter = c.Iter*2 + 1
		case "salt":
			saltSeed = 101
		case "both":
			a.Iter = c.Iter + 7
			saltSeed = 55
		case "nonce":
			a.ServerNonce = c.Nonce + "Second"
		}
	}
	if n == 0 {
		// the first attempt on the Auth object is cut short by the server at some step
		switch c.RetryVariant {
		case "first-454-step1":
			a.Fault, a.FaultStep = "454", 1
		case "first-454-step2":
			a.Fault, a.FaultStep = "454", 2
		case "first-535-final":
			a.Fault, a.FaultStep = "535", 3
		case "first-drop-step1":
			a.Fault, a.FaultStep = "drop", 1
		}
	}
	if c.Wrong {
		a.Pass = c.StoredPass + "-but-different"
	}
	a.Salt = make([]byte, c.SaltLen)
	for i := range a.Salt {
		a.Salt[i] = byte(i*37 + 11 + saltSeed)
	}
	for i := range a.Salt {
		switch c.SaltOctets {
		case "tail-zero":
			if i == len(a.Salt)-1 {
				a.Salt[i] = 0
			}
		case "tail-zeros":
			if i >= len(a.Salt)-3 {
				a.Salt[i] = 0
			}
		case "lead-zero":
			if i == 0 {
				a.Salt[i] = 0
			}
		case "all-zero":
			a.Salt[i] = 0
		case "all-ff":
			a.Salt[i] = 0xff
		case "text":
			a.Salt[i] = "salt, with = and blanks "[i%24]
		}
	}
	return a
}

func runC14Case(r *ev.Run, c c14Case, nonces *c14Nonces) {
	viol := func(key, what string, obs any) {
		r.Violate(ev.Violation{Key: key, What: what, Case: c, Observed: obs})
	}
	tm := gen.TLS()
	var srvs []*authSrv
	var smu sync.Mutex
	newCfg := func(int) *refsmtp.Config {
		smu.Lock()
		a := c.srv(len(srvs))
		smu.Unlock()
		smu.Lock()
		srvs = append(srvs, a)
		smu.Unlock()
		caps := []string{"8BITMIME", "AUTH " + c.Mech}
		if c.Mech == "AUTODISCOVER" {
			all := []string{"PLAIN", "LOGIN", "CRAM-MD5", "SCRAM-SHA-1", "SCRAM-SHA-256", "SCRAM-SHA-1-PLUS", "SCRAM-SHA-256-PLUS", "XOAUTH2"}
			var adv []string
			for b, m := range all {
				if c.AdvertiseSeed&(1<<b) != 0 {
					adv = append(adv, m)
				}
			}
			// auto-discovery on an unencrypted connection may only use SCRAM-SHA-x / CRAM-MD5: always offer one
			usable := false
			for _, m := range adv {
				if m == "SCRAM-SHA-1" || m == "SCRAM-SHA-256" || m == "CRAM-MD5" {
					usable = true
				}
			}
			if !usable {
				adv = append(adv, "SCRAM-SHA-1")
			}
			caps = []string{"AUTH " + strings.Join(adv, " ")}
		}
		sc := &refsmtp.Config{AllowUTF8: true, Auth: a.handler()}
		if c.TLSVersion != "none" {
			sc.TLS = gen.ServerTLS(tm.Good, tlsVer(c.TLSVersion), tlsVer(c.TLSVersion))
			sc.Caps = func(_ int, on bool) []string {
				if on {
					return caps
				}
				return []string{"STARTTLS"}
			}
		} else {
			sc.Caps = func(int, bool) []string { return caps }
		}
		return sc
	}
	farm := &refsmtp.Farm{NewConfig: newCfg}
	defer farm.Shutdown()
	var errs []error
	switch c.Via {
	case "client", "client-redial":
		opts := []mail.Option{mail.WithDialContextFunc(farm.Dial), mail.WithTimeout(8 * time.Second), mail.WithHELO("client.verif.example"),
			mail.WithSMTPAuth(authTypeFor(c.Mech)), mail.WithUsername(c.User), mail.WithPassword(c.Pass)}
		if c.TLSVersion != "none" {
			opts = append(opts, mail.WithTLSPolicy(mail.TLSMandatory), mail.WithTLSConfig(gen.ClientTLS(netHost, tlsVer(c.TLSVersion), tlsVer(c.TLSVersion))))
		} else {
			opts = append(opts, mail.WithTLSPolicy(mail.NoTLS))
		}
		if c.DebugLog != "" {
			opts = append(opts, mail.WithDebugLog(), mail.WithLogger(&capLogger{}))
			if c.DebugLog == "on-authdata" {
				opts = append(opts, mail.WithLogAuthData())
			}
			r.Count("exchanges_with_debug_log", 1)
		}
		cl, err := mail.NewClient(netHost, opts...)
		if err != nil {
			r.HarnessError("C14 NewClient: " + err.Error())
			return
		}
		dials := 1
		if c.Via == "client-redial" {
			dials = 3
		}
		for d := 0; d < dials; d++ {
			ctx, cancel := context.WithTimeout(context.Background(), 20*time.Second)
			err = cl.DialWithContext(ctx)
			cancel()
			errs = append(errs, err)
			if err == nil {
				_ = cl.Close()
			}
		}
	case "direct", "retry":
		var auth smtp.Auth
		switch c.Mech {
		case "PLAIN":
			auth = smtp.PlainAuth("", c.User, c.Pass, netHost, true)
		case "LOGIN":
			auth = smtp.LoginAuth(c.User, c.Pass, netHost, true)
		case "CRAM-MD5":
			auth = smtp.CRAMMD5Auth(c.User, c.Pass)
		case "XOAUTH2":
			auth = smtp.XOAuth2Auth(c.User, c.Pass)
		case "SCRAM-SHA-1":
			auth = smtp.ScramSHA1Auth(c.User, c.Pass)
		default:
			auth = smtp.ScramSHA256Auth(c.User, c.Pass)
		}
		rounds := 1
		if c.Via == "retry" {
			rounds = 2
		}
		for i := 0; i < rounds; i++ {
			conn, err := farm.Dial(context.Background(), "tcp", netHost+":25")
			if err != nil {
				r.HarnessError("dial: " + err.Error())
				return
			}
			_ = conn.SetDeadline(time.Now().Add(20 * time.Second))
			sc, err := smtp.NewClient(conn, netHost)
			if err != nil {
				errs = append(errs, err)
				continue
			}
			if c.DebugLog != "" {
				sc.SetLogger(&capLogger{})
				sc.SetDebugLog(true)
				if c.DebugLog == "on-authdata" {
					sc.SetLogAuthData()
				}
				r.Count("exchanges_with_debug_log", 1)
			}
			err = sc.Auth(auth)
			errs = append(errs, err)
			if err == nil {
				_ = sc.Quit()
			}
			_ = conn.Close()
		}
	}
	farm.Shutdown()
	smu.Lock()
	defer smu.Unlock()
	for i, a := range srvs {
		if i >= len(errs) {
			break
		}
		res := a.result()
		clientOK := errs[i] == nil
		r.Count("exchanges", 1)
		r.Seen("mech_x_classes", c.Mech+"|"+c.UserClass+"|"+c.PassClass)
		if !res.Ran {
			// the client refused locally (e.g. normalisation failed) - legitimate only for inadmissible credentials
			if c.Admissible && !clientOK {
				viol("client-refused-admissible:"+c.Mech+":"+c.UserClass+"/"+c.PassClass, fmt.Sprintf("the client did not even start the exchange for admissible credentials: %v", errs[i]), nil)
			}
			if clientOK {
				viol("success-without-exchange:"+c.Mech, "client reports success but the server never saw an AUTH exchange", nil)
			}
			continue
		}
		r.Count("exchanges_seen_by_verifier", 1)
		if res.Accepted {
			r.Count("verifier_accepted", 1)
		}
		if clientOK != res.Accepted {
			viol(fmt.Sprintf("client-verifier-disagree:%s:client=%t,server=%t", c.Mech, clientOK, res.Accepted), fmt.Sprintf("client reports success=%t but the reference verifier accepted=%t (%s); client error: %v", clientOK, res.Accepted, res.Reason, errs[i]), res)
			continue
		}
		wantAccept := !c.Wrong
		if a.Fault != "" {
			// the server cut this attempt short on purpose: only client/verifier agreement is judged
			r.Count("attempts_cut_short_by_server", 1)
			continue
		}
		if c.Admissible && res.Accepted != wantAccept {
			viol(fmt.Sprintf("interop:%s:%s/%s:wrong=%t", c.Mech, c.UserClass, c.PassClass, c.Wrong), fmt.Sprintf("conforming verifier accepted=%t, but the credentials are right=%t: %s", res.Accepted, wantAccept, res.Reason), res)
		}
		if !c.Admissible && res.Accepted && c.Wrong {
			viol("accepted-with-wrong-secret:"+c.Mech, "authentication succeeded against a server holding a different secret", res)
		}
		usedMech := c.Mech
		if c.Mech == "AUTODISCOVER" {
			usedMech = res.Mech
			r.Seen("autodiscovered_mechanisms", res.Mech)
		}
		if isScram(usedMech) && res.ClientNonce != "" {
			n := res.ClientNonce
			okChars := len(n) >= 18
			for i := 0; i < len(n); i++ {
				if n[i] < 0x21 || n[i] > 0x7e || n[i] == ',' {
					okChars = false
				}
			}
			if !okChars {
				viol("nonce-quality:"+c.Mech, fmt.Sprintf("client nonce %q is shorter than 18 printable characters or contains a comma", n), nil)
			}
			nonces.mu.Lock()
			nonces.seen[n]++
			dup := nonces.seen[n] > 1
			nonces.mu.Unlock()
			r.Count("nonces_collected", 1)
			if dup {
				viol("nonce-reused:"+c.Via, fmt.Sprintf("client nonce %q was used for more than one SCRAM attempt (via %s)", n, c.Via), nil)
			}
			if c.Admissible && res.UserSeen != c.StoredUser && !c.Wrong {
				viol("scram-username:"+c.UserClass, fmt.Sprintf("n= decodes to %q, expected %q", res.UserSeen, c.StoredUser), res)
			}
		}
		if isPlus(usedMech) && res.GS2 != "" {
			want := "tls-unique"
			if c.TLSVersion == "1.3" {
				want = "tls-exporter"
			}
			if !strings.HasPrefix(res.GS2, "p="+want) {
				viol("cbind-type:"+c.TLSVersion, fmt.Sprintf("gs2 header %q, expected channel binding type %s for TLS %s", res.GS2, want, c.TLSVersion), nil)
			}
			r.Count("plus_exchanges_"+c.TLSVersion, 1)
		}
	}
	r.Eval(fmt.Sprintf("%s|%s|%s|%t|%d|%d|%s|%s|%s", c.Mech, c.UserClass, c.PassClass, c.Wrong, c.SaltLen, c.Iter, c.TLSVersion, c.Via, c.RetryVariant+c.ScramExt+c.SaltOctets), true)
	if c.Via == "retry" {
		r.Seen("retry_variants", c.RetryVariant)
	}
	_ = net.IPv4len
	_ = sasl.ReasonSyntax
}

func runC14(r *ev.Run, rep *ev.ReplayDoc) ev.Summary {
	sum := ev.Summary{
		Rule: "(half of the exchanges with the debug log switched on, with and without auth-data logging; mail.Client also dialled three times in a row with Close in between) seeded exchanges: mechanism (PLAIN, LOGIN, CRAM-MD5, XOAUTH2, SCRAM-SHA-1/-256, both -PLUS variants) x user/password classes (ASCII, ',' and '=', blanks, UTF-8, strings with a profile-independent normal form (U+00A0, decomposed accents), long, inadmissible: controls/empty) x right/wrong server secret x salt length 0-64 x iteration count 1-20000 (log-uniform) x server nonce suffixes x CRAM challenges x TLS 1.2 (tls-unique) / TLS 1.3 (tls-exporter) / none, through mail.Client (WithSMTPAuth), smtp.Client.Auth directly and twice with the same Auth object. The reference verifiers (internal/sasl) run at the reference server; the channel binding is computed from the SERVER side of the same TLS connection. distinct by case signature",
		Assumptions: []string{
			"the reference verifiers pass the RFC 5802/7677/2195/4616 vectors (checked by ./check --setup and at the start of every run)",
			"for strings whose normalised form depends on the profile (SASLprep vs PRECIS) no expectation is made; inadmissible credentials only must not authenticate against a different secret",
		},
		Floors: []ev.Floor{{Counter: "exchanges_seen_by_verifier", Min: 800}, {Counter: "verifier_accepted", Min: 300}, {Counter: "nonces_collected", Min: 200}, {Counter: "plus_exchanges_1.2", Min: 30}, {Counter: "plus_exchanges_1.3", Min: 30}},
	}
	if err := sasl.SelfTest(); err != nil {
		r.HarnessError("sasl self-test: " + err.Error())
		return sum
	}
	nonces := &c14Nonces{seen: map[string]int{}}
	if rep != nil {
		var c c14Case
		if err := json.Unmarshal(rep.Case, &c); err != nil {
			r.HarnessError("bad replay case: " + err.Error())
			return sum
		}
		runC14Case(r, c, nonces)
		return sum
	}
	n := r.Pick(6000, 200000)
	r.Parallel(n, func(i int) {
		c := genC14(r.Rng("c14", i), i)
		if i%397 == 0 {
			r.Sample(c)
		}
		runC14Case(r, c, nonces)
	})
	return sum
}
