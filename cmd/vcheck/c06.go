//go:build verif

package main

import (
	"bytes"
	"encoding/json"
	"fmt"
	"io"
	mrand "math/rand"
	netmail "net/mail"
	"strings"

	mail "github.com/wneessen/go-mail"

	"verif/internal/ev"
	"verif/internal/gen"
	"verif/internal/mimeread"
	"verif/internal/refsmtp"
)

func init() { register("C06", "exploration", runC06) }

type c06Op struct {
	Op    string   `json:"op"` // e.g. To, AddTo, AddToFormat, ToIgnoreInvalid, ToFromString, Cc..., Bcc..., From, FromFormat, EnvelopeFrom, ReplyTo, ReplyToFormat
	Args  []string `json:"args"`
	Names []string `json:"names,omitempty"` // intended display names of the valid args (parallel to Addrs)
	Addrs []string `json:"addrs,omitempty"` // intended addr-specs of the valid args, in order ("" for invalid)
	// Shared > 0: the call is given the very slice that op number Shared-1 was given (Args is a copy of that op's
	// original arguments, which is what the caller put into the slice)
	Shared int `json:"same_slice_as_op_plus_1,omitempty"`
}

type c06Case struct {
	Ops     []c06Op `json:"ops"`
	Enc     string  `json:"enc"`
	Charset string  `json:"charset,omitempty"`       // message charset (WithCharset); display names are UTF-8 strings whatever it is
	Prior   int     `json:"prior_renders,omitempty"` // renders made between the setter calls and the judged render / send
}

type maddr struct{ Name, Addr string }

var c06Names = []string{"", "", "Plain Name", "Müller, Hans", `O'Neil "The Boss"`, "Semi; Colon: <angle>", "日本 太郎", "back\\slash", "  spaced   out  ", "(paren) name", "dot. name.", "a@b in name", "Ünï Cödé Näme That Is Rather Long And Needs Folding Somewhere Along The Line",
	"Doe, John", "Smith; Jane: Dr.", "a,b,c", "Last, First \"Nick\" Middle", "comma, and <angle>, twice",
	// runes that Go's strconv / unicode.IsPrint treat as not printable, but that are ordinary name characters
	"山田\u3000太郎", "No\u00a0Break Space", "zero\u200dwidth joiner", "soft\u00adhyphen", "family 👨\u200d👩\u200d👧", "Support\tDesk",
	// runs of blanks, also where a long field is folded
	"Doe,  Jane", "A Rather Long  Display Name  With  Double  Blanks That  Must  Be Folded  Somewhere Along   The Way", "Ünï  Cödé   with  runs"}
var c06Invalid = []string{"not an address", "a@", "@b.example", "a b@c.example", "<>", "", "x@y@z", "Name <broken", "\"unterminated <a@b.example>"}

// c06Spec is the addr-spec of a mailbox (local part + "@" + domain, split at the last "@"): the local part is written
// as a quoted-string when it is no dot-atom.
func c06Spec(mbox string) string {
	i := strings.LastIndex(mbox, "@")
	if i < 0 || isDotAtom(mbox[:i]) {
		return mbox
	}
	return quoteLocalRFC5322(mbox[:i]) + mbox[i:]
}

func fmtAddr(name, addr string) string {
	if name == "" {
		return c06Spec(addr)
	}
	return `"` + strings.NewReplacer(`\`, `\\`, `"`, `\"`).Replace(name) + `" <` + c06Spec(addr) + `>`
}

func genC06(r *mrand.Rand, idx int) c06Case {
	c := c06Case{Enc: gen.Pick(r, []string{"quoted-printable", "base64", "8bit"})}
	n := 1 + r.Intn(12)
	seq := 0
	var used []string
	fresh := func(kind string) string {
		seq++
		if kind == "Bcc" {
			a := fmt.Sprintf("bcc-%d-%d-%08x@hidden.example", idx, seq, r.Uint32())
			if r.Intn(8) == 0 {
				a = gen.Pick(r, []string{"hidden%d.", "50%off."}) + a
			}
			return a
		}
		a := fmt.Sprintf("%s%d-%d@%s.example", strings.ToLower(kind), idx, seq, gen.Pick(r, []string{"one", "two", "three"}))
		if r.Intn(8) == 0 {
			// atext characters that mean something to printf-style formatting, to shells and to URL decoding
			a = gen.Pick(r, []string{"50%off.", "user%host.", "a%d%i%s.", "x+tag=1&y.", "{tpl}$HOME~.", "o'neil!#*/?^_`|."}) + a
		} else if r.Intn(10) == 0 {
			// local parts that have to be quoted: an "@" of their own (a gateway address), blanks
			a = gen.Pick(r, []string{"user@host.", "john doe@home.", "first last.", "a@b@c."}) + a
		}
		return a
	}
	// one in six addresses is one that is on the message already, in the same or another list (the same person in
	// To and Bcc, twice in Cc, ...): the envelope has one RCPT per occurrence
	newAddr := func(kind string) string {
		if len(used) > 0 && r.Intn(6) == 0 {
			return gen.Pick(r, used)
		}
		a := fresh(kind)
		used = append(used, a)
		return a
	}
	valid := func(kind string, op *c06Op, formatted bool) {
		name := gen.Pick(r, c06Names)
		if !formatted && r.Intn(2) == 0 {
			name = ""
		}
		a := newAddr(kind)
		op.Args = append(op.Args, fmtAddr(name, a))
		op.Names = append(op.Names, name)
		op.Addrs = append(op.Addrs, a)
	}
	invalid := func(op *c06Op) {
		op.Args = append(op.Args, gen.Pick(r, c06Invalid))
		op.Names = append(op.Names, "")
		op.Addrs = append(op.Addrs, "")
	}
	for i := 0; i < n; i++ {
		kind := gen.Pick(r, []string{"To", "To", "Cc", "Bcc", "Bcc", "From", "EnvelopeFrom", "ReplyTo"})
		var op c06Op
		switch kind {
		case "To", "Cc", "Bcc":
			switch r.Intn(5) {
			case 0: // set
				op.Op = kind
				for j := 0; j < r.Intn(4); j++ {
					if r.Intn(8) == 0 {
						invalid(&op)
					} else {
						valid(kind, &op, false)
					}
				}
			case 1:
				op.Op = "Add" + kind
				if r.Intn(6) == 0 {
					invalid(&op)
				} else {
					valid(kind, &op, false)
				}
			case 2:
				op.Op = "Add" + kind + "Format"
				name := gen.Pick(r, c06Names)
				a := newAddr(kind)
				if r.Intn(8) == 0 {
					a = "broken address"
					op.Args, op.Names, op.Addrs = []string{name, a}, []string{""}, []string{""}
				} else {
					op.Args, op.Names, op.Addrs = []string{name, c06Spec(a)}, []string{name}, []string{a}
				}
			case 3:
				op.Op = kind + "IgnoreInvalid"
				for j := 0; j < r.Intn(4); j++ {
					if r.Intn(3) == 0 {
						invalid(&op)
					} else {
						valid(kind, &op, false)
					}
				}
			case 4:
				op.Op = kind + "FromString"
				var parts []string
				for j := 0; j < r.Intn(4); j++ {
					a := newAddr(kind)
					name := ""
					if r.Intn(2) == 0 {
						// list entries with a display name (one without a comma: the setter splits the string at commas)
						name = gen.Pick(r, []string{"Toni Tester", "Tina T. Tester", "Jürgen Müller", "日本 太郎", "O'Neil \"The Boss\"", "semi; colon: name", "(paren) name"})
					}
					parts = append(parts, gen.Pick(r, []string{"", " ", "  "})+fmtAddr(name, a)+gen.Pick(r, []string{"", " "}))
					op.Names = append(op.Names, name)
					op.Addrs = append(op.Addrs, a)
				}
				if r.Intn(4) == 0 {
					parts = append(parts, " ")
				}
				op.Args = []string{strings.Join(parts, ",")}
			}
		case "From", "ReplyTo":
			if r.Intn(2) == 0 {
				op.Op = kind
				if r.Intn(8) == 0 {
					invalid(&op)
				} else {
					valid(kind, &op, false)
				}
			} else {
				op.Op = kind + "Format"
				name := gen.Pick(r, c06Names)
				a := newAddr(kind)
				op.Args, op.Names, op.Addrs = []string{name, c06Spec(a)}, []string{name}, []string{a}
			}
		case "EnvelopeFrom":
			op.Op = kind
			valid(kind, &op, false)
		}
		c.Ops = append(c.Ops, op)
	}
	// the caller keeps one list in a slice variable and hands it to several setters (the same people in To and Cc, a
	// list tried with the IgnoreInvalid variant first): such an op gets the very slice an earlier call was given
	isListOp := func(o string) bool {
		switch o {
		case "To", "Cc", "Bcc", "ToIgnoreInvalid", "CcIgnoreInvalid", "BccIgnoreInvalid":
			return true
		}
		return false
	}
	for i := 1; i < len(c.Ops); i++ {
		if !isListOp(c.Ops[i].Op) || r.Intn(3) != 0 {
			continue
		}
		var cands []int
		for j := 0; j < i; j++ {
			if isListOp(c.Ops[j].Op) && c.Ops[j].Shared == 0 && len(c.Ops[j].Args) >= 2 {
				cands = append(cands, j)
			}
		}
		if len(cands) == 0 {
			continue
		}
		j := gen.Pick(r, cands)
		c.Ops[i].Args = append([]string(nil), c.Ops[j].Args...)
		c.Ops[i].Names = append([]string(nil), c.Ops[j].Names...)
		c.Ops[i].Addrs = append([]string(nil), c.Ops[j].Addrs...)
		c.Ops[i].Shared = j + 1
	}
	return c
}

// c06Model applies the documented list semantics.
type c06Model struct {
	lists map[string][]maddr // To Cc Bcc From EnvelopeFrom ReplyTo
}

func (m *c06Model) apply(op c06Op) (expectErr bool) {
	kindOf := func(s string) string {
		for _, k := range []string{"EnvelopeFrom", "ReplyTo", "From", "To", "Cc", "Bcc"} {
			if strings.Contains(s, k) && !(k == "From" && (strings.Contains(s, "EnvelopeFrom") || strings.HasSuffix(s, "FromString"))) && !(k == "To" && strings.Contains(s, "ReplyTo")) {
				return k
			}
		}
		return ""
	}
	kind := kindOf(op.Op)
	var vals []maddr
	anyInvalid := false
	for i, a := range op.Addrs {
		if a == "" {
			anyInvalid = true
			continue
		}
		vals = append(vals, maddr{op.Names[i], a})
	}
	single := kind == "From" || kind == "ReplyTo" || kind == "EnvelopeFrom"
	switch {
	case strings.HasSuffix(op.Op, "IgnoreInvalid"):
		m.lists[kind] = vals
	case strings.HasPrefix(op.Op, "Add"):
		if anyInvalid {
			return true
		}
		m.lists[kind] = append(append([]maddr{}, m.lists[kind]...), vals...)
	default: // set (To, ToFromString, From, FromFormat, EnvelopeFrom, ReplyTo, ReplyToFormat)
		if anyInvalid {
			return true
		}
		if single {
			if len(vals) > 0 {
				m.lists[kind] = vals[:1]
			}
		} else {
			m.lists[kind] = vals
		}
	}
	return false
}

func applyReal(m *mail.Msg, op c06Op, a []string) error {
	one := func() string {
		if len(a) > 0 {
			return a[0]
		}
		return ""
	}
	switch op.Op {
	case "To":
		return m.To(a...)
	case "Cc":
		return m.Cc(a...)
	case "Bcc":
		return m.Bcc(a...)
	case "AddTo":
		return m.AddTo(one())
	case "AddCc":
		return m.AddCc(one())
	case "AddBcc":
		return m.AddBcc(one())
	case "AddToFormat":
		return m.AddToFormat(a[0], a[1])
	case "AddCcFormat":
		return m.AddCcFormat(a[0], a[1])
	case "AddBccFormat":
		return m.AddBccFormat(a[0], a[1])
	case "ToIgnoreInvalid":
		m.ToIgnoreInvalid(a...)
	case "CcIgnoreInvalid":
		m.CcIgnoreInvalid(a...)
	case "BccIgnoreInvalid":
		m.BccIgnoreInvalid(a...)
	case "ToFromString":
		return m.ToFromString(one())
	case "CcFromString":
		return m.CcFromString(one())
	case "BccFromString":
		return m.BccFromString(one())
	case "From":
		return m.From(one())
	case "FromFormat":
		return m.FromFormat(a[0], a[1])
	case "EnvelopeFrom":
		return m.EnvelopeFrom(one())
	case "ReplyTo":
		return m.ReplyTo(one())
	case "ReplyToFormat":
		return m.ReplyToFormat(a[0], a[1])
	default:
		panic("op " + op.Op)
	}
	return nil
}

func runC06Case(r *ev.Run, c c06Case) {
	viol := func(key, what string, obs any) {
		r.Violate(ev.Violation{Key: key, What: what, Case: c, Observed: obs})
	}
	mopts := []mail.MsgOption{mail.WithEncoding(mail.Encoding(c.Enc))}
	if c.Charset != "" {
		mopts = append(mopts, mail.WithCharset(mail.Charset(c.Charset)))
	}
	m := mail.NewMsg(mopts...)
	m.Subject("c06")
	m.SetBodyString(mail.TypeTextPlain, "body text\r\n")
	model := &c06Model{lists: map[string][]maddr{}}
	live := make([][]string, len(c.Ops)) // the slice each call was given (the caller's own variable)
	for i, op := range c.Ops {
		args := append([]string(nil), op.Args...)
		if op.Shared > 0 && op.Shared <= i {
			args = live[op.Shared-1]
			r.Count("calls_given_the_slice_of_an_earlier_call", 1)
		}
		live[i] = args
		wantErr := model.apply(op)
		var err error
		func() {
			defer func() {
				if p := recover(); p != nil {
					err = fmt.Errorf("panic: %v", p)
					viol("panic:"+op.Op, fmt.Sprintf("op %d %s panicked: %v", i, op.Op, p), nil)
				}
			}()
			err = applyReal(m, op, args)
		}()
		r.Count("setter_calls", 1)
		if (err != nil) != wantErr {
			viol("setter-result:"+op.Op, fmt.Sprintf("op %d %s%q: error=%v, the reference model expects error=%t", i, op.Op, op.Args, err, wantErr), nil)
			return
		}
	}
	// (1) getters == model
	cmp := func(kind string, got []*netmail.Address) bool {
		want := model.lists[kind]
		if len(got) != len(want) {
			viol("getter:"+kind, fmt.Sprintf("%s list has %d entries, model %d: got %v want %v", kind, len(got), len(want), got, want), nil)
			return false
		}
		for i := range got {
			if got[i].Address != want[i].Addr || mimeread.CollapseWS(got[i].Name) != mimeread.CollapseWS(want[i].Name) {
				viol("getter:"+kind, fmt.Sprintf("%s[%d] is %q <%s>, model %q <%s>", kind, i, got[i].Name, got[i].Address, want[i].Name, want[i].Addr), nil)
				return false
			}
		}
		r.Count("getter_lists_compared", 1)
		return true
	}
	ok := cmp("To", m.GetTo()) && cmp("Cc", m.GetCc()) && cmp("Bcc", m.GetBcc()) && cmp("From", m.GetFrom())
	ok = cmp("EnvelopeFrom", m.GetAddrHeader(mail.HeaderEnvelopeFrom)) && cmp("ReplyTo", m.GetAddrHeader(mail.HeaderReplyTo)) && ok
	if !ok {
		return
	}
	// rendered header
	for k := 0; k < c.Prior; k++ {
		_, _ = m.WriteTo(io.Discard)
	}
	var buf bytes.Buffer
	if _, err := m.WriteTo(&buf); err != nil {
		viol("render-error", err.Error(), nil)
		return
	}
	raw := buf.Bytes()
	root := mimeread.Parse(raw)
	// (3) no Bcc address anywhere
	visible := map[string]bool{}
	for _, k := range []string{"To", "Cc", "ReplyTo", "From", "EnvelopeFrom"} {
		if k == "EnvelopeFrom" && len(model.lists["From"]) > 0 {
			continue
		}
		for _, a := range model.lists[k] {
			visible[a.Addr] = true
		}
	}
	for _, b := range model.lists["Bcc"] {
		if visible[b.Addr] {
			r.Count("bcc_addresses_also_visible", 1)
			continue // the same address is also a visible recipient / originator
		}
		if bytes.Contains(raw, []byte(b.Addr)) || bytes.Contains(bytes.ToLower(raw), []byte(strings.ToLower(b.Addr))) {
			viol("bcc-leak:raw", fmt.Sprintf("Bcc address %s appears in the rendered message", b.Addr), ev.Q(raw, 1200))
		}
		for _, f := range root.Fields {
			dec, _ := mimeread.DecodeWords(f.Value)
			if strings.Contains(dec, b.Addr) {
				viol("bcc-leak:decoded-header:"+f.Name, fmt.Sprintf("Bcc address %s appears in the decoded value of %s", b.Addr, f.Name), f.Value)
			}
		}
		for _, l := range root.Leaves() {
			content, _ := l.DecodeLeaf()
			if bytes.Contains(content, []byte(b.Addr)) {
				viol("bcc-leak:body", fmt.Sprintf("Bcc address %s appears in a decoded body", b.Addr), nil)
			}
		}
		r.Count("bcc_addresses_searched", 1)
	}
	if len(root.Get("Bcc")) != 0 {
		viol("bcc-header-rendered", "a Bcc header field is rendered", root.Get("Bcc"))
	}
	// (4) From/To/Cc/Reply-To once each and parse back
	chk := func(field string, want []maddr) {
		got := root.Get(field)
		if len(want) == 0 {
			if len(got) != 0 && strings.TrimSpace(got[0]) != "" {
				viol("header-unexpected:"+field, fmt.Sprintf("%s rendered although the list is empty: %q", field, got), nil)
			}
			return
		}
		if len(got) != 1 {
			viol("header-count:"+field, fmt.Sprintf("%d %s fields, expected exactly one", len(got), field), ev.Q(raw[:min(len(raw), 900)], 900))
			return
		}
		as, err := mimeread.ParseAddressList(got[0])
		if err != nil || len(as) != len(want) {
			viol("header-parse:"+field, fmt.Sprintf("%s parses to %d addresses (%v), expected %d: %q", field, len(as), err, len(want), got[0]), nil)
			return
		}
		std, serr := netmail.ParseAddressList(got[0])
		for i := range as {
			if len(as[i].Labels) > 0 {
				r.Count("encoded_display_names_checked", 1)
				if mimeread.CollapseWS(as[i].NameByLabel) != mimeread.CollapseWS(want[i].Name) {
					viol("header-charset-label:"+field, fmt.Sprintf("%s[%d]: a reader that honours the charset labels %v of the encoded-words reads the name %q, set was %q (message charset %q)", field, i, as[i].Labels, as[i].NameByLabel, want[i].Name, c.Charset), got[0])
				}
			}
			if as[i].Spec() != want[i].Addr || mimeread.CollapseWS(as[i].Name) != mimeread.CollapseWS(want[i].Name) {
				viol("header-value:"+field, fmt.Sprintf("%s[%d] parses back to %q <%s>, set was %q <%s>", field, i, as[i].Name, as[i].Spec(), want[i].Name, want[i].Addr), got[0])
			} else if as[i].Name != want[i].Name {
				// blanks inside a display name travel in a quoted-string or an encoded-word: a reader gets them back as they were set
				if strings.TrimSpace(as[i].Name) != strings.TrimSpace(want[i].Name) {
					viol("header-value-blanks:"+field, fmt.Sprintf("%s[%d]: the blanks inside the display name changed: parses back to %q, set was %q", field, i, as[i].Name, want[i].Name), got[0])
				} else {
					r.Count("display_names_differing_in_outer_blanks_only", 1)
				}
			} else if strings.Contains(want[i].Name, "  ") {
				r.Count("display_names_with_blank_runs_read_back_exactly", 1)
			}
			if serr == nil && i < len(std) && (std[i].Address != as[i].Spec() || mimeread.CollapseWS(std[i].Name) != mimeread.CollapseWS(as[i].Name)) {
				viol("reader-disagreement:"+field, fmt.Sprintf("net/mail reads %q <%s>, the harness parser %q <%s>", std[i].Name, std[i].Address, as[i].Name, as[i].Spec()), got[0])
			}
		}
		r.Count("rendered_address_headers_checked", 1)
	}
	from := model.lists["From"]
	if len(from) == 0 {
		from = model.lists["EnvelopeFrom"]
	}
	chk("From", from)
	chk("To", model.lists["To"])
	chk("Cc", model.lists["Cc"])
	chk("Reply-To", model.lists["ReplyTo"])
	// (2) envelope at the reference server
	sender := model.lists["EnvelopeFrom"]
	if len(sender) == 0 {
		sender = model.lists["From"]
	}
	var rcpts []string
	for _, k := range []string{"To", "Cc", "Bcc"} {
		for _, a := range model.lists[k] {
			rcpts = append(rcpts, a.Addr)
		}
	}
	sig := fmt.Sprintf("%d|%d|%d|%d", len(model.lists["To"]), len(model.lists["Cc"]), len(model.lists["Bcc"]), len(c.Ops))
	var opnames []string
	for _, op := range c.Ops {
		opnames = append(opnames, op.Op)
	}
	r.Eval(sig+strings.Join(opnames, ","), len(c.Ops) >= 2)
	if len(sender) == 0 || len(rcpts) == 0 {
		r.Count("cases_without_envelope", 1)
		return
	}
	sr := runSend(func(int) *refsmtp.Config { return &refsmtp.Config{AllowUTF8: true} }, nil, []mail.Option{mail.WithTLSPolicy(mail.NoTLS)}, []*mail.Msg{m}, "send", false)
	if sr.Hung || sr.Panic != nil || len(sr.Sessions) == 0 {
		r.Inconclusive(fmt.Sprintf("C06 send did not run: hung=%t panic=%v", sr.Hung, sr.Panic))
		return
	}
	if sr.SendErr != nil || sr.DialErr != nil {
		viol("send-failed", fmt.Sprintf("sending failed: dial=%v send=%v", sr.DialErr, sr.SendErr), nil)
		return
	}
	cmds, commits, _ := sr.Sessions[0].Snapshot()
	var gotRcpt []string
	gotFrom := ""
	for _, cr := range cmds {
		if cr.Parsed == nil || cr.Parsed.Path == nil {
			continue
		}
		switch cr.Verb {
		case "MAIL":
			gotFrom = cr.Parsed.Path.Mailbox()
		case "RCPT":
			gotRcpt = append(gotRcpt, cr.Parsed.Path.Mailbox())
		}
	}
	if gotFrom != sender[0].Addr {
		viol("envelope-sender", fmt.Sprintf("MAIL FROM is %s, expected %s (envelope-from set: %t)", gotFrom, sender[0].Addr, len(model.lists["EnvelopeFrom"]) > 0), nil)
	}
	if strings.Join(gotRcpt, " ") != strings.Join(rcpts, " ") {
		viol("envelope-recipients", fmt.Sprintf("RCPT sequence is %v, expected To++Cc++Bcc = %v", gotRcpt, rcpts), nil)
	}
	r.Count("envelopes_checked", 1)
	r.Count("rcpt_commands_checked", int64(len(gotRcpt)))
	// the committed payload must not leak Bcc either
	for _, cm := range commits {
		for _, b := range model.lists["Bcc"] {
			if !visible[b.Addr] && bytes.Contains(cm.Data, []byte(b.Addr)) {
				viol("bcc-leak:committed", "Bcc address in the committed message: "+b.Addr, nil)
			}
		}
	}
}

func runC06(r *ev.Run, rep *ev.ReplayDoc) ev.Summary {
	sum := ev.Summary{
		Rule: "random sequences (length 1-12) of To/AddTo/AddToFormat/ToIgnoreInvalid/ToFromString and the Cc/Bcc equivalents, From/FromFormat/EnvelopeFrom/ReplyTo/ReplyToFormat over valid-by-construction addresses (display names needing quoting or RFC 2047) and invalid strings, a third of the list setters being handed the very slice an earlier list setter of the message was given (one list variable of the caller's used for several lists); a reference model of the documented list semantics predicts the lists; then getters, rendered header fields, absence of every (unique, high-entropy) Bcc address in raw bytes / decoded headers / decoded bodies / committed payload, and the MAIL/RCPT sequence at the reference server are compared. non-trivial = at least 2 calls; distinct by (list sizes, op names)",
		Assumptions: []string{
			"documented semantics: set replaces (unchanged on error), add appends, IgnoreInvalid replaces with the valid subset, FromString splits on commas and skips blanks, From/ReplyTo/EnvelopeFrom keep one address",
			"display names compare modulo blank-run collapsing",
		},
		Floors: []ev.Floor{{Counter: "evaluations", Min: 1000}, {Counter: "envelopes_checked", Min: 500}, {Counter: "bcc_addresses_searched", Min: 500}, {Counter: "rendered_address_headers_checked", Min: 2000}},
	}
	if rep != nil {
		var c c06Case
		if err := json.Unmarshal(rep.Case, &c); err != nil {
			r.HarnessError("bad replay case: " + err.Error())
			return sum
		}
		runC06Case(r, c)
		return sum
	}
	n := r.Pick(8000, 250000)
	r.Parallel(n, func(i int) {
		c := genC06(r.Rng("c06", i), i)
		if i%4 == 3 {
			c.Prior = 1
		}
		if i%3 == 1 {
			c.Charset = []string{"ISO-8859-1", "US-ASCII", "UTF-8", "ISO-8859-15", "windows-1252", "Shift_JIS"}[(i/3)%6]
		}
		if i%997 == 0 {
			r.Sample(c)
		}
		runC06Case(r, c)
	})
	return sum
}
