//go:build verif

package main

import (
	"context"
	"crypto/tls"
	"encoding/json"
	"fmt"
	"net"
	"strings"
	"sync"
	"sync/atomic"
	"time"

	mail "github.com/wneessen/go-mail"

	"verif/internal/ev"
	"verif/internal/gen"
	"verif/internal/refsmtp"
)

func init() { register("C19", "fault_enumeration", runC19) }

type c19Config struct {
	Name    string   `json:"name"`
	Via     string   `json:"via"` // send (DialWithContext) | withclient (DialToSMTPClientWithContext) | dialandsend
	TLS     string   `json:"tls"` // none | opportunistic | mandatory | implicit (WithSSL; the dial function hands out a TLS client connection)
	Caps    []string `json:"caps"`
	CapsTLS []string `json:"caps_tls,omitempty"`
	Auth    string   `json:"auth,omitempty"`     // client auth type ("" none)
	BadCert string   `json:"bad_cert,omitempty"` // "" | wrongname | untrusted
	WrongPW bool     `json:"wrong_password,omitempty"`
	NMsgs   int      `json:"nmsgs"`
	MaxDev  int      `json:"max_dev"`
}

type c19Case struct {
	Cfg    c19Config     `json:"cfg"`
	Script []scriptEntry `json:"script"`
}

func authTypeOf(s string) mail.SMTPAuthType {
	switch s {
	case "PLAIN":
		return mail.SMTPAuthPlainNoEnc
	case "LOGIN":
		return mail.SMTPAuthLoginNoEnc
	case "PLAIN-TLSONLY":
		return mail.SMTPAuthPlain
	case "CRAM-MD5":
		return mail.SMTPAuthCramMD5
	case "SCRAM-SHA-256":
		return mail.SMTPAuthSCRAMSHA256
	case "XOAUTH2":
		return mail.SMTPAuthXOAUTH2
	case "AUTODISCOVER":
		return mail.SMTPAuthAutoDiscover
	}
	return mail.SMTPAuthNoAuth
}

func runC19Case(r *ev.Run, c c19Case) int {
	cfg := c.Cfg
	viol := func(key, what string, obs any) {
		r.Violate(ev.Violation{Key: key, What: what, Case: c, Observed: obs})
	}
	tm := gen.TLS()
	var cmu sync.Mutex
	var cancelCtx context.CancelFunc
	inner := scriptDecide(c.Script)
	cancelAt := map[int]bool{}
	for _, e := range c.Script {
		if e.Kind == "cancel-ctx" {
			cancelAt[e.Index] = true
		}
	}
	decide := func(st refsmtp.Step) refsmtp.Action {
		if cancelAt[st.Index] {
			// the caller's context is cancelled while the dial-up / send is under way; the server answers normally
			cmu.Lock()
			if cancelCtx != nil {
				cancelCtx()
			}
			cmu.Unlock()
			return refsmtp.Action{}
		}
		return inner(st)
	}
	newCfg := func(int) *refsmtp.Config {
		sc := &refsmtp.Config{
			Decide: decide, AllowUTF8: true,
			Caps: func(_ int, tlsOn bool) []string {
				if tlsOn {
					if cfg.CapsTLS != nil {
						return cfg.CapsTLS
					}
					var out []string
					for _, k := range cfg.Caps {
						if k != "STARTTLS" {
							out = append(out, k)
						}
					}
					return out
				}
				return cfg.Caps
			},
			Auth: plainAuthHandler("user", "secret-pass"),
		}
		switch cfg.BadCert {
		case "wrongname":
			sc.TLS = gen.ServerTLS(tm.WrongName, 0, 0)
		case "untrusted":
			sc.TLS = gen.ServerTLS(tm.Untrusted, 0, 0)
		default:
			sc.TLS = gen.ServerTLS(tm.Good, 0, 0)
		}
		return sc
	}
	opts := []mail.Option{mail.WithTLSConfig(gen.ClientTLS(netHost, 0, 0))}
	switch cfg.TLS {
	case "none":
		opts = append(opts, mail.WithTLSPolicy(mail.NoTLS))
	case "implicit":
		opts = append(opts, mail.WithSSL())
	case "opportunistic":
		opts = append(opts, mail.WithTLSPolicy(mail.TLSOpportunistic))
	default:
		opts = append(opts, mail.WithTLSPolicy(mail.TLSMandatory))
	}
	if cfg.Auth != "" {
		pw := "secret-pass"
		if cfg.WrongPW {
			pw = "wrong-pass"
		}
		opts = append(opts, mail.WithSMTPAuth(authTypeOf(cfg.Auth)), mail.WithUsername("user"), mail.WithPassword(pw))
	}
	var msgs []*mail.Msg
	for i := 0; i < cfg.NMsgs; i++ {
		m, err := simpleMsg(fmt.Sprintf("c19-%d", i), fmt.Sprintf("m%d@sender.example", i), []string{fmt.Sprintf("r0m%d@rcpt.example", i)}, "quoted-printable", "body\r\n")
		if err != nil {
			r.HarnessError(err.Error())
			return 0
		}
		msgs = append(msgs, m)
	}
	farm := &refsmtp.Farm{NewConfig: newCfg}
	if cfg.TLS == "implicit" {
		farm.ImplicitTLS = gen.ClientTLS(netHost, 0, 0)
	}
	sr := runSendFC(farm, opts, msgs, cfg.Via, defaultNetTimeout, func(cf context.CancelFunc) {
		cmu.Lock()
		cancelCtx = cf
		cmu.Unlock()
	})
	if sr.Panic != nil {
		viol("panic", fmt.Sprintf("client panicked: %v", sr.Panic), nil)
	}
	if sr.Hung {
		r.Inconclusive(fmt.Sprintf("C19 %s script=%s hung", cfg.Name, scriptString(c.Script)))
		return 0
	}
	steps := 0
	transcript := ""
	lastVerb := "NONE"
	if len(sr.Sessions) > 0 {
		cmds, _, _ := sr.Sessions[0].Snapshot()
		for _, cr := range cmds {
			if cr.Index+1 > steps {
				steps = cr.Index + 1
			}
		}
		transcript = sr.Sessions[0].Transcript()
		if len(cmds) > 0 {
			lastVerb = cmds[len(cmds)-1].Verb
		}
		r.Count("commands_observed", int64(len(cmds)))
		r.Seen("transcripts", cfg.Name+"|"+transcript)
	}
	if len(sr.Conns) == 0 {
		return steps
	}
	r.Count("connections_opened", int64(len(sr.Conns)))
	closed := len(sr.ConnClosedAtReturn) > 0 && sr.ConnClosedAtReturn[0]
	// which step failed?
	failStep := "none"
	if len(c.Script) > 0 && len(sr.Sessions) > 0 {
		cmds, _, _ := sr.Sessions[0].Snapshot()
		for _, cr := range cmds {
			if cr.Index == c.Script[len(c.Script)-1].Index && cr.Verb != "AUTH-RESP" {
				failStep = cr.Verb + "-" + c.Script[len(c.Script)-1].Kind
			}
		}
	}
	opErr := sr.DialErr
	phase := "dial"
	if cfg.Via == "dialandsend" && opErr == nil {
		opErr = sr.SendErr
		phase = "dialandsend"
	}
	if opErr != nil {
		r.Count("failed_calls_after_connect", 1)
		r.Seen("failing_steps", failStep)
		if !closed {
			kind := failStep
			if kind == "none" {
				kind = "policy:" + classifyDialErr(opErr)
			}
			viol("conn-open-after-error:"+phase+":"+kind, fmt.Sprintf("%s (%s) returned an error but the connection handed out by the dial function had not been closed at that moment: %v | transcript: %s (last command %s)", cfg.Via, cfg.Name, opErr, transcript, lastVerb), nil)
		} else {
			r.Count("closed_after_error", 1)
		}
	} else if cfg.Via == "dialandsend" {
		r.Count("successful_dialandsend", 1)
		quit := strings.Contains(transcript, "QUIT:")
		if !quit {
			viol("success-without-quit", "DialAndSend succeeded but the server never saw QUIT: "+transcript, nil)
		}
		if !closed {
			viol("conn-open-after-success", "DialAndSend succeeded but the connection was not closed when it returned: "+transcript, nil)
		}
	}
	r.Eval(cfg.Name+"|"+scriptString(c.Script)+"|"+transcript, len(c.Script) > 0 || opErr != nil)
	return steps
}

// c19OwnCase: implicit TLS through the library's own dialer (no WithDialContextFunc) over loopback TCP against a peer
// with which the handshake cannot succeed. The peer never closes: whether the client closed is what the peer observes
// (end of stream on its side).
type c19OwnCase struct {
	Via      string `json:"via"`      // dial | dialandsend
	Peer     string `json:"peer"`     // plain-greeting | wrongname-cert | untrusted-cert | garbage
	Fallback bool   `json:"fallback"` // WithSSLPort(true)-like: a fallback port is configured as well
	Own      bool   `json:"own_dialer"`
}

func runC19Own(r *ev.Run, c c19OwnCase, wait time.Duration) (closedSeen bool, ran bool) {
	tm := gen.TLS()
	ln, err := net.Listen("tcp", "127.0.0.1:0")
	if err != nil {
		r.HarnessError("listen: " + err.Error())
		return false, false
	}
	defer ln.Close()
	eof := make(chan struct{})
	accepted := make(chan struct{})
	go func() {
		conn, err := ln.Accept()
		if err != nil {
			return
		}
		close(accepted)
		defer conn.Close()
		switch c.Peer {
		case "plain-greeting":
			_, _ = conn.Write([]byte("220 plain.verif.example ESMTP, no TLS here\r\n"))
		case "garbage":
			_, _ = conn.Write([]byte("\x00\x01\x02 not a TLS record at all \xff\xfe\r\n"))
		case "wrongname-cert", "untrusted-cert":
			cert := tm.WrongName
			if c.Peer == "untrusted-cert" {
				cert = tm.Untrusted
			}
			ts := tls.Server(&noCloseConn{conn}, gen.ServerTLS(cert, 0, 0))
			_ = conn.SetDeadline(time.Now().Add(5 * time.Second))
			_ = ts.Handshake() // fails: the client refuses the certificate
			_ = conn.SetDeadline(time.Time{})
		}
		// the peer holds the connection and only watches for the end of the stream
		buf := make([]byte, 4096)
		_ = conn.SetReadDeadline(time.Now().Add(wait + 10*time.Second))
		for {
			if _, err := conn.Read(buf); err != nil {
				if ne, ok := err.(net.Error); !ok || !ne.Timeout() {
					close(eof)
				}
				return
			}
		}
	}()
	port := ln.Addr().(*net.TCPAddr).Port
	cl, err := mail.NewClient("localhost", mail.WithPort(port), mail.WithSSL(), mail.WithTLSConfig(gen.ClientTLS("localhost", 0, 0)), mail.WithTimeout(2*time.Second), mail.WithHELO("client.verif.example"))
	if err != nil {
		r.HarnessError("C19 own NewClient: " + err.Error())
		return false, false
	}
	msg, _ := simpleMsg("c19o", "m0@sender.example", []string{"r0@rcpt.example"}, "quoted-printable", "body\r\n")
	ctx, cancel := context.WithTimeout(context.Background(), 8*time.Second)
	defer cancel()
	var callErr error
	if c.Via == "dialandsend" {
		callErr = cl.DialAndSendWithContext(ctx, msg)
	} else {
		callErr = cl.DialWithContext(ctx)
	}
	select {
	case <-accepted:
	case <-time.After(2 * time.Second):
		return false, false
	}
	if callErr == nil {
		r.Violate(ev.Violation{Key: "own-dialer:no-error:" + c.Peer, What: "implicit TLS against a peer of kind " + c.Peer + ": the call returned nil", Case: c})
		return true, true
	}
	select {
	case <-eof:
		return true, true
	case <-time.After(wait):
		return false, true
	}
}

type noCloseConn struct{ net.Conn }

func (n *noCloseConn) Close() error { return nil }

// c19SeqCase: a Client that holds an established connection (DialWithContext) is used for DialAndSend. The connection
// the message travels over must have seen QUIT and be closed when DialAndSend returns - also when the send fails.
type c19SeqCase struct {
	RefuseRcpt bool `json:"refuse_rcpt"`
	Seq        bool `json:"dial_then_dialandsend"`
}

func runC19Seq(r *ev.Run, c c19SeqCase) {
	viol := func(key, what string, obs any) {
		r.Violate(ev.Violation{Key: key, What: what, Case: c, Observed: obs})
	}
	farm := &refsmtp.Farm{NewConfig: func(int) *refsmtp.Config {
		return &refsmtp.Config{AllowUTF8: true, Decide: func(st refsmtp.Step) refsmtp.Action {
			if c.RefuseRcpt && st.Verb == "RCPT" {
				return refsmtp.Action{Kind: refsmtp.Reply, Code: 550, Text: "5.1.1 no such user"}
			}
			return refsmtp.Action{}
		}}
	}}
	defer farm.Shutdown()
	cl, err := mail.NewClient(netHost, mail.WithDialContextFunc(farm.Dial), mail.WithTimeout(defaultNetTimeout), mail.WithHELO("client.verif.example"), mail.WithTLSPolicy(mail.NoTLS))
	if err != nil {
		r.HarnessError("C19 seq NewClient: " + err.Error())
		return
	}
	ctx, cancel := context.WithTimeout(context.Background(), 10*time.Second)
	defer cancel()
	if err := cl.DialWithContext(ctx); err != nil {
		r.HarnessError("C19 seq dial: " + err.Error())
		return
	}
	msg, _ := simpleMsg("c19s", "m0@sender.example", []string{"r0@rcpt.example"}, "quoted-printable", "body\r\n")
	var dsErr error
	hung, _ := withWatchdog(20*time.Second, func() { dsErr = cl.DialAndSendWithContext(ctx, msg) }, func() { farm.Shutdown() })
	if hung {
		r.Inconclusive("C19 seq: DialAndSend hung")
		return
	}
	sess, conns := farm.Snapshot()
	closedAtReturn := make([]bool, len(conns))
	for i, tc := range conns {
		closedAtReturn[i] = tc.Closed()
	}
	_ = cl.Close()
	farm.Shutdown()
	r.Count("dial_then_dialandsend_sequences", 1)
	used := -1
	for i, s := range sess {
		cmds, _, _ := s.Snapshot()
		for _, cr := range cmds {
			if cr.Verb == "MAIL" {
				used = i
			}
		}
	}
	if used < 0 {
		r.Inconclusive("C19 seq: no connection saw MAIL")
		return
	}
	quit := strings.Contains(sess[used].Transcript(), "QUIT:")
	if !closedAtReturn[used] {
		viol(fmt.Sprintf("conn-open-after-dialandsend:established-client:error=%t", dsErr != nil), fmt.Sprintf("DialAndSend on a Client that holds an established connection returned %v; the connection the message went over (#%d of %d) was not closed at that moment (QUIT seen: %t)", dsErr, used, len(conns), quit), sess[used].Transcript())
	} else if dsErr == nil && !quit {
		viol("success-without-quit:established-client", "DialAndSend succeeded but the connection it used never saw QUIT", sess[used].Transcript())
	}
	r.Eval(fmt.Sprintf("seq|%+v", c), true)
}

// c19RedialCase: DialWithContext on a Client that still holds the connection of an earlier dial (no Close in between).
// The earlier connection is healthy, has been dropped by the server, or its server refuses QUIT / NOOP from now on;
// the second dialogue may itself be refused at EHLO. Whatever the second call returns as an error, the connection it
// opened must be closed at that moment.
type c19RedialCase struct {
	First      string `json:"first_connection"` // healthy | server-dropped | quit-refused | noop-refused | quit-dropped
	SecondEHLO string `json:"second_ehlo"`      // ok | 554 | drop
	Redial     bool   `json:"redial_case"`
}

func runC19Redial(r *ev.Run, c c19RedialCase) {
	viol := func(key, what string, obs any) {
		r.Violate(ev.Violation{Key: key, What: what, Case: c, Observed: obs})
	}
	var refuse int32
	farm := &refsmtp.Farm{NewConfig: func(n int) *refsmtp.Config {
		return &refsmtp.Config{AllowUTF8: true, Decide: func(st refsmtp.Step) refsmtp.Action {
			if n == 0 && atomic.LoadInt32(&refuse) == 1 {
				switch {
				case c.First == "quit-refused" && st.Verb == "QUIT":
					return refsmtp.Action{Kind: refsmtp.Reply, Code: 500, Text: "5.5.1 not now"}
				case c.First == "quit-dropped" && st.Verb == "QUIT":
					return refsmtp.Action{Kind: refsmtp.Drop}
				case c.First == "noop-refused" && (st.Verb == "NOOP" || st.Verb == "RSET"):
					return refsmtp.Action{Kind: refsmtp.Reply, Code: 421, Text: "4.4.2 closing"}
				}
			}
			if n == 1 && (st.Verb == "EHLO" || st.Verb == "HELO") {
				switch c.SecondEHLO {
				case "554":
					return refsmtp.Action{Kind: refsmtp.Reply, Code: 554, Text: "5.3.2 go away"}
				case "drop":
					return refsmtp.Action{Kind: refsmtp.Drop}
				}
			}
			return refsmtp.Action{}
		}}
	}}
	defer farm.Shutdown()
	cl, err := mail.NewClient(netHost, mail.WithDialContextFunc(farm.Dial), mail.WithTimeout(defaultNetTimeout), mail.WithHELO("client.verif.example"), mail.WithTLSPolicy(mail.NoTLS))
	if err != nil {
		r.HarnessError("C19 redial NewClient: " + err.Error())
		return
	}
	ctx, cancel := context.WithTimeout(context.Background(), 10*time.Second)
	defer cancel()
	if err := cl.DialWithContext(ctx); err != nil {
		r.HarnessError("C19 redial first dial: " + err.Error())
		return
	}
	atomic.StoreInt32(&refuse, 1)
	if c.First == "server-dropped" {
		if sess, _ := farm.Snapshot(); len(sess) > 0 {
			sess[0].Stop()
		}
		time.Sleep(5 * time.Millisecond)
	}
	var dErr error
	hung, _ := withWatchdog(20*time.Second, func() { dErr = cl.DialWithContext(ctx) }, func() { farm.Shutdown() })
	if hung {
		r.Inconclusive("C19 redial: second DialWithContext hung")
		return
	}
	sess, conns := farm.Snapshot()
	closedAtReturn := make([]bool, len(conns))
	for i, tc := range conns {
		closedAtReturn[i] = tc.Closed()
	}
	_ = cl.Close()
	farm.Shutdown()
	r.Count("redial_sequences", 1)
	r.Eval(fmt.Sprintf("redial|%+v", c), dErr != nil)
	if dErr == nil {
		r.Count("redials_succeeded", 1)
		return
	}
	r.Count("redials_failed", 1)
	if len(conns) < 2 {
		return // the error came before a second connection was opened
	}
	if !closedAtReturn[1] {
		tr := ""
		if len(sess) > 1 {
			tr = sess[1].Transcript()
		}
		viol("conn-open-after-error:redial:"+c.First, fmt.Sprintf("DialWithContext on a Client that held an earlier connection (%s) returned %v; the connection this call had opened was not closed at that moment", c.First, dErr), tr)
	}
}

func classifyDialErr(err error) string {
	s := err.Error()
	switch {
	case strings.Contains(s, "does not support STARTTLS"):
		return "starttls-missing"
	case strings.Contains(s, "does not support SMTP AUTH"):
		return "auth-missing"
	case strings.Contains(s, "server does not support SMTP AUTH type"):
		return "auth-type-unsupported"
	case strings.Contains(s, "certificate"), strings.Contains(s, "tls:"), strings.Contains(s, "x509"):
		return "tls-handshake"
	case strings.Contains(s, "SMTP AUTH failed"):
		return "auth-failed"
	case strings.Contains(s, "unencrypted"):
		return "auth-unencrypted"
	}
	return "other"
}

func c19Configs(thorough bool) []c19Config {
	all := []string{"8BITMIME", "DSN", "ENHANCEDSTATUSCODES"}
	with := func(extra ...string) []string { return append(append([]string{}, all...), extra...) }
	var cfgs []c19Config
	for _, via := range []string{"send", "withclient", "dialandsend"} {
		n := 0
		if via == "dialandsend" {
			n = 2
		}
		cfgs = append(cfgs,
			c19Config{Name: via + "-plain", Via: via, TLS: "none", Caps: all, NMsgs: n},
			c19Config{Name: via + "-starttls", Via: via, TLS: "mandatory", Caps: with("STARTTLS"), NMsgs: n},
			c19Config{Name: via + "-starttls-missing", Via: via, TLS: "mandatory", Caps: all, NMsgs: n},
			c19Config{Name: via + "-opportunistic-no-starttls", Via: via, TLS: "opportunistic", Caps: all, NMsgs: n},
			c19Config{Name: via + "-opportunistic-starttls", Via: via, TLS: "opportunistic", Caps: with("STARTTLS"), NMsgs: n},
			c19Config{Name: via + "-wrongname-cert", Via: via, TLS: "mandatory", Caps: with("STARTTLS"), BadCert: "wrongname", NMsgs: n},
			c19Config{Name: via + "-untrusted-cert", Via: via, TLS: "opportunistic", Caps: with("STARTTLS"), BadCert: "untrusted", NMsgs: n},
			c19Config{Name: via + "-auth-plain", Via: via, TLS: "none", Caps: with("AUTH PLAIN LOGIN"), Auth: "PLAIN", NMsgs: n},
			c19Config{Name: via + "-auth-login", Via: via, TLS: "none", Caps: with("AUTH LOGIN"), Auth: "LOGIN", NMsgs: n},
			c19Config{Name: via + "-auth-wrong-password", Via: via, TLS: "none", Caps: with("AUTH PLAIN"), Auth: "PLAIN", WrongPW: true, NMsgs: n},
			c19Config{Name: via + "-auth-not-advertised", Via: via, TLS: "none", Caps: all, Auth: "PLAIN", NMsgs: n},
			c19Config{Name: via + "-auth-type-unsupported", Via: via, TLS: "none", Caps: with("AUTH LOGIN"), Auth: "PLAIN", NMsgs: n},
			c19Config{Name: via + "-auth-cram-unsupported", Via: via, TLS: "none", Caps: with("AUTH PLAIN"), Auth: "CRAM-MD5", NMsgs: n},
			c19Config{Name: via + "-auth-scram-unsupported", Via: via, TLS: "none", Caps: with("AUTH PLAIN"), Auth: "SCRAM-SHA-256", NMsgs: n},
			c19Config{Name: via + "-auth-plain-refused-unencrypted", Via: via, TLS: "none", Caps: with("AUTH PLAIN"), Auth: "PLAIN-TLSONLY", NMsgs: n},
			c19Config{Name: via + "-autodiscover-nothing", Via: via, TLS: "none", Caps: with("AUTH PLAIN LOGIN"), Auth: "AUTODISCOVER", NMsgs: n},
			c19Config{Name: via + "-starttls-auth", Via: via, TLS: "mandatory", Caps: with("STARTTLS"), CapsTLS: with("AUTH PLAIN"), Auth: "PLAIN-TLSONLY", NMsgs: n},
			c19Config{Name: via + "-implicit-tls", Via: via, TLS: "implicit", Caps: all, NMsgs: n},
			c19Config{Name: via + "-implicit-tls-auth", Via: via, TLS: "implicit", Caps: with("AUTH PLAIN"), Auth: "PLAIN-TLSONLY", NMsgs: n},
			c19Config{Name: via + "-implicit-tls-wrongname-cert", Via: via, TLS: "implicit", Caps: all, BadCert: "wrongname", NMsgs: n},
		)
	}
	for i := range cfgs {
		cfgs[i].MaxDev = 1
		if thorough {
			cfgs[i].MaxDev = 3
		}
	}
	return cfgs
}

func runC19(r *ev.Run, rep *ev.ReplayDoc) ev.Summary {
	sum := ev.Summary{
		Rule: "execution-tree enumeration over the dial and dial-and-send dialogues: for DialWithContext, DialToSMTPClientWithContext and DialAndSend x TLS policies (none/opportunistic/mandatory, STARTTLS advertised or not, good / wrong-name / untrusted certificate) x auth configurations (PLAIN, LOGIN, wrong password, AUTH missing, mechanism unsupported, refused on unencrypted connection, autodiscover without usable mechanism), the server deviates ({4yz, 5yz, drop, a line that is no SMTP reply}) or the caller's context is cancelled (server answering normally) at up to 1 (quick) / 2 (thorough) positions from the greeting to QUIT. The tracking net.Conn injected through WithDialContextFunc is inspected at the instant the public call returns. Plus DialAndSend, and a second DialWithContext, on a Client that already holds an established connection (healthy, dropped by the server, or refusing QUIT / NOOP); plus implicit TLS through the library's own dialer over loopback TCP against peers the handshake cannot succeed with (clear-text greeting, wrong-name / untrusted certificate, garbage): the peer never closes and watches for the end of the stream. non-trivial = the call failed or a deviation was scripted",
		Assumptions: []string{
			"closing is synchronous: the conn must be closed when the call returns, no grace period",
			"only errors returned after the dial function handed out a connection are judged",
		},
		Floors:     []ev.Floor{{Counter: "failed_calls_after_connect", Min: 300}, {Counter: "successful_dialandsend", Min: 5}, {Counter: "failing_steps", Min: 15}},
		Exhaustive: true,
	}
	if rep != nil {
		var q c19SeqCase
		if err := json.Unmarshal(rep.Case, &q); err == nil && q.Seq {
			runC19Seq(r, q)
			return sum
		}
		var rd c19RedialCase
		if err := json.Unmarshal(rep.Case, &rd); err == nil && rd.Redial {
			runC19Redial(r, rd)
			return sum
		}
		var o c19OwnCase
		if err := json.Unmarshal(rep.Case, &o); err == nil && o.Own {
			if closed, ran := runC19Own(r, o, 15*time.Second); ran && !closed {
				r.Violate(ev.Violation{Key: "conn-open-after-error:own-dialer:" + o.Via + ":" + o.Peer, What: "replay: the peer did not see the connection closed within 15 s", Case: o})
			}
			return sum
		}
		var c c19Case
		if err := json.Unmarshal(rep.Case, &c); err != nil {
			r.HarnessError("bad replay case: " + err.Error())
			return sum
		}
		runC19Case(r, c)
		return sum
	}
	cfgs := c19Configs(r.Thorough() && !ev.RaceSlice())
	// deviations: negative replies, hang-up, a line that is no SMTP reply, and the caller's context being cancelled
	// while the server answers normally
	kinds := append(append([]string{}, devKinds...), "garbage", "cancel-ctx")
	n := enumTree(r, cfgs, func(c c19Config) int { return c.MaxDev }, kinds, func(cfg c19Config, script []scriptEntry) int {
		return runC19Case(r, c19Case{Cfg: cfg, Script: script})
	})
	// DialAndSend on a Client that already holds an established connection
	for _, rr := range []bool{false, true} {
		runC19Seq(r, c19SeqCase{RefuseRcpt: rr, Seq: true})
	}
	// DialWithContext again on a Client that still holds an earlier connection
	for _, first := range []string{"healthy", "server-dropped", "quit-refused", "quit-dropped", "noop-refused"} {
		for _, se := range []string{"ok", "554", "drop"} {
			runC19Redial(r, c19RedialCase{First: first, SecondEHLO: se, Redial: true})
		}
	}
	// implicit TLS through the library's own tls.Dialer path: the peer watches whether its side sees the end of the stream
	var own []c19OwnCase
	for _, via := range []string{"dial", "dialandsend"} {
		for _, peer := range []string{"plain-greeting", "wrongname-cert", "untrusted-cert", "garbage"} {
			own = append(own, c19OwnCase{Via: via, Peer: peer, Own: true})
		}
	}
	var omu sync.Mutex
	var suspects []c19OwnCase
	r.ParallelN(8, len(own), func(i int) {
		closed, ran := runC19Own(r, own[i], 3*time.Second)
		if !ran {
			r.Inconclusive("C19 own-dialer case did not run: " + own[i].Peer)
			return
		}
		r.Count("own_dialer_failed_handshakes", 1)
		r.Eval(fmt.Sprintf("own|%+v", own[i]), true)
		if closed {
			r.Count("own_dialer_connection_seen_closed_by_peer", 1)
			return
		}
		omu.Lock()
		suspects = append(suspects, own[i])
		omu.Unlock()
	})
	for _, c := range suspects {
		// confirm alone, with a long observation window: a closed TCP connection reaches the peer within milliseconds
		if closed, ran := runC19Own(r, c, 15*time.Second); ran && !closed {
			r.Violate(ev.Violation{Key: "conn-open-after-error:own-dialer:" + c.Via + ":" + c.Peer, What: fmt.Sprintf("implicit TLS with the library's own dialer against a %s peer: %s returned an error, but the peer did not see the connection closed within 15 s (it is still open)", c.Peer, c.Via), Case: c})
		} else {
			r.Inconclusive("C19 own-dialer: closure seen late once, in time when re-run alone: " + c.Peer)
		}
	}
	r.Sample(map[string]any{"configurations": len(cfgs), "executions": n, "example": c19Case{Cfg: cfgs[1], Script: []scriptEntry{{Index: 2, Kind: "5yz"}}}})
	r.CollectRaceLogs()
	return sum
}
