//go:build verif

package main

import (
	"encoding/json"
	"fmt"
	"io"
	mrand "math/rand"
	"os"
	"path/filepath"
	"regexp"
	"runtime/debug"
	"strings"

	"verif/internal/ev"
	"verif/internal/faultio"
	"verif/internal/gen"
)

func init() { register("C12", "fault_enumeration", runC12) }

type c12Case struct {
	Spec      gen.MsgSpec          `json:"spec"`
	SinkLimit int64                `json:"sink_limit"` // -1: sink never fails
	Short     bool                 `json:"short_write,omitempty"`
	Faults    map[string]gen.Fault `json:"producer_faults,omitempty"`
	// Transient: the destination refuses exactly one write (the one crossing SinkLimit) and accepts everything after it
	Transient bool `json:"transient_sink_fault,omitempty"`
	// Primed: the message has been rendered once (to a healthy sink) before the judged render
	Primed bool `json:"rendered_once_before,omitempty"`
	// InvalidConfig: the spec carries a caller-defined boundary mime/multipart refuses; whether such a render fails is not
	// stated by the property, but it must not panic and the count must be exact whatever it returns
	InvalidConfig bool `json:"invalid_config,omitempty"`
	// PerCall > 0: the destination takes at most that many bytes of each write and reports the short count with a nil error
	PerCall int `json:"short_count_without_error_per_call,omitempty"`
}

var goMailFrame = regexp.MustCompile(`github\.com/wneessen/go-mail\.([^\s(]*(?:\([^)]*\))?[^\s(]*)\(`)

func panicSite(stack string) string {
	if m := goMailFrame.FindStringSubmatch(stack); m != nil {
		return strings.NewReplacer("(", "", ")", "", "*", "").Replace(m[1])
	}
	return "unknown"
}

// fixedHeaders makes the header block independent of time and randomness.
func fixedHeaders(s *gen.MsgSpec) {
	s.Extra = append(s.Extra, [2]string{"Date", "Mon, 02 Jan 2006 15:04:05 +0000"}, [2]string{"Message-ID", "<fixed.id@verif.example>"})
}

func inMemorySources(s *gen.MsgSpec, r *mrand.Rand) {
	fix := func(fs []gen.FileSpec) {
		for i := range fs {
			switch fs[i].Source {
			case "osfile", "osfile-rs", "iofs", "bbuf":
				fs[i].Source = gen.Pick(r, []string{"reader", "readseeker", "writer"})
			}
		}
	}
	fix(s.Embeds)
	fix(s.Attach)
}

type c12Outcome struct {
	n        int64
	err      error
	panicked any
	stack    string
	sink     *faultio.Sink
}

func c12Render(c c12Case) (c12Outcome, error) {
	env := &gen.Env{Faults: c.Faults}
	m, err := c.Spec.Build(env)
	if err != nil {
		return c12Outcome{}, err
	}
	o := c12Outcome{sink: &faultio.Sink{Limit: c.SinkLimit, Short: c.Short, Transient: c.Transient, PerCall: c.PerCall}}
	if c.Primed {
		func() {
			defer func() { _ = recover() }()
			_, _ = m.WriteTo(io.Discard)
		}()
	}
	func() {
		defer func() {
			if p := recover(); p != nil {
				o.panicked = p
				o.stack = string(debug.Stack())
			}
		}()
		o.n, o.err = m.WriteTo(o.sink)
	}()
	return o, nil
}

func encDepthClass(s *gen.MsgSpec) string {
	multi := len(s.Parts)+len(s.Embeds)+len(s.Attach) > 1 || s.SMIME != "" || s.PGP != ""
	d := "depth0"
	if multi {
		d = "multipart"
	}
	encs := map[string]bool{}
	for _, p := range s.Parts {
		encs[effEnc(s.Enc, p.Enc)] = true
	}
	var es []string
	for _, e := range []string{"quoted-printable", "base64", "8bit", "7bit"} {
		if encs[e] {
			es = append(es, e)
		}
	}
	return d + ":" + strings.Join(es, "+")
}

func runC12Case(r *ev.Run, c c12Case) (accepted int64, failed bool) {
	viol := func(key, what string, obs any) {
		r.Violate(ev.Violation{Key: key, What: what, Case: c, Observed: obs})
	}
	o, err := c12Render(c)
	if err != nil {
		r.HarnessError("C12 build: " + err.Error())
		return 0, false
	}
	faultKind := "none"
	switch {
	case len(c.Faults) > 0 && c.SinkLimit >= 0:
		faultKind = "sink+producer"
	case len(c.Faults) > 0:
		faultKind = "producer"
	case c.PerCall > 0:
		faultKind = "short-count-nil-error"
	case c.SinkLimit >= 0 && c.Transient:
		faultKind = "transient-sink"
	case c.SinkLimit >= 0 && c.Short:
		faultKind = "short-write"
	case c.SinkLimit >= 0:
		faultKind = "sink"
	}
	r.Count("renders_"+faultKind, 1)
	if o.panicked != nil {
		viol("panic:"+panicSite(o.stack)+":"+faultKind, fmt.Sprintf("WriteTo panicked (%s fault): %v", faultKind, o.panicked), ev.Trunc(o.stack, 3000))
		return o.sink.Accepted, o.sink.Failed
	}
	faulty := o.sink.Failed || len(c.Faults) > 0
	if faulty && o.err == nil {
		ek := ""
		for _, f := range c.Faults {
			if f.ErrKind != "" {
				ek = ":producer-error=" + f.ErrKind
			}
		}
		if c.Transient {
			ek = fmt.Sprintf(":rendered-before=%t", c.Primed)
		}
		viol("silent-success:"+faultKind+ek, fmt.Sprintf("WriteTo returned nil although a fault was injected (%s%s; sink refused a write: %t)", faultKind, ek, o.sink.Failed), nil)
	}
	if c.InvalidConfig {
		r.Count("renders_invalid_boundary", 1)
		if o.err != nil {
			r.Count("invalid_boundary_reported_as_error", 1)
		} else {
			r.Seen("invalid_boundary_rendered_without_error", fmt.Sprintf("%s|%q", c.Spec.Shape(), c.Spec.Boundary))
		}
	}
	if !faulty && o.err != nil && !c.InvalidConfig {
		viol("error-without-fault", "WriteTo failed on a fault-free render: "+o.err.Error(), nil)
	}
	if o.n != o.sink.Accepted {
		if faulty {
			viol("count-on-failure:"+faultKind+":"+encDepthClass(&c.Spec), fmt.Sprintf("WriteTo returned n=%d but the destination accepted %d bytes (err=%v)", o.n, o.sink.Accepted, o.err), nil)
		} else {
			viol("count-on-success:"+encDepthClass(&c.Spec), fmt.Sprintf("WriteTo returned n=%d but wrote %d bytes", o.n, o.sink.Accepted), nil)
		}
	}
	if o.err != nil {
		r.Count("errors_reported", 1)
	}
	return o.sink.Accepted, o.sink.Failed
}

func c12Shapes(r *ev.Run) []gen.MsgSpec {
	var out []gen.MsgSpec
	n := 0
	add := func(s gen.MsgSpec, rng *mrand.Rand) {
		inMemorySources(&s, rng)
		fixedHeaders(&s)
		// keep contents small: exhaustive over k is linear in the output length
		for i := range s.Parts {
			if len(s.Parts[i].Content) > 300 {
				s.Parts[i].Content = s.Parts[i].Content[:300]
			}
		}
		for i := range s.Embeds {
			if len(s.Embeds[i].Content) > 200 {
				s.Embeds[i].Content = s.Embeds[i].Content[:200]
			}
		}
		for i := range s.Attach {
			if len(s.Attach[i].Content) > 200 {
				s.Attach[i].Content = s.Attach[i].Content[:200]
			}
		}
		out = append(out, s)
	}
	maxP, maxE, maxA := 2, 1, 1
	if r.Thorough() {
		maxP, maxE, maxA = 3, 2, 2
	}
	encs := []string{"quoted-printable", "base64", "8bit", "7bit"}
	for p := 0; p <= maxP; p++ {
		for e := 0; e <= maxE; e++ {
			for a := 0; a <= maxA; a++ {
				if p+e+a == 0 {
					continue
				}
				for ei, enc := range encs {
					if !r.Thorough() && (p+e+a+ei)%2 == 1 && p+e+a > 1 {
						continue // quick: half of the multi-leaf combinations
					}
					rng := r.Rng("c12shape", n)
					n++
					s := genSpec(rng, fmt.Sprintf("c12-%d", n), enc, p, e, a)
					add(s, rng)
				}
			}
		}
	}
	// pure shapes: every part inherits the message encoding
	for ei, enc := range encs {
		for _, p := range []int{1, 2} {
			rng := r.Rng("c12pure", ei*10+p)
			s := genSpec(rng, fmt.Sprintf("c12-pure-%s-%d", enc, p), enc, p, 0, p-1)
			for j := range s.Parts {
				s.Parts[j].Enc = ""
				s.Parts[j].Via = ""
				s.Parts[j].Chunk = 0
				s.Parts[j].Content = []byte("Plain text line one\r\nline two with trailing blank \r\n")
			}
			add(s, rng)
		}
	}
	// S/MIME shapes
	for i, k := range []string{"rsa", "ecdsa"} {
		rng := r.Rng("c12smime", i)
		s := genSpec(rng, fmt.Sprintf("c12-smime-%d", i), "quoted-printable", 1+i, i, 1)
		s.SMIME = k
		for j := range s.Parts {
			s.Parts[j].Content = gen.CanonLF(s.Parts[j].Content)
		}
		add(s, rng)
	}
	// messages declared PGP/MIME (the container is opened by the writer, the parts come from the caller)
	for i, k := range []string{"encrypt", "signature"} {
		for j, sh := range [][3]int{{1, 0, 0}, {2, 0, 0}, {1, 0, 1}, {1, 1, 1}} {
			rng := r.Rng("c12pgp", i*10+j)
			s := genSpec(rng, fmt.Sprintf("c12-pgp-%s-%d", k, j), encs[(i+j)%len(encs)], sh[0], sh[1], sh[2])
			s.PGP = k
			add(s, rng)
		}
	}
	// random extra shapes
	extra := r.Pick(6, 300)
	for i := 0; i < extra; i++ {
		rng := r.Rng("c12rand", i)
		s := genSpec(rng, fmt.Sprintf("c12-r%d", i), gen.Pick(rng, encs), rng.Intn(4), rng.Intn(3), rng.Intn(3))
		if len(s.Parts)+len(s.Embeds)+len(s.Attach) == 0 {
			s.Parts = append(s.Parts, gen.PartSpec{Type: "text/plain", Content: []byte("x")})
		}
		add(s, rng)
	}
	return out
}

func producers(s *gen.MsgSpec) []string {
	var out []string
	for i := range s.Parts {
		out = append(out, fmt.Sprintf("part%d", i))
	}
	for i := range s.Embeds {
		out = append(out, fmt.Sprintf("embed%d", i))
	}
	for i := range s.Attach {
		out = append(out, fmt.Sprintf("attach%d", i))
	}
	return out
}

func runC12(r *ev.Run, rep *ev.ReplayDoc) ev.Summary {
	sum := ev.Summary{
		Rule: "for every shape (enumerated parts x embeds x attachments x message encoding incl. 7bit, S/MIME shapes, PGP/MIME-declared shapes, random shapes): a fault-free render, then EVERY k in [0, len(output)) with a sink that accepts exactly k bytes and fails afterwards, short-write sinks at sampled k, destinations that take at most 1 / 7 / 64 / 100 / 150 / 512 bytes of a write and report the short count without an error, a destination that refuses exactly one write at every k and accepts everything after it (on a fresh message and on one that has been rendered before), every producer failing before/inside/after its data, caller-supplied ReadSeekers that fail in Read or cannot be rewound after delivering their data, fs.FS sources that refuse Open at render time, and producer+sink fault pairs; multipart shapes also with caller-defined boundaries that mime/multipart refuses (only no-panic and the exact count are judged there). non-trivial = a fault was injected; distinct by (shape, fault)",
		Assumptions: []string{
			"a sink fault is persistent (every write after the first refused one fails too) except in the transient-sink group, where only the write crossing k is refused",
			"the message is rebuilt for every fault so that a failed render cannot influence the next case (repeatability after a failed render is C11)",
		},
		Floors:     []ev.Floor{{Counter: "renders_sink", Min: 5000}, {Counter: "renders_producer", Min: 50}, {Counter: "errors_reported", Min: 5000}},
		Exhaustive: true,
	}
	if rep != nil {
		var u c12UnreadableCase
		if json.Unmarshal(rep.Case, &u) == nil && u.Unreadable {
			runC12Unreadable(r, u)
			return sum
		}
		var c c12Case
		if err := json.Unmarshal(rep.Case, &c); err != nil {
			r.HarnessError("bad replay case: " + err.Error())
			return sum
		}
		runC12Case(r, c)
		return sum
	}
	shapes := c12Shapes(r)
	type job struct {
		c c12Case
	}
	var jobs []job
	totalLen := int64(0)
	for si, s := range shapes {
		// fault-free render to learn the length
		base := c12Case{Spec: s, SinkLimit: -1}
		L, _ := runC12Case(r, base)
		r.Eval(fmt.Sprintf("shape%d|none", si), false)
		totalLen += L
		slack := int64(0)
		if s.SMIME != "" {
			slack = 8 // ECDSA signature length varies by a few bytes between renders
		}
		for k := int64(0); k < L+slack; k++ {
			jobs = append(jobs, job{c12Case{Spec: s, SinkLimit: k}})
		}
		// a destination that refuses one write and then works again, at every k; on a fresh message and on one that
		// has been rendered before (boundaries and file headers are cached then)
		for k := int64(0); k < L; k++ {
			if s.SMIME != "" && k%3 != 0 && k > 600 {
				continue // signed shapes: every offset of the header block, every third one after it
			}
			jobs = append(jobs, job{c12Case{Spec: s, SinkLimit: k, Transient: true, Primed: k%2 == 0}})
		}
		for _, pc := range []int{1, 7, 64, 100, 150, 512} {
			jobs = append(jobs, job{c12Case{Spec: s, SinkLimit: -1, PerCall: pc}})
		}
		rng := r.Rng("c12short", si)
		for j := 0; j < 12; j++ {
			jobs = append(jobs, job{c12Case{Spec: s, SinkLimit: rng.Int63n(L + 1), Short: true}})
		}
		for _, p := range producers(&s) {
			for _, after := range []int{0, 1, 7, -1} {
				// the producer fails with different error values (a failure is a failure whatever the value is)
				for _, kind := range []string{"", "eof", "unexpected-eof", "wrapped-eof", "closed-pipe"} {
					jobs = append(jobs, job{c12Case{Spec: s, SinkLimit: -1, Faults: map[string]gen.Fault{p: {After: after, ErrKind: kind}}}})
				}
				// producer fault together with a sink fault at a few offsets
				for j := 0; j < 3; j++ {
					jobs = append(jobs, job{c12Case{Spec: s, SinkLimit: rng.Int63n(L + 1), Faults: map[string]gen.Fault{p: {After: after, ErrKind: []string{"", "eof", "wrapped-eof"}[j]}}}})
				}
			}
		}
		// the fault sits in the caller's own io.ReadSeeker (library producer fileFromReadSeeker): reads fail, or the stream
		// delivers everything and cannot be rewound afterwards
		for fi, f := range s.Embeds {
			if f.Source == "readseeker" && f.Chunk == 0 {
				for _, ft := range []gen.Fault{{After: -1, ErrKind: "source-seek"}, {After: 0, ErrKind: "source-read"}, {After: 5, ErrKind: "source-read"}} {
					if ft.After > 0 && len(f.Content) <= ft.After {
						continue // the stream ends before the fault position
					}
					jobs = append(jobs, job{c12Case{Spec: s, SinkLimit: -1, Faults: map[string]gen.Fault{fmt.Sprintf("embed%d", fi): ft}}})
				}
			}
		}
		for fi, f := range s.Attach {
			if f.Source == "readseeker" && f.Chunk == 0 {
				for _, ft := range []gen.Fault{{After: -1, ErrKind: "source-seek"}, {After: 0, ErrKind: "source-read"}, {After: 5, ErrKind: "source-read"}} {
					if ft.After > 0 && len(f.Content) <= ft.After {
						continue
					}
					jobs = append(jobs, job{c12Case{Spec: s, SinkLimit: -1, Faults: map[string]gen.Fault{fmt.Sprintf("attach%d", fi): ft}}})
				}
			}
		}
		// a file attached from an fs.FS that refuses Open when the message is rendered
		if len(s.Attach) > 0 && s.Attach[0].Chunk == 0 {
			fs2 := s
			fs2.Attach = append([]gen.FileSpec{}, s.Attach...)
			fs2.Attach[0].Source = "iofs"
			jobs = append(jobs, job{c12Case{Spec: fs2, SinkLimit: -1, Faults: map[string]gen.Fault{"attach0": {After: -1, ErrKind: "source-open"}}}})
		}
		if len(s.Embeds) > 0 && s.Embeds[0].Chunk == 0 {
			fs2 := s
			fs2.Embeds = append([]gen.FileSpec{}, s.Embeds...)
			fs2.Embeds[0].Source = "iofs"
			jobs = append(jobs, job{c12Case{Spec: fs2, SinkLimit: -1, Faults: map[string]gen.Fault{"embed0": {After: -1, ErrKind: "source-open"}}}})
		}
		if len(s.Parts)+len(s.Embeds)+len(s.Attach) >= 2 && s.SMIME == "" {
			for bi, bad := range []string{"quote\"inside", strings.Repeat("x", 71), "trailing blank ", "ctl\x01char"} {
				bs := s
				bs.Boundary = bad
				jobs = append(jobs, job{c12Case{Spec: bs, SinkLimit: -1, InvalidConfig: true}})
				jobs = append(jobs, job{c12Case{Spec: bs, SinkLimit: rng.Int63n(L + 1), InvalidConfig: true, Short: bi%2 == 0}})
			}
		}
		if si%7 == 0 {
			r.Sample(map[string]any{"shape": s.Shape(), "output_len": L, "sink_offsets_enumerated": L + slack})
		}
	}
	r.Count("shapes", int64(len(shapes)))
	r.Count("output_bytes_total", totalLen)
	r.Parallel(len(jobs), func(i int) {
		c := jobs[i].c
		runC12Case(r, c)
		fs := ""
		for k, f := range c.Faults {
			fs += fmt.Sprintf("%s@%d%s", k, f.After, f.ErrKind)
		}
		r.Eval(fmt.Sprintf("%s|%d|%t|%s|%t%.8q|%t%t", c.Spec.ID, c.SinkLimit, c.Short, fs, c.InvalidConfig, c.Spec.Boundary, c.Transient, c.Primed), true)
	})
	// files on disk that can be opened but not read (a directory): the library's own producer fails at every render
	for _, kind := range []string{"attach", "embed"} {
		for _, smime := range []string{"", "rsa", "ecdsa"} {
			runC12Unreadable(r, c12UnreadableCase{Kind: kind, SMIME: smime, Unreadable: true})
		}
	}
	return sum
}

type c12UnreadableCase struct {
	Kind       string `json:"kind"` // attach | embed
	SMIME      string `json:"smime,omitempty"`
	Unreadable bool   `json:"unreadable_file"`
}

func runC12Unreadable(r *ev.Run, c c12UnreadableCase) {
	dir, err := os.MkdirTemp("", "verif-c12-")
	if err != nil {
		r.HarnessError(err.Error())
		return
	}
	defer os.RemoveAll(dir)
	p := filepath.Join(dir, "report.pdf")
	if err := os.Mkdir(p, 0o700); err != nil {
		r.HarnessError(err.Error())
		return
	}
	s := gen.MsgSpec{ID: "c12-unreadable", Enc: "quoted-printable", Subject: "unreadable file", From: gen.AddrSpec{Addr: "sender@example.com"}, To: []gen.AddrSpec{{Addr: "rcpt@example.net"}},
		Parts: []gen.PartSpec{{Type: "text/plain", Content: []byte("body\r\n")}}, SMIME: c.SMIME}
	m, err := s.Build(&gen.Env{})
	if err != nil {
		r.HarnessError("C12 unreadable build: " + err.Error())
		return
	}
	if c.Kind == "attach" {
		m.AttachFile(p)
	} else {
		m.EmbedFile(p)
	}
	for i := 1; i <= 3; i++ {
		sink := &faultio.Sink{Limit: -1}
		var n int64
		var werr error
		var pan any
		func() {
			defer func() { pan = recover() }()
			n, werr = m.WriteTo(sink)
		}()
		r.Count("renders_of_messages_with_an_unreadable_file", 1)
		switch {
		case pan != nil:
			r.Violate(ev.Violation{Key: "panic:unreadable-file", What: fmt.Sprintf("render %d of a message with a file that cannot be read panicked: %v", i, pan), Case: c})
		case werr == nil:
			r.Violate(ev.Violation{Key: "silent-success:unreadable-file:" + c.Kind, What: fmt.Sprintf("render %d of a message whose %s is a path that opens but cannot be read: WriteTo returned (%d, nil)", i, c.Kind, n), Case: c})
		case n != sink.Accepted:
			r.Violate(ev.Violation{Key: "count:unreadable-file", What: fmt.Sprintf("render %d: WriteTo returned %d, the destination accepted %d bytes", i, n, sink.Accepted), Case: c})
		}
	}
	r.Eval(fmt.Sprintf("unreadable|%+v", c), true)
}
