//go:build verif

package main

import (
	"crypto/tls"
	"fmt"
	"sync"

	"verif/internal/refsmtp"
	"verif/internal/sasl"
)

// authSrv is the reference SASL server configuration of one session.
type authSrv struct {
	User, Pass    string // what the server holds (already in stored/normalised form)
	Salt          []byte
	Iter          int
	ServerNonce   string
	CramChallenge string
	ScramExt      string // extensions appended to the SCRAM server-first message ("" = none)
	// Fault, when set, deviates at AUTH step N (0 = reaction to the AUTH command itself):
	// "535", "malformed" (non-base64 challenge), "extra" (an unexpected extra challenge), "drop", "454"
	FaultStep int
	Fault     string
	// FaultOnce: the fault only hits the first exchange of the session(s) using this configuration
	FaultOnce bool
	exchanges int

	mu  sync.Mutex
	Res authResult
}

type authResult struct {
	Mech        string
	Ran         bool
	Accepted    bool
	Reason      string
	ClientNonce string
	GS2         string
	UserRaw     string
	UserSeen    string
	CBType      string
	Steps       int
	ClientLines [][]byte // decoded client messages of the exchange
	AckedFinal  bool     // client acknowledged the server-final with an empty response
}

func (a *authSrv) result() authResult {
	a.mu.Lock()
	defer a.mu.Unlock()
	return a.Res
}

var actBadCreds = refsmtp.Action{Kind: refsmtp.Reply, Code: 535, Text: "5.7.8 Authentication credentials invalid"}
var actAborted = refsmtp.Action{Kind: refsmtp.Reply, Code: 501, Text: "5.7.0 Authentication aborted"}

// handler returns the refsmtp AUTH handler.
func (a *authSrv) handler() refsmtp.AuthHandler {
	return func(io refsmtp.AuthIO, mech string, initial []byte, has bool) refsmtp.Action {
		a.mu.Lock()
		a.Res = authResult{Mech: mech, Ran: true}
		a.exchanges++
		faulty := !a.FaultOnce || a.exchanges == 1
		a.mu.Unlock()
		step := 0
		set := func(f func(r *authResult)) {
			a.mu.Lock()
			f(&a.Res)
			a.mu.Unlock()
		}
		// fault reports whether a deviation is due at this step and performs it; done=true ends the exchange
		fault := func() (refsmtp.Action, bool) {
			defer func() { step++ }()
			if a.Fault == "" || a.FaultStep != step || !faulty {
				return refsmtp.Action{}, false
			}
			switch a.Fault {
			case "535":
				return actBadCreds, true
			case "454":
				return refsmtp.Action{Kind: refsmtp.Reply, Code: 454, Text: "4.7.0 Temporary authentication failure"}, true
			case "drop":
				return refsmtp.Action{Kind: refsmtp.Drop}, true
			case "malformed":
				_, _, _ = io.ChallengeRaw("this is !!! not base64 ***")
				return refsmtp.Action{Kind: refsmtp.Reply, Code: 501, Text: "5.5.2 Cannot decode response"}, true
			case "reprompt", "reprompt-ok":
				// the server asks for the user name (again) at this step, whatever the mechanism expects here, and
				// takes whatever comes back; reprompt ends with 535, reprompt-ok with 235
				resp, cancel, err := io.Challenge([]byte("Username:"))
				if err != nil {
					return refsmtp.Action{Kind: refsmtp.Drop}, true
				}
				if cancel {
					return actAborted, true
				}
				set(func(r *authResult) { r.ClientLines = append(r.ClientLines, resp) })
				if resp2, cancel2, err2 := io.Challenge([]byte("Username:")); err2 == nil && !cancel2 {
					set(func(r *authResult) { r.ClientLines = append(r.ClientLines, resp2) })
				}
				if a.Fault == "reprompt-ok" {
					return refsmtp.Action{}, true
				}
				return actBadCreds, true
			case "extra":
				resp, cancel, err := io.Challenge([]byte("unexpected extra challenge"))
				if err != nil {
					return refsmtp.Action{Kind: refsmtp.Drop}, true
				}
				if cancel {
					return actAborted, true
				}
				set(func(r *authResult) { r.ClientLines = append(r.ClientLines, resp) })
				return actBadCreds, true
			}
			return refsmtp.Action{}, false
		}
		ask := func(ch []byte) (resp []byte, end *refsmtp.Action) {
			if act, done := fault(); done {
				return nil, &act
			}
			r, cancel, err := io.Challenge(ch)
			if err != nil {
				act := refsmtp.Action{Kind: refsmtp.Drop}
				return nil, &act
			}
			if cancel {
				act := actAborted
				return nil, &act
			}
			set(func(x *authResult) { x.ClientLines = append(x.ClientLines, r); x.Steps++ })
			return r, nil
		}
		finish := func(ok bool, reason string) refsmtp.Action {
			set(func(r *authResult) { r.Accepted, r.Reason = ok, reason })
			if act, done := fault(); done {
				set(func(r *authResult) { r.Accepted = false; r.Reason = "scripted fault" })
				return act
			}
			if ok {
				return refsmtp.Action{}
			}
			return actBadCreds
		}
		if has {
			set(func(r *authResult) { r.ClientLines = append(r.ClientLines, initial) })
		}
		if act, done := fault(); done { // step 0: the AUTH command itself
			return act
		}
		switch mech {
		case "PLAIN":
			msg := initial
			if !has {
				r, end := ask(nil)
				if end != nil {
					return *end
				}
				msg = r
			}
			ok, reason := sasl.VerifyPlain(msg, a.User, a.Pass)
			return finish(ok, reason)
		case "LOGIN":
			u, end := ask([]byte("Username:"))
			if end != nil {
				return *end
			}
			p, end := ask([]byte("Password:"))
			if end != nil {
				return *end
			}
			ok, reason := sasl.VerifyLogin(u, p, a.User, a.Pass)
			return finish(ok, reason)
		case "CRAM-MD5":
			ch := a.CramChallenge
			if ch == "" {
				ch = "<1896.697170952@verif.example>"
			}
			r, end := ask([]byte(ch))
			if end != nil {
				return *end
			}
			ok, reason := sasl.VerifyCramMD5(r, []byte(ch), a.User, a.Pass)
			return finish(ok, reason)
		case "XOAUTH2":
			msg := initial
			if !has {
				r, end := ask(nil)
				if end != nil {
					return *end
				}
				msg = r
			}
			ok, reason := sasl.VerifyXOAuth2(msg, a.User, a.Pass)
			if !ok {
				// XOAUTH2 sends the error as a challenge that the client answers with an empty response
				if _, end := ask([]byte(`{"status":"401","schemes":"bearer"}`)); end != nil {
					return *end
				}
			}
			return finish(ok, reason)
		case "SCRAM-SHA-1", "SCRAM-SHA-256", "SCRAM-SHA-1-PLUS", "SCRAM-SHA-256-PLUS":
			hash := "SHA-1"
			if mech == "SCRAM-SHA-256" || mech == "SCRAM-SHA-256-PLUS" {
				hash = "SHA-256"
			}
			plus := mech == "SCRAM-SHA-1-PLUS" || mech == "SCRAM-SHA-256-PLUS"
			cfg := sasl.ScramConfig{Hash: hash, Plus: plus, User: a.User, Password: []byte(a.Pass), Salt: a.Salt, Iterations: a.Iter, ServerNonce: a.ServerNonce, Ext: a.ScramExt}
			if cfg.Iterations < 1 {
				cfg.Iterations = 4096
			}
			if cfg.ServerNonce == "" {
				cfg.ServerNonce = "3rfcNHYJY1ZVvWVs7j"
			}
			if plus {
				st := io.Session().TLSState
				if st == nil {
					return finish(false, "PLUS mechanism without TLS")
				}
				cfg.CBType, cfg.CBData = serverChannelBinding(st)
				set(func(r *authResult) { r.CBType = cfg.CBType })
			}
			x := sasl.NewScram(cfg)
			first := initial
			if !has {
				r, end := ask(nil)
				if end != nil {
					return *end
				}
				first = r
			}
			if err := x.ParseClientFirst(first); err != nil {
				return finish(false, "client-first: "+err.Error())
			}
			set(func(r *authResult) {
				r.ClientNonce, r.GS2, r.UserRaw, r.UserSeen = x.ClientNonce, x.GS2Header, x.UserRaw, x.User
			})
			fin, end := ask(x.ServerFirst())
			if end != nil {
				return *end
			}
			ok, reason := x.VerifyClientFinal(fin)
			if !ok {
				return finish(false, reason+": "+x.Detail)
			}
			ack, end := ask(x.ServerFinal())
			if end != nil {
				return *end
			}
			if len(ack) != 0 {
				return finish(false, fmt.Sprintf("client answered the server-final with %q instead of an empty response", ack))
			}
			set(func(r *authResult) { r.AckedFinal = true })
			return finish(true, "")
		}
		return refsmtp.Action{Kind: refsmtp.Reply, Code: 504, Text: "5.5.4 Unrecognized authentication type"}
	}
}

// serverChannelBinding computes the channel binding data the SERVER side of the connection sees.
func serverChannelBinding(st *tls.ConnectionState) (string, []byte) {
	if st.Version >= tls.VersionTLS13 {
		b, err := st.ExportKeyingMaterial("EXPORTER-Channel-Binding", []byte{}, 32)
		if err != nil {
			return "tls-exporter", nil
		}
		return "tls-exporter", b
	}
	return "tls-unique", st.TLSUnique
}
